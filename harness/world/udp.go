package world

import (
	"fmt"
	"net"
	"sync/atomic"

	"github.com/bokysan/socketace/v2/internal/client/upstream"
	"github.com/bokysan/socketace/v2/internal/server"
	"github.com/bokysan/socketace/v2/internal/util/addr"
	"github.com/bokysan/socketace/v2/internal/util/cert"
	"github.com/bokysan/socketace/v2/verifharness/netsim"
	"github.com/bokysan/socketace/v2/verifharness/pki"
	"github.com/xtaci/kcp-go/v5"
)

var udpPort int32 = 20000

// UDPWorld runs the real PacketServer.StartupPacket and Packet.ConnectPacket (real kcp-go)
// over an in-memory datagram network, OUTSIDE any bubble, in real time.
type UDPWorld struct {
	World
	Net    *netsim.PacketNet
	Server *server.PacketServer
	Pkt    *upstream.Packet
}

type UDPOptions struct {
	Options
	ServerSecret string
	ClientSecret string
}

func NewUDP(o UDPOptions) (*UDPWorld, error) {
	if o.AppBuf == 0 {
		o.AppBuf = 64 * 1024
	}
	if o.PKI == nil {
		o.PKI = pki.Real()
	}
	if o.Host == "" {
		o.Host = "server.test"
	}
	u := &UDPWorld{Net: netsim.NewPacketNet()}
	w := &u.World
	w.Opt = o.Options
	for i, n := range o.Channels {
		fc := &FakeChannel{ChName: n, Tag: byte(0x11 * (i + 1)), BufLimit: o.AppBuf, Keep: o.Keep}
		w.Chans = append(w.Chans, fc)
		w.SrvChans = append(w.SrvChans, fc)
	}
	if o.ServerCert != "" {
		p := pick(o.PKI, o.ServerCert)
		w.SrvCfg.Certificate, w.SrvCfg.PrivateKey = p.CertPEM, p.KeyPEM
		w.SrvCfg.CaCertificate = o.PKI.CA
	}
	w.SrvCfg.RequireClientCert = o.RequireClientCert
	if o.ClientKnowsCA {
		w.CliCfg.CaCertificate = o.PKI.CA
	}
	switch o.ClientCert {
	case "good":
		w.CliCfg.Certificate, w.CliCfg.PrivateKey = o.PKI.Client.CertPEM, o.PKI.Client.KeyPEM
	case "foreign":
		w.CliCfg.Certificate, w.CliCfg.PrivateKey = o.PKI.ForeignCl.CertPEM, o.PKI.ForeignCl.KeyPEM
	}
	w.CliCfg.InsecureSkipVerify = o.Insecure

	sport := int(atomic.AddInt32(&udpPort, 2))
	saddr := &net.UDPAddr{IP: net.IPv4(127, 0, 0, 1), Port: sport}
	caddr := &net.UDPAddr{IP: net.IPv4(127, 0, 0, 1), Port: sport + 1}
	spc := u.Net.Listen(saddr)
	cpc := u.Net.Listen(caddr)
	cred := func(s string) string {
		if s == "" {
			return ""
		}
		return "u:" + s + "@"
	}
	u.Server = server.NewPacketServer()
	u.Server.ServerConfig = w.SrvCfg
	u.Server.Channels = o.AllowList
	u.Server.PacketConnection = spc
	u.Server.Address = addr.MustParseAddress(fmt.Sprintf("udp://%s127.0.0.1:%d", cred(o.ServerSecret), sport))
	if err := u.Server.StartupPacket(w.SrvChans, server.DefaultListenerFromPacketConn); err != nil {
		return nil, err
	}
	u.Pkt = &upstream.Packet{Address: addr.MustParseAddress(fmt.Sprintf("udp://%s127.0.0.1:%d", cred(o.ClientSecret), sport))}
	front := &udpFront{Packet: u.Pkt, u: u, pc: cpc}
	w.Front = &Front{W: w, Kind: "udp", Host: o.Host}
	w.Ups = ClientUpstreams([]upstream.Upstream{front}, o.MustSecure, o.Insecure)
	return u, nil
}

type udpFront struct {
	*upstream.Packet
	u  *UDPWorld
	pc net.PacketConn
}

func (f *udpFront) Connect(manager cert.TlsConfig, mustSecure bool) error {
	f.u.Front.Dials++
	err := f.u.Pkt.ConnectPacket(manager, mustSecure, func(remote net.Addr, block kcp.BlockCrypt) (net.Conn, error) {
		return kcp.NewConn2(remote, block, 10, 3, f.pc)
	})
	if err != nil {
		f.u.Front.Err = err.Error()
	}
	return err
}

func (u *UDPWorld) Shutdown() {
	u.Ups.Shutdown()
	u.Server.Shutdown()
}
