// Package world wires the real socketace client and server stacks to in-memory carriers,
// fake channels/targets and harness-driven application endpoints.
package world

import (
	"fmt"
	"hash/fnv"
	"io"
	"net"
	"sync"

	"github.com/bokysan/socketace/v2/internal/streams"
	"github.com/bokysan/socketace/v2/verifharness/netsim"
)

// Pattern is the payload content used on the data path: position dependent, covers all
// 256 values, differs per tag so that cross-connection leaks are visible.
func Pattern(tag byte, off int) byte {
	if off < 256 {
		return byte(off) ^ tag
	}
	return byte(off*131+off/251) ^ tag
}

// Payload builds n bytes of the pattern starting at stream offset off.
func Payload(tag byte, off, n int) []byte {
	b := make([]byte, n)
	for i := range b {
		b[i] = Pattern(tag, off+i)
	}
	return b
}

// WriteResult is the outcome of one StartWrite.
type WriteResult struct {
	Len  int
	Done bool
	N    int
	Err  string
}

// Endpoint is a harness-held end of an in-memory connection (the local application's
// socket, or the target service's socket). A reader goroutine consumes whatever arrives;
// Pause stops delivery (back-pressure), writes run in their own goroutines.
type Endpoint struct {
	C    *netsim.MemConn
	Name string

	mu         sync.Mutex
	got        []byte
	keep       bool
	n          int
	bad        int // first offset at which received content deviates from Expect (-1 none)
	expect     func(off int) byte
	eof        bool
	rerr       string
	writes     []*WriteResult
	closed     bool
	queue      []queued
	writing    bool
	closeAfter bool
}

// NewEndpoint starts consuming c. expect (optional) is the content expected at each
// offset of the incoming stream; received bytes are kept entirely if keep is set.
func NewEndpoint(c *netsim.MemConn, name string, expect func(off int) byte, keep bool) *Endpoint {
	e := &Endpoint{C: c, Name: name, bad: -1, expect: expect, keep: keep}
	go e.readLoop()
	return e
}

func (e *Endpoint) readLoop() {
	buf := make([]byte, 65536)
	for {
		n, err := e.C.Read(buf)
		e.mu.Lock()
		if n > 0 {
			if e.expect != nil && e.bad < 0 {
				for i := 0; i < n; i++ {
					if buf[i] != e.expect(e.n+i) {
						e.bad = e.n + i
						break
					}
				}
			}
			if e.keep {
				e.got = append(e.got, buf[:n]...)
			}
			e.n += n
		}
		if err != nil {
			if err == io.EOF {
				e.eof = true
			} else {
				e.rerr = err.Error()
			}
			e.mu.Unlock()
			return
		}
		e.mu.Unlock()
	}
}

// StartWrite queues b for the endpoint's single writer goroutine (an application writes
// sequentially on its socket); the result is visible in Obs once the Write returned.
func (e *Endpoint) StartWrite(b []byte) int {
	e.mu.Lock()
	wr := &WriteResult{Len: len(b)}
	e.writes = append(e.writes, wr)
	idx := len(e.writes) - 1
	e.queue = append(e.queue, queued{b, wr})
	if !e.writing {
		e.writing = true
		go e.writeLoop()
	}
	e.mu.Unlock()
	return idx
}

type queued struct {
	b  []byte
	wr *WriteResult
}

func (e *Endpoint) writeLoop() {
	for {
		e.mu.Lock()
		if len(e.queue) == 0 {
			e.writing = false
			ca := e.closeAfter
			e.mu.Unlock()
			if ca {
				e.Close()
			}
			return
		}
		q := e.queue[0]
		e.queue = e.queue[1:]
		e.mu.Unlock()
		n, err := e.C.Write(q.b)
		e.mu.Lock()
		q.wr.Done, q.wr.N = true, n
		if err != nil {
			q.wr.Err = err.Error()
		}
		e.mu.Unlock()
	}
}

// WriteThenClose queues b and closes the endpoint as soon as the Write has returned (the
// close races with the delivery of the last write, as in "write everything, then close").
func (e *Endpoint) WriteThenClose(b []byte) {
	e.mu.Lock()
	e.closeAfter = true
	e.mu.Unlock()
	e.StartWrite(b)
}

// StartWrites queues several writes (an application that writes its payload in pieces
// without waiting for delivery).
func (e *Endpoint) StartWrites(bs [][]byte) {
	for _, b := range bs {
		e.StartWrite(b)
	}
}

func (e *Endpoint) Pause()  { e.C.StallIncoming(true) }
func (e *Endpoint) Resume() { e.C.StallIncoming(false) }

func (e *Endpoint) Close() {
	e.mu.Lock()
	e.closed = true
	e.mu.Unlock()
	e.C.Close()
}

// Obs is the canonical observation of an endpoint at a quiescent point.
type Obs struct {
	Name       string
	Got        int
	Hash       uint64
	BadAt      int
	EOF        bool
	Err        string
	Closed     bool
	Writes     []WriteResult
	PeerClosed bool
	PendingIn  int
	WrittenOut int64
}

func (e *Endpoint) Obs() Obs {
	e.mu.Lock()
	defer e.mu.Unlock()
	o := Obs{Name: e.Name, Got: e.n, BadAt: e.bad, EOF: e.eof, Err: e.rerr, Closed: e.closed}
	if e.keep {
		h := fnv.New64a()
		h.Write(e.got)
		o.Hash = h.Sum64()
	}
	for _, w := range e.writes {
		o.Writes = append(o.Writes, *w)
	}
	o.WrittenOut, _, _, o.PendingIn = e.C.Stats()
	o.PeerClosed = e.C.PeerClosedWrite()
	return o
}

// Bytes returns a copy of the bytes received so far (keep must be set).
func (e *Endpoint) Bytes() []byte {
	e.mu.Lock()
	defer e.mu.Unlock()
	return append([]byte{}, e.got...)
}

func (o Obs) String() string {
	return fmt.Sprintf("%s{got=%d bad=%d eof=%v err=%q closed=%v writes=%v pend=%d}", o.Name, o.Got, o.BadAt, o.EOF, o.Err, o.Closed, o.Writes, o.PendingIn)
}

// FakeChannel is a server.Channel whose OpenConnection hands the server one end of an
// in-memory connection and keeps the other as a target Endpoint.
type FakeChannel struct {
	ChName   string
	W        *World
	Tag      byte // expected payload tag of data arriving at the target (0 = none)
	BufLimit int
	Keep     bool
	Refuse   bool
	RefuseN  int // the first RefuseN dials are refused, later ones connect
	Expect   func(connIdx int) func(off int) byte
	// BlockDial, if non-nil, makes OpenConnection wait until it is closed: a target whose
	// connect never completes (black-holed address)
	BlockDial chan struct{}

	mu      sync.Mutex
	Targets []*Endpoint
	Opens   int
}

func (f *FakeChannel) Name() string   { return f.ChName }
func (f *FakeChannel) String() string { return f.ChName + "->mem" }

func (f *FakeChannel) OpenConnection() (net.Conn, error) {
	if f.BlockDial != nil {
		f.mu.Lock()
		f.Opens++
		f.mu.Unlock()
		<-f.BlockDial
	}
	f.mu.Lock()
	defer f.mu.Unlock()
	f.Opens++
	if f.Refuse || f.Opens <= f.RefuseN {
		return nil, fmt.Errorf("connection refused (fake channel %s)", f.ChName)
	}
	idx := len(f.Targets)
	a, b := netsim.Pipe(netsim.Addr{Net: "mem", Str: "server-out"}, netsim.Addr{Net: "mem", Str: "target-" + f.ChName}, f.BufLimit)
	var exp func(int) byte
	if f.Expect != nil {
		exp = f.Expect(idx)
	}
	if f.W != nil {
		f.W.Track(a, "server side of target connection")
	}
	ep := NewEndpoint(b, fmt.Sprintf("target[%s#%d]", f.ChName, idx), exp, f.Keep)
	f.Targets = append(f.Targets, ep)
	return streams.NewNamedConnection(a, f.String()), nil
}

// Target returns the i-th target endpoint opened through this channel (nil if none yet).
func (f *FakeChannel) Target(i int) *Endpoint {
	f.mu.Lock()
	defer f.mu.Unlock()
	if i < len(f.Targets) {
		return f.Targets[i]
	}
	return nil
}

func (f *FakeChannel) NumTargets() int {
	f.mu.Lock()
	defer f.mu.Unlock()
	return len(f.Targets)
}
