package world

import (
	"fmt"
	"testing"
	"time"

	"github.com/bokysan/socketace/v2/verifharness/bubble"
)

func smoke(t *testing.T, o Options, n int) {
	start := time.Now()
	res := bubble.Run(t, func() {
		w, err := New(o)
		if err != nil {
			t.Errorf("New: %v", err)
			return
		}
		app := w.OpenApp(o.Channels[0], func(off int) byte { return Pattern(0x80, off) })
		app.StartWrite(Payload(0x11, 0, n))
		bubble.Wait()
		bubble.Advance(3 * time.Second)
		tg := w.Chans[0].Target(0)
		if tg == nil {
			t.Errorf("%v: no target opened; front err=%q acceptErrs=%v", o.Carrier, w.Front.Err, w.AcceptErrs)
			return
		}
		tg.StartWrite(Payload(0x80, 0, n))
		bubble.Wait()
		bubble.Advance(3 * time.Second)
		fmt.Printf("%s tls=%v cert=%q: app=%v target=%v\n", o.Carrier, o.TLS, o.ServerCert, app.Obs(), tg.Obs())
		if tg.Obs().Got != n || app.Obs().Got != n || app.Obs().BadAt >= 0 {
			t.Errorf("transfer incomplete")
		}
		app.Close()
		bubble.Advance(3 * time.Second)
		fmt.Printf("   after close: target=%v handled=%d\n", tg.Obs(), w.HandledCount())
	})
	fmt.Printf("   result: panic=%q leaked=%v spins=%d real=%v\n", res.Panic, res.Leaked, res.SpinCount, time.Since(start))
}

func TestSmoke(t *testing.T) {
	for _, o := range []Options{
		{Carrier: "stream", Channels: []string{"a"}},
		{Carrier: "stream", Channels: []string{"a"}, ServerCert: "good", ClientKnowsCA: true},
		{Carrier: "stream", TLS: true, Channels: []string{"a"}, ServerCert: "good", ClientKnowsCA: true},
		{Carrier: "ws", Channels: []string{"a"}},
		{Carrier: "ws", TLS: true, Channels: []string{"a"}, ServerCert: "good", ClientKnowsCA: true},
		{Carrier: "stdio", Channels: []string{"a"}},
		{Carrier: "stdio", TLS: true, Channels: []string{"a"}, ServerCert: "good", ClientKnowsCA: true},
		{Carrier: "dns", Channels: []string{"a"}},
	} {
		smoke(t, o, 3000)
	}
}
