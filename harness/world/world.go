package world

import (
	"os"
	"path/filepath"

	"github.com/bokysan/socketace/v2/internal/args"

	"crypto/tls"
	"fmt"
	clientcmd "github.com/bokysan/socketace/v2/internal/commands/client"
	"net"
	"net/http"
	"reflect"
	"strings"
	"sync"
	"time"
	"unsafe"

	"github.com/bokysan/socketace/v2/internal/client/listener"
	"github.com/bokysan/socketace/v2/internal/client/upstream"
	"github.com/bokysan/socketace/v2/internal/server"
	"github.com/bokysan/socketace/v2/internal/socketace"
	"github.com/bokysan/socketace/v2/internal/streams"
	"github.com/bokysan/socketace/v2/internal/util/addr"
	"github.com/bokysan/socketace/v2/internal/util/cert"
	"github.com/bokysan/socketace/v2/verifharness/netsim"
	"github.com/bokysan/socketace/v2/verifharness/pki"
	"github.com/gorilla/websocket"
	"github.com/pkg/errors"
	"github.com/xtaci/kcp-go/v5"
)

// Options describes one client/server world.
type Options struct {
	// Bundle: certificate files are bundles - the leaf followed by its issuer - where the issuer
	// is not the configured CA (the "untrusted" server certificate and the "foreign" client
	// certificate are followed by the foreign CA's certificate). Trust must not change.
	Bundle bool
	// CertFiles: "" = certificate material is given inline (PEM text in the configuration);
	// "abs" = through files named by absolute paths; "rel" = through files named relative to
	// the configuration file's directory (args.General.ConfigurationFilePath).
	CertFiles string
	Carrier   string // stream | ws | stdio | dns
	TLS       bool   // the carrier itself is TLS (tcp+tls, wss, stdio+tls)
	Channels  []string
	AllowList []string // server endpoint allow-list (empty = all)
	// AllowList2: ws carrier only: a second websocket path /ws2 with its own allow-list (nil = no second path)
	AllowList2 *[]string

	ServerCert        string // "", good, wronghost, untrusted, expired  (non-empty + !TLS => StartTLS offered)
	RequireClientCert bool
	ClientKnowsCA     bool
	ClientCert        string // "", good, foreign
	ClientTLSBroken   string // "", key-mismatch, cert-file-missing: the client's own TLS material cannot be loaded
	Insecure          bool
	MustSecure        bool
	// ServerTrustsForeignCA: the server verifies client certificates against the foreign CA
	ServerTrustsForeignCA bool
	Host                  string // upstream host as the user wrote it (default server.test)

	AppBuf  int  // buffer bound of application/target endpoints (default 64 KiB)
	Keep    bool // endpoints keep all received bytes
	PKI     *pki.PKI
	Relay   bool // capture every byte crossing the carrier (C04)
	DnsPath DnsPath
	// RealLoop selects the real accept loop instead of the harness' concurrent one:
	// "socket" (SocketServer.acceptConnection via VerifServe), "packet" (PacketServer.StartupPacket
	// with the in-memory listener injected), "dns" (DnsServer's loop over the real ServerDnsListener).
	RealLoop string
	// DnsRaw: do not run the socketace layer on accepted DNS-tunnel connections; the check drives
	// the tunnel connection objects directly (C07, C13).
	DnsRaw bool
	// DnsDomain overrides the tunnel domain of the DNS carrier (default world.DnsDomain)
	DnsDomain string
	// OnDial is called for every physical carrier connection with the connection objects whose
	// read plans govern the client's and the server's reads respectively.
	OnDial func(clientReads, serverReads *netsim.MemConn)
}

type certGetter struct{ m cert.TlsConfig }

func (c certGetter) CertManager() cert.TlsConfig { return c.m }

// World is one running client + server pair.
type World struct {
	Opt      Options
	Chans    []*FakeChannel
	SrvChans server.Channels
	SrvCfg   cert.ServerConfig
	CliCfg   cert.ClientConfig
	Ups      *upstream.Upstreams
	Front    *Front // the client-side upstream front-end
	Listener *netsim.MemListener
	HTTP     *server.HttpServer
	IoSrv    *server.IoServer
	Dns      *DnsWorld
	CertDir  string               // directory of the certificate files (Options.CertFiles)
	Sock     *server.SocketServer // the real socket server whose accept loop serves the stream carrier

	mu         sync.Mutex
	Apps       []*Endpoint
	AcceptErrs []string
	Handled    int // HandleConnection calls that returned
	stdioC2S   *netsim.MemConn
	stdioS2C   *netsim.MemConn
	tracked    []*netsim.MemConn // connection ends held by socketace code
}

// Track registers a connection end that is handed to socketace code (leak oracle).
func (w *World) Track(c *netsim.MemConn, label string) {
	c.Label = label
	w.mu.Lock()
	w.tracked = append(w.tracked, c)
	w.mu.Unlock()
}

// OpenTracked lists the socketace-held connection ends that were never closed.
func (w *World) OpenTracked() []string {
	w.mu.Lock()
	defer w.mu.Unlock()
	var out []string
	for _, c := range w.tracked {
		if !c.Closed() {
			out = append(out, c.Label)
		}
	}
	return out
}

func pick(p *pki.PKI, name string) pki.Pair {
	switch name {
	case "good":
		return p.Server
	case "wronghost":
		return p.WrongHost
	case "untrusted":
		return p.Untrusted
	case "expired":
		return p.Expired
	}
	return pki.Pair{}
}

// New builds the world and starts the server side. Must be called inside the bubble.
func New(o Options) (*World, error) {
	if o.AppBuf == 0 {
		o.AppBuf = 64 * 1024
	}
	if o.PKI == nil {
		o.PKI = pki.Bubble()
	}
	if o.Host == "" {
		o.Host = "server.test"
	}
	w := &World{Opt: o}
	for i, n := range o.Channels {
		tag := byte(0x11 * (i + 1))
		fc := &FakeChannel{ChName: n, W: w, Tag: tag, BufLimit: o.AppBuf, Keep: o.Keep}
		w.Chans = append(w.Chans, fc)
		w.SrvChans = append(w.SrvChans, fc)
	}
	if o.ServerCert != "" {
		p := pick(o.PKI, o.ServerCert)
		w.SrvCfg.Certificate, w.SrvCfg.PrivateKey = p.CertPEM, p.KeyPEM
		w.SrvCfg.CaCertificate = o.PKI.CA
		if o.ServerTrustsForeignCA {
			w.SrvCfg.CaCertificate = o.PKI.ForeignCA // this endpoint accepts client certificates of the OTHER CA only
		}
	}
	w.SrvCfg.RequireClientCert = o.RequireClientCert
	if o.ClientKnowsCA {
		w.CliCfg.CaCertificate = o.PKI.CA
	}
	switch o.ClientCert {
	case "good":
		w.CliCfg.Certificate, w.CliCfg.PrivateKey = o.PKI.Client.CertPEM, o.PKI.Client.KeyPEM
	case "foreign":
		w.CliCfg.Certificate, w.CliCfg.PrivateKey = o.PKI.ForeignCl.CertPEM, o.PKI.ForeignCl.KeyPEM
	}
	switch o.ClientTLSBroken {
	case "key-mismatch":
		w.CliCfg.Certificate, w.CliCfg.PrivateKey = o.PKI.Client.CertPEM, o.PKI.ForeignCl.KeyPEM
	case "cert-file-missing":
		w.CliCfg.CertificateFile, w.CliCfg.PrivateKey = "/nonexistent/verif/client.pem", o.PKI.Client.KeyPEM
	}
	w.CliCfg.InsecureSkipVerify = o.Insecure
	if o.Bundle {
		if o.ServerCert == "untrusted" {
			w.SrvCfg.Certificate = strings.TrimSpace(w.SrvCfg.Certificate) + "\n" + o.PKI.ForeignCA
		}
		if o.ClientCert == "foreign" {
			w.CliCfg.Certificate = strings.TrimSpace(w.CliCfg.Certificate) + "\n" + o.PKI.ForeignCA
		}
	}
	if o.CertFiles != "" {
		if err := w.certsToFiles(o); err != nil {
			return nil, err
		}
	}

	filtered, err := w.SrvChans.Filter(o.AllowList)
	if err != nil {
		return nil, errors.Wrap(err, "Filter")
	}

	w.Front = &Front{W: w, Kind: o.Carrier, TLS: o.TLS, Host: o.Host}
	switch o.Carrier {
	case "stream":
		w.Listener = netsim.NewListener("server:1")
		w.Listener.OnDial = w.onDial
		var l net.Listener = w.Listener
		if o.TLS {
			tc, err := w.SrvCfg.GetTlsConfig()
			if err != nil {
				return nil, err
			}
			l = tls.NewListener(l, tc)
		}
		if o.RealLoop == "" {
			// the real accept loop of the socket server is the default; "harness" selects the plain
			// accept loop of the harness (serveStream), which records handshake errors
			o.RealLoop = "socket"
		}
		switch o.RealLoop {
		case "socket":
			ss := server.NewSocketServer()
			ss.ServerConfig = w.SrvCfg
			w.Sock = ss
			go ss.VerifServe(l, filtered, o.TLS)
		case "packet":
			ps := server.NewPacketServer()
			ps.ServerConfig = w.SrvCfg
			ps.Channels = o.AllowList
			ps.PacketConnection = dummyPacketConn{}
			ps.Address = addr.MustParseAddress("udp://127.0.0.1:1")
			if err := ps.StartupPacket(w.SrvChans, func(kcp.BlockCrypt, net.PacketConn) (net.Listener, error) { return l, nil }); err != nil {
				return nil, err
			}
		default:
			go w.serveStream(l, o.TLS, filtered)
		}
	case "ws":
		w.Listener = netsim.NewListener("server:80")
		w.Listener.OnDial = w.onDial
		w.HTTP = server.NewHttpServer()
		w.HTTP.ServerConfig = w.SrvCfg
		w.HTTP.VerifSetSecure(o.TLS)
		h, err := endpointHandler(w.HTTP, &server.HttpEndpoint{Endpoint: "/ws", Channels: o.AllowList}, filtered)
		if err != nil {
			return nil, err
		}
		mux := http.NewServeMux()
		mux.HandleFunc("/ws", h)
		if o.AllowList2 != nil {
			f2, err := w.SrvChans.Filter(*o.AllowList2)
			if err != nil {
				return nil, errors.Wrap(err, "Filter")
			}
			h2, err := endpointHandler(w.HTTP, &server.HttpEndpoint{Endpoint: "/ws2", Channels: *o.AllowList2}, f2)
			if err != nil {
				return nil, err
			}
			mux.HandleFunc("/ws2", h2)
		}
		srv := &http.Server{Handler: mux}
		var l net.Listener = w.Listener
		if o.TLS {
			tc, err := w.SrvCfg.GetTlsConfig()
			if err != nil {
				return nil, err
			}
			l = tls.NewListener(l, tc)
		}
		go srv.Serve(l)
	case "stdio":
		// two unidirectional in-memory pipes
		c2sW, c2sR := netsim.Pipe(netsim.Addr{Net: "pipe", Str: "client-out"}, netsim.Addr{Net: "pipe", Str: "server-in"}, 0)
		s2cW, s2cR := netsim.Pipe(netsim.Addr{Net: "pipe", Str: "server-out"}, netsim.Addr{Net: "pipe", Str: "client-in"}, 0)
		w.stdioC2S, w.stdioS2C = c2sW, s2cW
		if o.OnDial != nil {
			o.OnDial(s2cR, c2sR)
		}
		scheme := "stdio"
		if o.TLS {
			scheme = "stdio+tls"
		}
		w.IoSrv = &server.IoServer{Input: c2sR, Output: s2cW, Channels: o.AllowList}
		w.IoSrv.ServerConfig = w.SrvCfg
		w.IoSrv.Address = addr.MustParseAddress(scheme + "://")
		if err := w.IoSrv.Startup(w.SrvChans); err != nil {
			return nil, err
		}
		cs := "stdin"
		if o.TLS {
			cs = "stdin+tls"
		}
		w.Front.IO = &upstream.InputOutput{Address: addr.MustParseAddress(cs + "://"), Input: s2cR, Output: c2sW}
	case "dns":
		d, err := newDnsWorld(w, filtered)
		if err != nil {
			return nil, err
		}
		w.Dns = d
	default:
		return nil, fmt.Errorf("unknown carrier %q", o.Carrier)
	}
	w.Ups = ClientUpstreams([]upstream.Upstream{w.Front}, o.MustSecure, o.Insecure)
	return w, nil
}

// certsToFiles moves the inline certificate material of both configurations into files.
func (w *World) certsToFiles(o Options) error {
	dir, err := os.MkdirTemp("", "verif-certs-")
	if err != nil {
		return err
	}
	w.CertDir = dir
	if o.CertFiles == "rel" {
		args.General.ConfigurationFilePath = filepath.Join(dir, "socketace.yml")
	}
	n := 0
	move := func(inline, file *string, decoy string) error {
		if *inline == "" {
			return nil
		}
		n++
		name := fmt.Sprintf("f%d.pem", n)
		if err := os.WriteFile(filepath.Join(dir, name), []byte(*inline), 0600); err != nil {
			return err
		}
		if o.CertFiles == "rel" {
			*file = name
		} else {
			*file = filepath.Join(dir, name)
		}
		*inline = decoy
		return nil
	}
	for _, c := range []*cert.Config{&w.SrvCfg.Config, &w.CliCfg.Config} {
		if err := move(&c.CaCertificate, &c.CaCertificateFile, ""); err != nil {
			return err
		}
		if err := move(&c.Certificate, &c.CertificateFile, ""); err != nil {
			return err
		}
		if err := move(&c.PrivateKey, &c.PrivateKeyFile, ""); err != nil {
			return err
		}
	}
	return nil
}

// StopServer makes the server of a stream world go away for good: through the socket server's own
// Shutdown when its real accept loop is running (a listener closed behind its back would make
// that loop spin), else by closing the listener.
func (w *World) StopServer() {
	if w.Sock != nil {
		w.Sock.Shutdown()
		return
	}
	if w.Listener != nil {
		w.Listener.Close()
	}
}

// RemoveCertFiles deletes the files written for Options.CertFiles.
func (w *World) RemoveCertFiles() {
	if w.CertDir != "" {
		os.RemoveAll(w.CertDir)
		args.General.ConfigurationFilePath = ""
	}
}

func (w *World) onDial(c, s *netsim.MemConn) {
	w.Track(c, "carrier client end")
	w.Track(s, "carrier server end")
	if w.Opt.OnDial != nil {
		w.Opt.OnDial(c, s)
	}
}

func (w *World) serveStream(l net.Listener, secure bool, chans server.Channels) {
	for {
		c, err := l.Accept()
		if err != nil {
			return
		}
		conn := streams.NewNamedConnection(c, "socket")
		go func() {
			if err := server.AcceptConnection(conn, &w.SrvCfg, secure, chans); err != nil {
				w.mu.Lock()
				w.AcceptErrs = append(w.AcceptErrs, err.Error())
				w.mu.Unlock()
			}
		}()
	}
}

// endpointHandler performs one iteration of HttpServer.Startup's per-endpoint loop
// (Filter has been applied by the caller): it obtains the handler for one websocket path.
// The call goes through reflection so that a refactoring of EndpointHandler's parameter list
// (e.g. the filtered channels kept in a field set by Startup instead of being passed) does
// not break the harness build; in that shape the field is set as Startup would set it.
func endpointHandler(h *server.HttpServer, ep *server.HttpEndpoint, filtered server.Channels) (http.HandlerFunc, error) {
	m := reflect.ValueOf(h).MethodByName("EndpointHandler")
	if !m.IsValid() {
		return nil, fmt.Errorf("HttpServer has no EndpointHandler method any more")
	}
	var in []reflect.Value
	switch m.Type().NumIn() {
	case 2:
		in = []reflect.Value{reflect.ValueOf(ep), reflect.ValueOf(filtered)}
	case 1:
		f := reflect.ValueOf(h).Elem().FieldByName("upstreams")
		if !f.IsValid() || f.Type() != reflect.TypeOf(filtered) {
			return nil, fmt.Errorf("unsupported shape of HttpServer.EndpointHandler")
		}
		reflect.NewAt(f.Type(), unsafe.Pointer(f.UnsafeAddr())).Elem().Set(reflect.ValueOf(filtered))
		in = []reflect.Value{reflect.ValueOf(ep)}
	default:
		return nil, fmt.Errorf("unsupported shape of HttpServer.EndpointHandler")
	}
	out := m.Call(in)
	if len(out) != 2 {
		return nil, fmt.Errorf("unsupported result of HttpServer.EndpointHandler")
	}
	if e, ok := out[1].Interface().(error); ok && e != nil {
		return nil, e
	}
	hf, ok := out[0].Interface().(http.HandlerFunc)
	if !ok {
		return nil, fmt.Errorf("unsupported result type of HttpServer.EndpointHandler")
	}
	return hf, nil
}

type dummyPacketConn struct{ net.PacketConn }

// NewClient returns an additional, independent client (its own Upstreams and front-end)
// connecting to the same server endpoint.
func (w *World) NewClient() *upstream.Upstreams { return w.NewClientPath("") }

// NewClientPath is NewClient for a given websocket path.
func (w *World) NewClientPath(path string) *upstream.Upstreams {
	f := &Front{W: w, Kind: w.Opt.Carrier, TLS: w.Opt.TLS, Host: w.Opt.Host, Path: path}
	return ClientUpstreams([]upstream.Upstream{f}, w.Opt.MustSecure, w.Opt.Insecure)
}

// ClientUpstreams builds the client's Upstreams the way the program does: a client Command
// with the --secure / --insecure flags set, whose Startup derives the connection policy
// (no listeners; the harness opens the logical connections itself).
func ClientUpstreams(list []upstream.Upstream, secure, insecure bool) *upstream.Upstreams {
	cmd := clientcmd.NewCommand()
	cmd.Secure = secure
	cmd.InsecureSkipVerify = insecure
	cmd.Upstream = upstream.Upstreams{Data: list}
	if err := cmd.Startup(make(chan os.Signal)); err != nil {
		panic("client Command.Startup without listeners failed: " + err.Error())
	}
	return &cmd.Upstream
}

// OpenAppVia is OpenApp through the given client.
func (w *World) OpenAppVia(ups *upstream.Upstreams, channel string, expect func(off int) byte) *Endpoint {
	a, b := netsim.Pipe(netsim.Addr{Net: "mem", Str: "app"}, netsim.Addr{Net: "mem", Str: "listener-" + channel}, w.Opt.AppBuf)
	w.Track(b, "listener-side of app connection")
	w.mu.Lock()
	idx := len(w.Apps)
	ep := NewEndpoint(a, fmt.Sprintf("app[%d:%s]", idx, channel), expect, w.Opt.Keep)
	w.Apps = append(w.Apps, ep)
	w.mu.Unlock()
	l := &listener.AbstractListener{Upstreams: ups, Config: certGetter{&w.CliCfg}}
	l.Name = channel
	go func() {
		l.HandleConnection(b)
		w.mu.Lock()
		w.Handled++
		w.mu.Unlock()
	}()
	return ep
}

// StdioWriters returns the write ends of the two stdio pipes (client->server, server->client).
func (w *World) StdioWriters() (*netsim.MemConn, *netsim.MemConn) { return w.stdioC2S, w.stdioS2C }

// CarrierClientEnd returns the client end of the n-th physical carrier connection (stream
// and ws carriers), for fault plans.
func (w *World) CarrierClientEnd(n int) *netsim.MemConn {
	if w.Listener == nil {
		return nil
	}
	if n < len(w.Listener.Dialled) {
		return w.Listener.Dialled[n]
	}
	return nil
}

// OpenApp simulates one local application connection accepted by a socket listener for
// the given channel: the real AbstractListener.HandleConnection runs on the listener end.
func (w *World) OpenApp(channel string, expect func(off int) byte) *Endpoint {
	a, b := netsim.Pipe(netsim.Addr{Net: "mem", Str: "app"}, netsim.Addr{Net: "mem", Str: "listener-" + channel}, w.Opt.AppBuf)
	w.Track(b, "listener-side of app connection")
	w.mu.Lock()
	idx := len(w.Apps)
	ep := NewEndpoint(a, fmt.Sprintf("app[%d:%s]", idx, channel), expect, w.Opt.Keep)
	w.Apps = append(w.Apps, ep)
	w.mu.Unlock()
	l := &listener.AbstractListener{Upstreams: w.Ups, Config: certGetter{&w.CliCfg}}
	l.Name = channel
	go func() {
		l.HandleConnection(b)
		w.mu.Lock()
		w.Handled++
		w.mu.Unlock()
	}()
	return ep
}

// OpenAppIO is OpenApp through the real InputOutputListener.Start (the listener kind used for
// `--listen name~stdin://`): the application side is the listener's standard-stream pair.
func (w *World) OpenAppIO(channel string, expect func(off int) byte) (*Endpoint, error) {
	a, b := netsim.Pipe(netsim.Addr{Net: "mem", Str: "app"}, netsim.Addr{Net: "mem", Str: "stdio-listener-" + channel}, w.Opt.AppBuf)
	w.Track(b, "listener-side of app connection")
	w.mu.Lock()
	idx := len(w.Apps)
	ep := NewEndpoint(a, fmt.Sprintf("app[%d:%s:io]", idx, channel), expect, w.Opt.Keep)
	w.Apps = append(w.Apps, ep)
	w.mu.Unlock()
	l := &listener.InputOutputListener{InputOutput: b}
	l.Name = channel
	return ep, l.Start(w.Ups, certGetter{&w.CliCfg})
}

func (w *World) HandledCount() int {
	w.mu.Lock()
	defer w.mu.Unlock()
	return w.Handled
}

func (w *World) Chan(name string) *FakeChannel {
	for _, c := range w.Chans {
		if c.ChName == name {
			return c
		}
	}
	return nil
}

// Front is the client-side upstream front-end. For stdio it delegates to the real
// upstream.InputOutput; for stream and ws it re-states the ~10 lines that follow net.Dial
// in upstream.Socket.Connect / upstream.Http.Connect (bound to the real ones by the
// real-socket wiring pass).
type Front struct {
	streams.Connection
	W     *World
	Kind  string
	TLS   bool
	Host  string
	IO    *upstream.InputOutput
	Dials int
	Err   string
	Path  string // ws: websocket path (default /ws)
}

func (f *Front) String() string { return f.Kind + "://" + f.Host }

func hostOnly(h string) string {
	if i := strings.LastIndex(h, ":"); i > 0 && !strings.Contains(h[i:], "]") {
		return h[:i]
	}
	return h
}

func (f *Front) Connect(manager cert.TlsConfig, mustSecure bool) (err error) {
	f.Dials++
	defer func() {
		if err != nil {
			f.Err = err.Error()
		}
	}()
	switch f.Kind {
	case "stdio":
		if err := f.IO.Connect(manager, mustSecure); err != nil {
			return err
		}
		f.Connection = f.IO.Connection
		return nil
	case "dns":
		return f.W.Dns.connect(f, manager, mustSecure)
	case "stream":
		var c net.Conn
		raw, err := f.W.Listener.Dial()
		if err != nil {
			return errors.Wrapf(err, "Could not connect to %v", f.Host)
		}
		c = raw
		if f.TLS {
			tlsConfig, err := manager.GetTlsConfig()
			if err != nil {
				return errors.Wrapf(err, "Could not configure TLS")
			}
			// tls.Dial semantics: ServerName defaults to the host part of the address
			if tlsConfig.ServerName == "" {
				tlsConfig = tlsConfig.Clone()
				tlsConfig.ServerName = hostOnly(f.Host)
			}
			tc := tls.Client(raw, tlsConfig)
			if err := tc.Handshake(); err != nil {
				raw.Close()
				return errors.Wrapf(err, "Could not connect to %v", f.Host)
			}
			c = tc
		}
		cc, err := socketace.NewClientConnection(c, manager, f.TLS, f.Host)
		if err != nil {
			return errors.Wrapf(err, "Could not open connection")
		} else if mustSecure && !cc.Secure() {
			return errors.Errorf("Could not establish a secure connection to %v", f.Host)
		}
		f.Connection = streams.NewNamedConnection(streams.NewNamedConnection(cc, f.Host), "socket")
		return nil
	case "ws":
		var tlsConfig *tls.Config
		if f.TLS {
			conf, err := manager.GetTlsConfig()
			if err != nil {
				return errors.Wrapf(err, "Could not read certificate pair")
			}
			tlsConfig = conf
		}
		dialer := &websocket.Dialer{
			HandshakeTimeout: 45 * time.Second,
			TLSClientConfig:  tlsConfig,
			NetDial: func(network, a string) (net.Conn, error) {
				return f.W.Listener.Dial()
			},
		}
		scheme := "ws"
		if f.TLS {
			scheme = "wss"
		}
		path := f.Path
		if path == "" {
			path = "/ws"
		}
		c, _, err := dialer.Dial(scheme+"://"+f.Host+path, nil)
		if err != nil {
			return errors.Wrapf(err, "Could not connect to %v", f.Host)
		}
		var stream streams.Connection = streams.NewWebsocketTunnelConnection(c)
		cc, err := socketace.NewClientConnection(stream, manager, f.TLS, f.Host)
		if err != nil {
			return errors.Wrapf(err, "Could not open connection")
		} else if mustSecure && !cc.Secure() {
			return errors.Errorf("Could not establish a secure connection to %v", f.Host)
		}
		f.Connection = streams.NewNamedConnection(streams.NewNamedConnection(cc, f.Host), "http")
		return nil
	}
	return fmt.Errorf("unknown front kind %q", f.Kind)
}
