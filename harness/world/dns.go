package world

import (
	"fmt"
	"net"
	"sync"
	"sync/atomic"
	"time"

	"github.com/bokysan/socketace/v2/internal/server"
	"github.com/bokysan/socketace/v2/internal/socketace"
	"github.com/bokysan/socketace/v2/internal/streams"
	sdns "github.com/bokysan/socketace/v2/internal/streams/dns"
	"github.com/bokysan/socketace/v2/internal/util/cert"
	"github.com/bokysan/socketace/v2/verifharness/netsim"
	"github.com/miekg/dns"
	"github.com/pkg/errors"
)

// Fate of one client->server exchange on the simulated DNS path.
type Fate int

const (
	Delivered  Fate = iota
	QueryLost       // the server never sees the query
	AnswerLost      // the server handles the query, the answer is dropped
	QueryDup        // the server handles the query twice; the second answer arrives too (late duplicate)
	Replay1         // before this query, the query sent 1 exchange earlier is delivered again (its answer is dropped)
	Replay2         // ... 2 exchanges earlier
	Replay130       // ... 130 exchanges earlier
	Foreign         // the query reaches the server from another source address (resolver pool, NAT rebinding): the server refuses it and the client gets that refusal
	NumFates
)

func (f Fate) String() string {
	return [...]string{"deliver", "query-lost", "answer-lost", "query-dup", "replay-1", "replay-2", "replay-130", "refused-foreign-source"}[f]
}

// DnsPath describes what the network between DNS client and server does.
type DnsPath struct {
	Fate      func(exchange int) Fate                // nil: always delivered (exchange numbers start at 1)
	Query     func(exchange int, q *dns.Msg) bool    // mutate the query on its way; false = dropped
	Answer    func(exchange int, q, a *dns.Msg) bool // mutate / veto the answer; false = dropped
	MaxAns    int                                    // >0: answers whose packed size exceeds this are dropped
	Truncate  bool                                   // with MaxAns: oversize answers come back empty with the TC bit instead of being dropped
	QueryWire func(exchange int, wire []byte) []byte // rewrite the packed query (nil result = dropped)
	From      func(exchange int) net.Addr            // non-nil result: the server sees this exchange as coming from that address
}

const DnsDomain = "t.example.org"

// memServerComm is the server-side communicator: it only records the handler.
type memServerComm struct {
	mu     sync.Mutex
	on     sdns.OnMessage
	closed bool
}

func (m *memServerComm) Close() error                    { m.mu.Lock(); m.closed = true; m.mu.Unlock(); return nil }
func (m *memServerComm) Closed() bool                    { m.mu.Lock(); defer m.mu.Unlock(); return m.closed }
func (m *memServerComm) RegisterAccept(f sdns.OnMessage) { m.on = f }
func (m *memServerComm) LocalAddr() net.Addr {
	return &net.UDPAddr{IP: net.IPv4(127, 0, 0, 1), Port: 53}
}

// DgramConn is the client's "UDP socket": it implements net.Conn and net.PacketConn so
// that miekg/dns treats it as a datagram transport. A Write is one query datagram; it is
// carried through the DnsPath to the server's registered handler (after a real
// Pack/Unpack) and the answer datagrams are queued for Read.
type DgramConn struct {
	Muted  atomic.Bool // every further query of this peer is lost (the peer went silent)
	srv    *memServerComm
	path   *DnsPath
	local  net.Addr
	remote net.Addr

	mu        sync.Mutex
	inbox     [][]byte
	wake      chan struct{}
	rdl       time.Time
	dlChanged chan struct{}
	closed    bool

	Exchanges    int
	history      [][]byte
	ServerPanics []string
	FateLog      []Fate
	OnExchange   func(n int) // optional spin guard
	wire         []byte
}

func NewDgramConn(srv *memServerComm, path *DnsPath, port int) *DgramConn {
	return &DgramConn{srv: srv, path: path, wake: make(chan struct{}), dlChanged: make(chan struct{}),
		local:  &net.UDPAddr{IP: net.IPv4(127, 0, 0, 1), Port: port},
		remote: &net.UDPAddr{IP: net.IPv4(127, 0, 0, 1), Port: 53}}
}

func (d *DgramConn) LocalAddr() net.Addr  { return d.local }
func (d *DgramConn) RemoteAddr() net.Addr { return d.remote }

func (d *DgramConn) SetDeadline(t time.Time) error { return d.SetReadDeadline(t) }
func (d *DgramConn) SetReadDeadline(t time.Time) error {
	d.mu.Lock()
	d.rdl = t
	close(d.dlChanged)
	d.dlChanged = make(chan struct{})
	d.mu.Unlock()
	return nil
}
func (d *DgramConn) SetWriteDeadline(t time.Time) error { return nil }

func (d *DgramConn) Close() error {
	d.mu.Lock()
	if !d.closed {
		d.closed = true
		close(d.wake)
		d.wake = make(chan struct{})
	}
	d.mu.Unlock()
	return nil
}

func (d *DgramConn) ReadFrom(p []byte) (int, net.Addr, error) {
	n, err := d.Read(p)
	return n, d.remote, err
}
func (d *DgramConn) WriteTo(p []byte, a net.Addr) (int, error) { return d.Write(p) }

func (d *DgramConn) Read(p []byte) (int, error) {
	for {
		d.mu.Lock()
		if d.closed {
			d.mu.Unlock()
			return 0, net.ErrClosed
		}
		if len(d.inbox) > 0 {
			m := d.inbox[0]
			d.inbox = d.inbox[1:]
			d.mu.Unlock()
			return copy(p, m), nil
		}
		dl, changed, w := d.rdl, d.dlChanged, d.wake
		d.mu.Unlock()
		if dl.IsZero() {
			select {
			case <-w:
			case <-changed:
			}
			continue
		}
		dur := time.Until(dl)
		if dur <= 0 {
			return 0, netsim.ErrTimeout
		}
		t := time.NewTimer(dur)
		select {
		case <-w:
			t.Stop()
		case <-changed:
			t.Stop()
		case <-t.C:
			return 0, netsim.ErrTimeout
		}
	}
}

// ForgetHistory makes the queries sent so far unavailable to the replay fates (used when a
// harness moves the session to another point of its sequence space: queries of the old epoch
// are not "old queries" of the new one).
func (d *DgramConn) ForgetHistory() {
	d.mu.Lock()
	for i := range d.history {
		d.history[i] = nil
	}
	d.mu.Unlock()
}

// Wire returns every datagram that crossed this client's path so far, concatenated.
func (d *DgramConn) Wire() []byte {
	d.mu.Lock()
	defer d.mu.Unlock()
	return append([]byte{}, d.wire...)
}

func (d *DgramConn) push(b []byte) {
	d.mu.Lock()
	d.wire = append(d.wire, b...)
	d.inbox = append(d.inbox, b)
	close(d.wake)
	d.wake = make(chan struct{})
	d.mu.Unlock()
}

// serve hands one packed query to the server handler; returns the packed answer or nil.
func (d *DgramConn) serve(exch int, packed []byte) []byte { return d.serveFrom(exch, packed, nil) }

func (d *DgramConn) serveFrom(exch int, packed []byte, source net.Addr) []byte {
	if d.path != nil && d.path.QueryWire != nil {
		if packed = d.path.QueryWire(exch, append([]byte{}, packed...)); packed == nil {
			return nil
		}
	}
	q := new(dns.Msg)
	if err := q.Unpack(packed); err != nil {
		return nil
	}
	if d.path != nil && d.path.Query != nil && !d.path.Query(exch, q) {
		return nil
	}
	var resp *dns.Msg
	var err error
	func() {
		defer func() {
			if p := recover(); p != nil {
				d.mu.Lock()
				d.ServerPanics = append(d.ServerPanics, fmt.Sprint(p))
				d.mu.Unlock()
				resp, err = nil, fmt.Errorf("server panic: %v", p)
			}
		}()
		if d.srv.on != nil {
			from := net.Addr(d.local)
			if source != nil {
				from = source
			} else if d.path != nil && d.path.From != nil {
				if a := d.path.From(exch); a != nil {
					from = a
				}
			}
			resp, err = d.srv.on(q, from)
		}
	}()
	if err != nil || resp == nil {
		return nil
	}
	out, err := resp.Pack()
	if err != nil {
		return nil
	}
	a := new(dns.Msg)
	if err := a.Unpack(out); err != nil {
		return nil
	}
	if d.path != nil {
		if d.path.MaxAns > 0 && len(out) > d.path.MaxAns {
			if !d.path.Truncate {
				return nil
			}
			tc := new(dns.Msg)
			tc.SetReply(q)
			tc.Truncated = true
			out, err = tc.Pack()
			if err != nil {
				return nil
			}
			return out
		}
		if d.path.Answer != nil {
			if !d.path.Answer(exch, q, a) {
				return nil
			}
			out, err = a.Pack()
			if err != nil {
				return nil
			}
		}
	}
	return out
}

func (d *DgramConn) Write(p []byte) (int, error) {
	d.mu.Lock()
	if d.closed {
		d.mu.Unlock()
		return 0, net.ErrClosed
	}
	d.Exchanges++
	exch := d.Exchanges
	q := append([]byte{}, p...)
	d.history = append(d.history, q)
	d.wire = append(d.wire, q...)
	cb := d.OnExchange
	d.mu.Unlock()
	if cb != nil {
		cb(exch)
	}
	fate := Delivered
	if d.path != nil && d.path.Fate != nil {
		fate = d.path.Fate(exch)
	}
	if d.Muted.Load() {
		fate = QueryLost
	}
	d.mu.Lock()
	d.FateLog = append(d.FateLog, fate)
	d.mu.Unlock()
	replay := func(back int) {
		if i := exch - 1 - back; i >= 0 && d.history[i] != nil {
			d.serve(exch, d.history[i]) // answer of a replayed old query is dropped by the path
		}
	}
	switch fate {
	case QueryLost:
	case AnswerLost:
		d.serve(exch, q)
	case QueryDup:
		if a := d.serve(exch, q); a != nil {
			d.push(a)
		}
		if a := d.serve(exch, q); a != nil {
			d.push(a)
		}
	case Foreign:
		if a := d.serveFrom(exch, q, &net.UDPAddr{IP: net.IPv4(198, 51, 100, 77), Port: 5353}); a != nil {
			d.push(a)
		}
	case Replay1, Replay2, Replay130:
		replay(map[Fate]int{Replay1: 1, Replay2: 2, Replay130: 130}[fate])
		fallthrough
	default:
		if a := d.serve(exch, q); a != nil {
			d.push(a)
		}
	}
	return len(p), nil
}

// DnsWorld is the DNS-tunnel part of a World.
type DnsWorld struct {
	// ServerConns: the tunnel sessions the server accepted (its own connection objects)
	ServerConns []net.Conn
	W           *World
	Comm        *memServerComm
	Lis         *sdns.ServerDnsListener
	Path        *DnsPath
	Clients     []*sdns.ClientDnsConnection
	Conns       []*DgramConn
	HsErr       string
}

// dnsDomain is the tunnel domain of this world (Options.DnsDomain, default DnsDomain).
func (w *World) dnsDomain() string {
	if w.Opt.DnsDomain != "" {
		return w.Opt.DnsDomain
	}
	return DnsDomain
}

func newDnsWorld(w *World, chans server.Channels) (*DnsWorld, error) {
	d := &DnsWorld{W: w, Comm: &memServerComm{}, Path: &w.Opt.DnsPath}
	d.Lis = sdns.NewServerDnsListener(w.dnsDomain(), d.Comm)
	if w.Opt.DnsRaw {
		return d, nil
	}
	if w.Opt.RealLoop == "dns" {
		ds := server.NewDnsServer()
		ds.ServerConfig = w.SrvCfg
		go ds.VerifServe(d.Lis, chans, false)
		return d, nil
	}
	go func() {
		for {
			c, err := d.Lis.Accept()
			if err != nil {
				return
			}
			w.mu.Lock()
			d.ServerConns = append(d.ServerConns, c)
			w.mu.Unlock()
			conn := streams.NewNamedConnection(c, "dns")
			go func() {
				if err := server.AcceptConnection(conn, &w.SrvCfg, false, chans); err != nil {
					w.mu.Lock()
					w.AcceptErrs = append(w.AcceptErrs, err.Error())
					w.mu.Unlock()
				}
			}()
		}
	}()
	return d, nil
}

// NewClientConn builds the real client connection over the real NetConnectionClientCommunicator
// on top of a DgramConn.
func (d *DnsWorld) NewClientConn() (*sdns.ClientDnsConnection, *DgramConn, error) {
	return d.NewClientConnPort(1234 + len(d.Conns))
}

// NewClientConnPort is NewClientConn with a chosen source port (two connections with the same
// port are the same peer address to the server).
func (d *DnsWorld) NewClientConnPort(port int) (*sdns.ClientDnsConnection, *DgramConn, error) {
	dc := NewDgramConn(d.Comm, d.Path, port)
	comm := &sdns.NetConnectionClientCommunicator{
		Client: &dns.Client{},
		Conn:   &dns.Conn{Conn: dc, UDPSize: 65535},
	}
	conn, err := sdns.NewClientDnsConnection(d.W.dnsDomain(), comm)
	if err != nil {
		return nil, nil, err
	}
	d.Conns = append(d.Conns, dc)
	d.Clients = append(d.Clients, conn)
	return conn, dc, nil
}

func (d *DnsWorld) connect(f *Front, manager cert.TlsConfig, mustSecure bool) error {
	conn, _, err := d.NewClientConn()
	if err != nil {
		return err
	}
	if err = conn.Handshake(); err != nil {
		d.HsErr = err.Error()
		return err
	}
	cc, err := socketace.NewClientConnection(conn, manager, false, f.Host)
	if err != nil {
		return errors.Wrapf(err, "Could not open connection")
	} else if mustSecure && !cc.Secure() {
		return errors.Errorf("Could not establish a secure connection to %v", f.Host)
	}
	f.Connection = streams.NewNamedConnection(streams.NewNamedConnection(cc, f.Host), "dns")
	return nil
}
