module github.com/bokysan/socketace/v2/verifharness

go 1.26.8

require (
	github.com/bokysan/socketace/v2 v2.0.0
	github.com/sirupsen/logrus v1.6.0
)

require (
	github.com/gorilla/websocket v1.4.2 // indirect
	github.com/hashicorp/errwrap v1.0.0 // indirect
	github.com/hashicorp/go-multierror v1.1.0 // indirect
	github.com/mtraver/base91 v1.0.0 // indirect
	github.com/pkg/errors v0.9.1 // indirect
	go.chromium.org/luci v0.0.0-20201018155654-3aac261c05da // indirect
	golang.org/x/sys v0.0.0-20200808120158-1030fc2bf1d9 // indirect
)

replace github.com/bokysan/socketace/v2 => /repo
