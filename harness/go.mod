module github.com/bokysan/socketace/v2/verifharness

go 1.26.8

require (
	github.com/bokysan/socketace/v2 v2.0.0
	github.com/goccy/go-yaml v1.8.1
	github.com/gorilla/websocket v1.4.2
	github.com/jessevdk/go-flags v1.4.0
	github.com/miekg/dns v1.1.34
	github.com/multiformats/go-multistream v0.1.2
	github.com/pkg/errors v0.9.1
	github.com/sirupsen/logrus v1.6.0
	github.com/xtaci/kcp-go/v5 v5.6.1
	github.com/xtaci/smux v1.5.14
	golang.org/x/net v0.0.0-20200822124328-c89045814202
)

require (
	github.com/armon/go-socks5 v0.0.0-20160902184237-e75332964ef5 // indirect
	github.com/davecgh/go-spew v1.1.1 // indirect
	github.com/fatih/color v1.7.0 // indirect
	github.com/go-chi/chi v4.1.2+incompatible // indirect
	github.com/hashicorp/errwrap v1.0.0 // indirect
	github.com/hashicorp/go-multierror v1.1.0 // indirect
	github.com/klauspost/cpuid v1.3.1 // indirect
	github.com/klauspost/reedsolomon v1.9.9 // indirect
	github.com/mattn/go-colorable v0.1.4 // indirect
	github.com/mattn/go-isatty v0.0.10 // indirect
	github.com/mtraver/base91 v1.0.0 // indirect
	github.com/multiformats/go-varint v0.0.6 // indirect
	github.com/templexxx/cpu v0.0.7 // indirect
	github.com/templexxx/xorsimd v0.4.1 // indirect
	github.com/tjfoc/gmsm v1.3.2 // indirect
	github.com/youmark/pkcs8 v0.0.0-20200520070018-fad002e585ce // indirect
	go.chromium.org/luci v0.0.0-20201018155654-3aac261c05da // indirect
	golang.org/x/crypto v0.0.0-20200728195943-123391ffb6de // indirect
	golang.org/x/sync v0.0.0-20200625203802-6e8e738ad208 // indirect
	golang.org/x/sys v0.0.0-20200808120158-1030fc2bf1d9 // indirect
	golang.org/x/xerrors v0.0.0-20200804184101-5ec99f83aff1 // indirect
)

replace github.com/bokysan/socketace/v2 => /repo
