// Package pki generates a throw-away test PKI in memory: two CAs, server leaves (right
// host, wrong host, expired) and client leaves. Validity is centred on a caller-supplied
// "now" because inside a synctest bubble the clock starts at 2000-01-01.
package pki

import (
	"crypto/ecdsa"
	"crypto/elliptic"
	"crypto/rand"
	"crypto/x509"
	"crypto/x509/pkix"
	"encoding/pem"
	"math/big"
	"net"
	"sync"
	"time"
)

type Pair struct {
	CertPEM string
	KeyPEM  string
}

type PKI struct {
	CA        string // PEM of the trusted CA
	ForeignCA string
	Server    Pair // signed by CA, for host server.test and 10.0.0.1
	WrongHost Pair // signed by CA, for other.test
	Untrusted Pair // signed by ForeignCA, for server.test
	Expired   Pair // signed by CA, for server.test, expired relative to now
	Client    Pair // client cert signed by CA
	ForeignCl Pair // client cert signed by ForeignCA
}

var serial int64 = 1000

func mkCA(name string, now time.Time) (*x509.Certificate, *ecdsa.PrivateKey, string) {
	k, _ := ecdsa.GenerateKey(elliptic.P256(), rand.Reader)
	serial++
	tpl := &x509.Certificate{SerialNumber: big.NewInt(serial), Subject: pkix.Name{CommonName: name},
		NotBefore: now.AddDate(-1, 0, 0), NotAfter: now.AddDate(5, 0, 0), IsCA: true, BasicConstraintsValid: true,
		KeyUsage: x509.KeyUsageCertSign | x509.KeyUsageDigitalSignature}
	der, err := x509.CreateCertificate(rand.Reader, tpl, tpl, &k.PublicKey, k)
	if err != nil {
		panic(err)
	}
	c, _ := x509.ParseCertificate(der)
	return c, k, string(pem.EncodeToMemory(&pem.Block{Type: "CERTIFICATE", Bytes: der}))
}

func mkLeaf(ca *x509.Certificate, cak *ecdsa.PrivateKey, cn string, dns []string, ips []net.IP, nb, na time.Time, client bool) Pair {
	k, _ := ecdsa.GenerateKey(elliptic.P256(), rand.Reader)
	serial++
	eku := []x509.ExtKeyUsage{x509.ExtKeyUsageServerAuth}
	if client {
		eku = []x509.ExtKeyUsage{x509.ExtKeyUsageClientAuth}
	}
	tpl := &x509.Certificate{SerialNumber: big.NewInt(serial), Subject: pkix.Name{CommonName: cn},
		NotBefore: nb, NotAfter: na, DNSNames: dns, IPAddresses: ips,
		KeyUsage: x509.KeyUsageDigitalSignature, ExtKeyUsage: eku}
	der, err := x509.CreateCertificate(rand.Reader, tpl, ca, &k.PublicKey, cak)
	if err != nil {
		panic(err)
	}
	kd, _ := x509.MarshalPKCS8PrivateKey(k)
	return Pair{CertPEM: string(pem.EncodeToMemory(&pem.Block{Type: "CERTIFICATE", Bytes: der})),
		KeyPEM: string(pem.EncodeToMemory(&pem.Block{Type: "PRIVATE KEY", Bytes: kd}))}
}

// New builds a PKI valid around now.
func New(now time.Time) *PKI {
	ca, cak, caPEM := mkCA("verif CA", now)
	fca, fcak, fcaPEM := mkCA("foreign CA", now)
	nb, na := now.AddDate(-1, 0, 0), now.AddDate(5, 0, 0)
	ip := []net.IP{net.IPv4(10, 0, 0, 1), net.IPv4(127, 0, 0, 1)}
	return &PKI{CA: caPEM, ForeignCA: fcaPEM,
		Server:    mkLeaf(ca, cak, "server.test", []string{"server.test"}, ip, nb, na, false),
		WrongHost: mkLeaf(ca, cak, "other.test", []string{"other.test"}, nil, nb, na, false),
		Untrusted: mkLeaf(fca, fcak, "server.test", []string{"server.test"}, ip, nb, na, false),
		Expired:   mkLeaf(ca, cak, "server.test", []string{"server.test"}, ip, now.AddDate(-2, 0, 0), now.AddDate(0, -1, 0), false),
		Client:    mkLeaf(ca, cak, "client", nil, nil, nb, na, true),
		ForeignCl: mkLeaf(fca, fcak, "client", nil, nil, nb, na, true),
	}
}

// BubbleEpoch is the instant a synctest bubble's clock starts at.
var BubbleEpoch = time.Date(2000, 1, 1, 0, 0, 0, 0, time.UTC)

var (
	once   sync.Once
	bubble *PKI
	ronce  sync.Once
	real   *PKI
)

// Bubble returns the process-wide PKI valid at the bubble epoch.
func Bubble() *PKI { once.Do(func() { bubble = New(BubbleEpoch) }); return bubble }

// Real returns the process-wide PKI valid at the real current time.
func Real() *PKI { ronce.Do(func() { real = New(time.Now()) }); return real }
