// Package syncshim replaces "sync" in the four socketace files that hold a mutex across
// network or timer waits (generated -overlay, see bin/check). testing/synctest does not
// treat a goroutine waiting for a sync.Mutex as durably blocked, so such a wait freezes
// the bubble's fake clock; a channel receive is durable. Lock/Unlock semantics are
// unchanged (no TryLock, no fairness guarantee either way).
//
// Engine T (package sched) installs a Hook: every Lock and Unlock of a shimmed mutex then
// becomes a scheduling point of the calling goroutine, if that goroutine is one of the
// scheduler's controlled threads.
package syncshim

import (
	"sync"
	"sync/atomic"
)

// Hooks are the scheduling-point callbacks of a controlled scheduler.
type Hooks struct {
	BeforeLock  func(m *Mutex)
	AfterUnlock func(m *Mutex)
}

var hook atomic.Pointer[Hooks]

// SetHook installs (or, with nil, removes) the scheduling-point callbacks.
func SetHook(h *Hooks) { hook.Store(h) }

type Mutex struct {
	once sync.Once
	ch   chan struct{}
	held atomic.Bool
}

func (m *Mutex) init() { m.once.Do(func() { m.ch = make(chan struct{}, 1) }) }

// Held reports whether the mutex is locked right now.
func (m *Mutex) Held() bool { return m.held.Load() }

func (m *Mutex) Lock() {
	m.init()
	if h := hook.Load(); h != nil {
		h.BeforeLock(m)
	}
	m.ch <- struct{}{}
	m.held.Store(true)
}

func (m *Mutex) Unlock() {
	m.init()
	m.held.Store(false)
	select {
	case <-m.ch:
	default:
		panic("syncshim: unlock of unlocked mutex")
	}
	if h := hook.Load(); h != nil {
		h.AfterUnlock(m)
	}
}

// RWMutex is a writer-preferring reader/writer lock whose waits are channel receives (durable
// for synctest), with the semantics socketace could rely on from sync.RWMutex: any number of
// readers or one writer; a blocked Lock keeps later RLocks out; hand-over in arrival order.
type RWMutex struct {
	m       sync.Mutex // protects the fields below; never held while waiting
	readers int
	writer  bool
	q       []*rwWaiter
}

type rwWaiter struct {
	ch    chan struct{}
	write bool
}

func (rw *RWMutex) RLock() {
	rw.m.Lock()
	if !rw.writer && len(rw.q) == 0 {
		rw.readers++
		rw.m.Unlock()
		return
	}
	w := &rwWaiter{ch: make(chan struct{})}
	rw.q = append(rw.q, w)
	rw.m.Unlock()
	<-w.ch
}

func (rw *RWMutex) RUnlock() {
	rw.m.Lock()
	if rw.readers <= 0 {
		rw.m.Unlock()
		panic("syncshim: RUnlock of unlocked RWMutex")
	}
	rw.readers--
	rw.grant()
	rw.m.Unlock()
}

func (rw *RWMutex) Lock() {
	rw.m.Lock()
	if !rw.writer && rw.readers == 0 && len(rw.q) == 0 {
		rw.writer = true
		rw.m.Unlock()
		return
	}
	w := &rwWaiter{ch: make(chan struct{}), write: true}
	rw.q = append(rw.q, w)
	rw.m.Unlock()
	<-w.ch
}

func (rw *RWMutex) Unlock() {
	rw.m.Lock()
	if !rw.writer {
		rw.m.Unlock()
		panic("syncshim: Unlock of unlocked RWMutex")
	}
	rw.writer = false
	rw.grant()
	rw.m.Unlock()
}

// grant hands the lock to the waiters at the head of the queue (rw.m held).
func (rw *RWMutex) grant() {
	for len(rw.q) > 0 {
		w := rw.q[0]
		if w.write {
			if rw.readers == 0 && !rw.writer {
				rw.writer = true
				rw.q = rw.q[1:]
				close(w.ch)
			}
			return
		}
		if rw.writer {
			return
		}
		rw.readers++
		rw.q = rw.q[1:]
		close(w.ch)
	}
}

// RLocker returns a Locker whose Lock/Unlock are RLock/RUnlock.
func (rw *RWMutex) RLocker() sync.Locker { return (*rlocker)(rw) }

type rlocker RWMutex

func (r *rlocker) Lock()   { (*RWMutex)(r).RLock() }
func (r *rlocker) Unlock() { (*RWMutex)(r).RUnlock() }

type (
	WaitGroup = sync.WaitGroup
	Once      = sync.Once
	Cond      = sync.Cond
	Map       = sync.Map
	Pool      = sync.Pool
	Locker    = sync.Locker
)
