// Package syncshim replaces "sync" in the four socketace files that hold a mutex across
// network or timer waits (generated -overlay, see bin/check). testing/synctest does not
// treat a goroutine waiting for a sync.Mutex as durably blocked, so such a wait freezes
// the bubble's fake clock; a channel receive is durable. Lock/Unlock semantics are
// unchanged (no TryLock, no fairness guarantee either way).
//
// Engine T (package sched) installs a Hook: every Lock and Unlock of a shimmed mutex then
// becomes a scheduling point of the calling goroutine, if that goroutine is one of the
// scheduler's controlled threads.
package syncshim

import (
	"sync"
	"sync/atomic"
	"time"
)

// Hooks are the scheduling-point callbacks of a controlled scheduler.
type Hooks struct {
	BeforeLock  func(m *Mutex)
	AfterUnlock func(m *Mutex)
}

var hook atomic.Pointer[Hooks]

// SetHook installs (or, with nil, removes) the scheduling-point callbacks.
func SetHook(h *Hooks) { hook.Store(h) }

// Epoch is advanced by the harness whenever a new bubble starts (one bubble runs at a time in a
// process). A mutex that outlives a bubble - a package-level one - starts every epoch unlocked
// with a channel made inside the current bubble: channels of a finished bubble cannot be used
// from another one, and whatever a dead bubble's parked goroutines still "hold" is gone with it.
// Steps counts harness steps (returns of bubble.Wait / bubble.Advance); mc.Guard reads it to tell slow from stuck.
var Steps atomic.Int64

var Epoch atomic.Uint64

type Mutex struct {
	mu      sync.Mutex // guards ch and epoch; never held while waiting
	ch      chan struct{}
	epoch   uint64
	bubbled bool // ch was made inside a bubble
	held    atomic.Bool
	since   atomic.Uint64 // epoch in which the current holder locked
}

// inBubble: inside a synctest bubble the clock starts in the year 2000.
func inBubble() bool { return time.Now().Year() < 2020 }

func (m *Mutex) channel() chan struct{} {
	m.mu.Lock()
	defer m.mu.Unlock()
	e := Epoch.Load()
	switch {
	case m.ch == nil:
		m.ch = make(chan struct{}, 1)
		m.epoch, m.bubbled = e, inBubble()
		m.held.Store(false)
	case m.bubbled && m.epoch != e:
		// made inside a bubble that is over: only a mutex that outlives bubbles (package level)
		// gets here - the goroutines of the old bubble are parked for good
		m.ch = make(chan struct{}, 1)
		m.epoch, m.bubbled = e, inBubble()
		m.held.Store(false)
	}
	return m.ch
}

// Held reports whether the mutex is locked right now.
func (m *Mutex) Held() bool { return m.held.Load() }

func (m *Mutex) Lock() {
	ch := m.channel()
	if h := hook.Load(); h != nil {
		h.BeforeLock(m)
	}
	ch <- struct{}{}
	m.held.Store(true)
	m.since.Store(Epoch.Load())
}

func (m *Mutex) Unlock() {
	ch := m.channel()
	m.held.Store(false)
	select {
	case <-ch:
	default:
		if m.since.Load() == Epoch.Load() {
			panic("syncshim: unlock of unlocked mutex")
		}
		// locked in an earlier epoch (a goroutine that outlived its bubble or real-time pass): the
		// lock it held was dissolved when the epoch changed
	}
	if h := hook.Load(); h != nil {
		h.AfterUnlock(m)
	}
}

// RWMutex is a writer-preferring reader/writer lock whose waits are channel receives (durable
// for synctest), with the semantics socketace could rely on from sync.RWMutex: any number of
// readers or one writer; a blocked Lock keeps later RLocks out; hand-over in arrival order.
type RWMutex struct {
	m       sync.Mutex // protects the fields below; never held while waiting
	epoch   uint64
	born    bool
	bubbled bool
	readers int
	writer  bool
	q       []*rwWaiter
}

type rwWaiter struct {
	ch    chan struct{}
	write bool
}

// fresh resets a lock that outlived its bubble (rw.m held); see Epoch.
func (rw *RWMutex) fresh() {
	e := Epoch.Load()
	switch {
	case !rw.born:
		rw.born, rw.epoch, rw.bubbled = true, e, inBubble()
	case rw.bubbled && rw.epoch != e:
		rw.epoch, rw.bubbled, rw.readers, rw.writer, rw.q = e, inBubble(), 0, false, nil
	}
}

func (rw *RWMutex) RLock() {
	rw.m.Lock()
	rw.fresh()
	if !rw.writer && len(rw.q) == 0 {
		rw.readers++
		rw.m.Unlock()
		return
	}
	w := &rwWaiter{ch: make(chan struct{})}
	rw.q = append(rw.q, w)
	rw.m.Unlock()
	<-w.ch
}

func (rw *RWMutex) RUnlock() {
	rw.m.Lock()
	if rw.readers <= 0 {
		rw.m.Unlock()
		panic("syncshim: RUnlock of unlocked RWMutex")
	}
	rw.readers--
	rw.grant()
	rw.m.Unlock()
}

func (rw *RWMutex) Lock() {
	rw.m.Lock()
	rw.fresh()
	if !rw.writer && rw.readers == 0 && len(rw.q) == 0 {
		rw.writer = true
		rw.m.Unlock()
		return
	}
	w := &rwWaiter{ch: make(chan struct{}), write: true}
	rw.q = append(rw.q, w)
	rw.m.Unlock()
	<-w.ch
}

func (rw *RWMutex) Unlock() {
	rw.m.Lock()
	if !rw.writer {
		rw.m.Unlock()
		panic("syncshim: Unlock of unlocked RWMutex")
	}
	rw.writer = false
	rw.grant()
	rw.m.Unlock()
}

// grant hands the lock to the waiters at the head of the queue (rw.m held).
func (rw *RWMutex) grant() {
	for len(rw.q) > 0 {
		w := rw.q[0]
		if w.write {
			if rw.readers == 0 && !rw.writer {
				rw.writer = true
				rw.q = rw.q[1:]
				close(w.ch)
			}
			return
		}
		if rw.writer {
			return
		}
		rw.readers++
		rw.q = rw.q[1:]
		close(w.ch)
	}
}

// RLocker returns a Locker whose Lock/Unlock are RLock/RUnlock.
func (rw *RWMutex) RLocker() sync.Locker { return (*rlocker)(rw) }

type rlocker RWMutex

func (r *rlocker) Lock()   { (*RWMutex)(r).RLock() }
func (r *rlocker) Unlock() { (*RWMutex)(r).RUnlock() }

type (
	WaitGroup = sync.WaitGroup
	Once      = sync.Once
	Cond      = sync.Cond
	Map       = sync.Map
	Pool      = sync.Pool
	Locker    = sync.Locker
)
