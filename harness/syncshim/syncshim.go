// Package syncshim replaces "sync" in the four socketace files that hold a mutex across
// network or timer waits (generated -overlay, see bin/check). testing/synctest does not
// treat a goroutine waiting for a sync.Mutex as durably blocked, so such a wait freezes
// the bubble's fake clock; a channel receive is durable. Lock/Unlock semantics are
// unchanged (no TryLock, no fairness guarantee either way).
package syncshim

import "sync"

type Mutex struct {
	once sync.Once
	ch   chan struct{}
}

func (m *Mutex) init() { m.once.Do(func() { m.ch = make(chan struct{}, 1) }) }

func (m *Mutex) Lock() {
	m.init()
	m.ch <- struct{}{}
}

func (m *Mutex) Unlock() {
	m.init()
	select {
	case <-m.ch:
	default:
		panic("syncshim: unlock of unlocked mutex")
	}
}

type (
	WaitGroup = sync.WaitGroup
	Once      = sync.Once
	RWMutex   = sync.RWMutex
	Cond      = sync.Cond
	Map       = sync.Map
	Pool      = sync.Pool
	Locker    = sync.Locker
)
