// Package syncshim replaces "sync" in the four socketace files that hold a mutex across
// network or timer waits (generated -overlay, see bin/check). testing/synctest does not
// treat a goroutine waiting for a sync.Mutex as durably blocked, so such a wait freezes
// the bubble's fake clock; a channel receive is durable. Lock/Unlock semantics are
// unchanged (no TryLock, no fairness guarantee either way).
//
// Engine T (package sched) installs a Hook: every Lock and Unlock of a shimmed mutex then
// becomes a scheduling point of the calling goroutine, if that goroutine is one of the
// scheduler's controlled threads.
package syncshim

import (
	"sync"
	"sync/atomic"
)

// Hooks are the scheduling-point callbacks of a controlled scheduler.
type Hooks struct {
	BeforeLock  func(m *Mutex)
	AfterUnlock func(m *Mutex)
}

var hook atomic.Pointer[Hooks]

// SetHook installs (or, with nil, removes) the scheduling-point callbacks.
func SetHook(h *Hooks) { hook.Store(h) }

type Mutex struct {
	once sync.Once
	ch   chan struct{}
	held atomic.Bool
}

func (m *Mutex) init() { m.once.Do(func() { m.ch = make(chan struct{}, 1) }) }

// Held reports whether the mutex is locked right now.
func (m *Mutex) Held() bool { return m.held.Load() }

func (m *Mutex) Lock() {
	m.init()
	if h := hook.Load(); h != nil {
		h.BeforeLock(m)
	}
	m.ch <- struct{}{}
	m.held.Store(true)
}

func (m *Mutex) Unlock() {
	m.init()
	m.held.Store(false)
	select {
	case <-m.ch:
	default:
		panic("syncshim: unlock of unlocked mutex")
	}
	if h := hook.Load(); h != nil {
		h.AfterUnlock(m)
	}
}

type (
	WaitGroup = sync.WaitGroup
	Once      = sync.Once
	RWMutex   = sync.RWMutex
	Cond      = sync.Cond
	Map       = sync.Map
	Pool      = sync.Pool
	Locker    = sync.Locker
)
