// Package sched is Engine T: a controlled scheduler for a handful of goroutines ("threads")
// that run REAL socketace code concurrently, and a depth-first explorer that enumerates
// every schedule of them up to a preemption bound (iterative context bounding).
//
// Scheduling points are the Lock and Unlock operations of the shimmed mutexes
// (package syncshim; the overlay rewrites the "sync" import of the socketace files that
// matter) plus explicit Yield points of the thread bodies. Between two scheduling points
// exactly one controlled thread runs. The whole execution lives in a testing/synctest
// bubble: the scheduler calls synctest.Wait to learn that the released thread has reached
// its next point, finished, or blocked durably inside the code under test (a channel
// operation of socketace itself), and the fake clock only moves when the scheduler says so
// ("the pending timer fires" is one more alternative at a point).
//
// A thread that a socketace channel operation wakes up runs until ITS next point
// concurrently with the waker; code between two points holds no shimmed lock it does not
// own, so this overlap touches what a free-running -race pass looks at, not what the
// explorer enumerates.
package sched

import (
	"fmt"
	"runtime"
	"strconv"
	"strings"
	"sync"
	"testing/synctest"
	"time"

	"github.com/bokysan/socketace/v2/verifharness/syncshim"
)

type thread struct {
	id      int
	name    string
	gate    chan struct{}
	parked  bool
	at      string
	lockOn  *syncshim.Mutex // parked before Lock of this mutex (nil otherwise)
	yielded bool
	done    bool
	panic   string
}

// Step is one scheduling decision of an execution.
type Step struct {
	Enabled   []int  // thread ids in canonical order (choice k picks Enabled[k])
	Chosen    int    // index into Enabled; len(Enabled) = "advance the clock"
	Running   int    // thread that ran last (-1 none)
	RunningOn bool   // the thread that ran last is still enabled and did not yield
	CanTick   bool   // a clock advance was an alternative here
	At        string // where the chosen thread was parked
}

// Exec is the record of one execution.
type Exec struct {
	Steps    []Step
	Deadlock string // non-empty: no thread enabled, not all finished (lists the threads)
	Panics   []string
	Capped   bool // step limit reached
}

// Choices returns the choice sequence of the execution.
func (x *Exec) Choices() []int {
	out := make([]int, len(x.Steps))
	for i, s := range x.Steps {
		out[i] = s.Chosen
	}
	return out
}

// Sched controls the threads of ONE execution. Create it inside the bubble.
type Sched struct {
	mu      sync.Mutex
	threads []*thread
	byGoid  map[int64]*thread
	prefix  []int
	Tick    time.Duration // >0: "advance the fake clock by Tick" is an alternative when a thread is blocked off-point
	MaxStep int
	// UnlockPoints makes the return of every Unlock a scheduling point too (a preemption
	// between a critical section and the unlocked code after it)
	UnlockPoints bool
	exec         Exec
}

func New(prefix []int) *Sched {
	return &Sched{byGoid: map[int64]*thread{}, prefix: prefix, MaxStep: 4000}
}

func goid() int64 {
	var buf [64]byte
	n := runtime.Stack(buf[:], false)
	f := strings.Fields(string(buf[:n]))
	if len(f) < 2 {
		return -1
	}
	id, _ := strconv.ParseInt(f[1], 10, 64)
	return id
}

// Go starts a controlled thread. It parks at its first point before running body.
func (s *Sched) Go(name string, body func()) {
	t := &thread{id: len(s.threads), name: name, gate: make(chan struct{})}
	s.mu.Lock()
	s.threads = append(s.threads, t)
	s.mu.Unlock()
	go func() {
		s.mu.Lock()
		s.byGoid[goid()] = t
		s.mu.Unlock()
		defer func() {
			if p := recover(); p != nil {
				t.panic = fmt.Sprint(p)
			}
			s.mu.Lock()
			t.done = true
			s.mu.Unlock()
		}()
		s.park(t, "start", nil, false)
		body()
	}()
}

func (s *Sched) current() *thread {
	id := goid()
	s.mu.Lock()
	t := s.byGoid[id]
	s.mu.Unlock()
	return t
}

func (s *Sched) park(t *thread, at string, m *syncshim.Mutex, yield bool) {
	s.mu.Lock()
	t.parked, t.at, t.lockOn, t.yielded = true, at, m, yield
	s.mu.Unlock()
	<-t.gate
}

// Yield is an explicit scheduling point of a thread body that is waiting for another thread
// (a polling loop): switching away from a yielded thread is not a preemption, and the
// default schedule runs the other threads first.
func (s *Sched) Yield(at string) {
	if t := s.current(); t != nil {
		s.park(t, at, nil, true)
	}
}

// Point is an explicit scheduling point (a preemption opportunity) of a thread body.
func (s *Sched) Point(at string) {
	if t := s.current(); t != nil {
		s.park(t, at, nil, false)
	}
}

func (s *Sched) hooks() *syncshim.Hooks {
	return &syncshim.Hooks{
		BeforeLock: func(m *syncshim.Mutex) {
			if t := s.current(); t != nil {
				s.park(t, "lock", m, false)
			}
		},
		AfterUnlock: func(m *syncshim.Mutex) {
			if !s.UnlockPoints {
				return
			}
			if t := s.current(); t != nil {
				s.park(t, "unlock", nil, false)
			}
		},
	}
}

// Run drives the threads to completion (or deadlock) following the prefix, then the
// default schedule. Call it from the bubble's root goroutine after the Go calls.
func (s *Sched) Run() *Exec {
	syncshim.SetHook(s.hooks())
	defer syncshim.SetHook(nil)
	running := -1
	for step := 0; ; step++ {
		synctest.Wait()
		s.mu.Lock()
		var enabled []int
		allDone, offPoint := true, false
		for _, t := range s.threads {
			if t.done {
				continue
			}
			allDone = false
			if !t.parked {
				offPoint = true // blocked inside the code under test
				continue
			}
			if t.lockOn != nil && t.lockOn.Held() {
				continue
			}
			enabled = append(enabled, t.id)
		}
		// canonical order = default schedule first: the thread that ran last if it can continue
		// and did not yield; otherwise round-robin from the thread after it, threads that
		// yielded (they wait for somebody else) after those that did not
		runningOn := false
		var first, rest, last []int
		n := len(s.threads)
		for k := 0; k < n; k++ {
			id := (running + 1 + k + n) % n
			if running < 0 {
				id = k
			}
			t := s.threads[id]
			if t.done || !t.parked || (t.lockOn != nil && t.lockOn.Held()) {
				continue
			}
			switch {
			case id == running && !t.yielded:
				first = append(first, id)
				runningOn = true
			case t.yielded:
				last = append(last, id)
			default:
				rest = append(rest, id)
			}
		}
		enabled = append(append(first, rest...), last...)
		s.mu.Unlock()
		if allDone {
			break
		}
		canTick := s.Tick > 0 && offPoint
		if len(enabled) == 0 && !canTick {
			s.exec.Deadlock = s.describe()
			break
		}
		if step >= s.MaxStep {
			s.exec.Capped = true
			break
		}
		choice := 0
		if step < len(s.prefix) {
			choice = s.prefix[step]
			if choice > len(enabled) || (choice == len(enabled) && !canTick) {
				panic(fmt.Sprintf("sched: replay diverged at step %d: choice %d of %d enabled (tick=%v)", step, choice, len(enabled), canTick))
			}
		} else if len(enabled) == 0 {
			choice = 0 // == len(enabled): tick
		}
		st := Step{Enabled: enabled, Chosen: choice, Running: running, RunningOn: runningOn, CanTick: canTick}
		if choice == len(enabled) {
			st.At = "tick"
			s.exec.Steps = append(s.exec.Steps, st)
			time.Sleep(s.Tick)
			continue
		}
		t := s.threads[enabled[choice]]
		st.At = t.name + "@" + t.at
		s.exec.Steps = append(s.exec.Steps, st)
		s.mu.Lock()
		t.parked, t.yielded = false, false
		s.mu.Unlock()
		running = t.id
		t.gate <- struct{}{}
	}
	for _, t := range s.threads {
		if t.panic != "" {
			s.exec.Panics = append(s.exec.Panics, t.name+": "+t.panic)
		}
	}
	return &s.exec
}

func (s *Sched) describe() string {
	s.mu.Lock()
	defer s.mu.Unlock()
	var parts []string
	for _, t := range s.threads {
		switch {
		case t.done:
		case t.parked && t.lockOn != nil:
			parts = append(parts, t.name+": waits for a lock that is held")
		case t.parked:
			parts = append(parts, t.name+": parked at "+t.at)
		default:
			parts = append(parts, t.name+": blocked inside the code under test")
		}
	}
	return strings.Join(parts, "; ")
}

// Abandon releases every parked thread so that the bubble can end (after a deadlock or a
// cap). The threads run on uncontrolled.
func (s *Sched) Abandon() {
	syncshim.SetHook(nil)
	s.mu.Lock()
	ts := append([]*thread{}, s.threads...)
	s.mu.Unlock()
	for _, t := range ts {
		select {
		case t.gate <- struct{}{}:
		default:
		}
	}
}

// Cost of deviating at step i of x: preemptions before step i, plus one if taking an
// alternative there switches away from a thread that could have continued (or fires a timer).
func cost(x *Exec, i int) int {
	c := 0
	for j := 0; j < i; j++ {
		c += stepCost(x.Steps[j], x.Steps[j].Chosen)
	}
	return c
}

func stepCost(s Step, choice int) int {
	if choice == 0 {
		return 0
	}
	return 1 // any departure from the default schedule (a preemption, another order after a block or a yield, a timer firing first)
}

// Explore enumerates every schedule with at most bound deviations from the default schedule. run executes one
// schedule (prefix, then default choices) and returns its record; visit is called once per
// execution; it returns false to stop. own(i) selects the root alternatives this process
// explores (sharding): root alternative number i (in enumeration order) and everything
// below it; the root execution itself belongs to the process for which own(-1) is true.
func Explore(bound int, run func(prefix []int) *Exec, visit func(x *Exec) bool, own func(i int) bool) (executions int, complete bool) {
	stop := false
	rootAlt := 0
	var rec func(prefix []int, depth int)
	rec = func(prefix []int, depth int) {
		if stop {
			return
		}
		x := run(prefix)
		if depth > 0 || own(-1) {
			executions++
			if !visit(x) {
				stop = true
				return
			}
		}
		for i := len(prefix); i < len(x.Steps) && !stop; i++ {
			st := x.Steps[i]
			base := cost(x, i)
			nalt := len(st.Enabled)
			if st.CanTick {
				nalt++
			}
			for alt := 1; alt < nalt && !stop; alt++ {
				if base+stepCost(st, alt) > bound {
					continue
				}
				if depth == 0 {
					mine := own(rootAlt)
					rootAlt++
					if !mine {
						continue
					}
				}
				next := append(append([]int{}, x.Choices()[:i]...), alt)
				rec(next, depth+1)
			}
		}
	}
	rec(nil, 0)
	return executions, !stop
}
