// Package netsim provides in-memory net.Conn / net.Listener / datagram paths built only
// from primitives that testing/synctest treats as durably blocking (channel operations
// and timers), with the complete deadline contract and per-direction fault plans.
package netsim

import (
	"bytes"
	"errors"
	"io"
	"net"
	"os"
	"sync"
	"time"
)

// Addr is a fake network address.
type Addr struct{ Net, Str string }

func (a Addr) Network() string { return a.Net }
func (a Addr) String() string  { return a.Str }

type timeoutError struct{}

func (timeoutError) Error() string   { return "i/o timeout" }
func (timeoutError) Timeout() bool   { return true }
func (timeoutError) Temporary() bool { return true }
func (timeoutError) Is(t error) bool { return t == os.ErrDeadlineExceeded }

// ErrTimeout is returned when a deadline passes; it satisfies net.Error.
var ErrTimeout net.Error = timeoutError{}

// ErrReset is the error a cut connection reports when it is cut "as reset".
var ErrReset = errors.New("connection reset by peer (netsim cut)")

// half is one direction of a connection: a byte queue from a writer to a reader.
type half struct {
	mu   sync.Mutex // held only for short, non-blocking sections
	buf  []byte
	wake chan struct{} // closed and replaced on every state change

	wclosed bool  // writer closed: reader sees EOF after draining
	rclosed bool  // reader closed: writer sees an error
	cutErr  error // set by Cut: both ends fail (reader after draining unless dropPending)
	limit   int   // 0 = unbounded, else back-pressure above this many buffered bytes

	// plan
	readCap     int   // >0: a Read returns at most this many bytes
	byteAtATime int   // the first n bytes are returned one per Read
	preserve    bool  // a Read never crosses a Write boundary
	chunks      []int // remaining lengths of the queued writes (only when preserve)
	stalled     bool  // deliver nothing further to the reader
	holdWrite   map[int]chan struct{}
	cutAfter    int64 // >0: cut the connection once this many bytes were written

	// counters / observation
	written  int64
	consumed int64
	writes   int
	capture  *bytes.Buffer
	onWrite  func(n int) // called (outside the lock) after each write
}

func newHalf() *half { return &half{wake: make(chan struct{})} }

func (h *half) broadcast() {
	close(h.wake)
	h.wake = make(chan struct{})
}

// MemConn is one end of an in-memory full-duplex connection.
type MemConn struct {
	rd, wr        *half
	local, remote net.Addr

	dmu       sync.Mutex
	rdl, wdl  time.Time
	dlChanged chan struct{}
	closed    bool
	Peer      *MemConn
	Label     string
	// HoldEndsAtClose: a Write held by HoldWriteReturn also returns (with net.ErrClosed) when this end is
	// closed, as a blocked socket write does; done is closed by Close.
	HoldEndsAtClose bool
	done            chan struct{}
}

// Pipe returns the two ends of a new connection. limit bounds the bytes buffered per
// direction (0 = unbounded).
func Pipe(a, b net.Addr, limit int) (*MemConn, *MemConn) {
	ab, ba := newHalf(), newHalf()
	ab.limit, ba.limit = limit, limit
	x := &MemConn{rd: ba, wr: ab, local: a, remote: b, dlChanged: make(chan struct{}), done: make(chan struct{})}
	y := &MemConn{rd: ab, wr: ba, local: b, remote: a, dlChanged: make(chan struct{}), done: make(chan struct{})}
	x.Peer, y.Peer = y, x
	return x, y
}

func (c *MemConn) LocalAddr() net.Addr  { return c.local }
func (c *MemConn) RemoteAddr() net.Addr { return c.remote }

func (c *MemConn) deadline(read bool) (time.Time, chan struct{}) {
	c.dmu.Lock()
	defer c.dmu.Unlock()
	if read {
		return c.rdl, c.dlChanged
	}
	return c.wdl, c.dlChanged
}

func (c *MemConn) SetDeadline(t time.Time) error {
	c.dmu.Lock()
	c.rdl, c.wdl = t, t
	close(c.dlChanged)
	c.dlChanged = make(chan struct{})
	c.dmu.Unlock()
	return nil
}

func (c *MemConn) SetReadDeadline(t time.Time) error {
	c.dmu.Lock()
	c.rdl = t
	close(c.dlChanged)
	c.dlChanged = make(chan struct{})
	c.dmu.Unlock()
	return nil
}

func (c *MemConn) SetWriteDeadline(t time.Time) error {
	c.dmu.Lock()
	c.wdl = t
	close(c.dlChanged)
	c.dlChanged = make(chan struct{})
	c.dmu.Unlock()
	return nil
}

// wait blocks until w is closed, the deadline (re-read on change) passes, or returns at once
// with a timeout if it has passed already.
func (c *MemConn) wait(w chan struct{}, read bool) error {
	for {
		dl, changed := c.deadline(read)
		if dl.IsZero() {
			select {
			case <-w:
				return nil
			case <-changed:
				continue
			}
		}
		d := time.Until(dl)
		if d <= 0 {
			return ErrTimeout
		}
		t := time.NewTimer(d)
		select {
		case <-w:
			t.Stop()
			return nil
		case <-changed:
			t.Stop()
			continue
		case <-t.C:
			return ErrTimeout
		}
	}
}

func (c *MemConn) isClosed() bool {
	c.dmu.Lock()
	defer c.dmu.Unlock()
	return c.closed
}

func (c *MemConn) Read(p []byte) (int, error) {
	h := c.rd
	for {
		if c.isClosed() {
			return 0, net.ErrClosed
		}
		if dl, _ := c.deadline(true); !dl.IsZero() && !time.Now().Before(dl) {
			return 0, ErrTimeout
		}
		h.mu.Lock()
		if len(h.buf) > 0 && !h.stalled {
			n := len(p)
			if n > len(h.buf) {
				n = len(h.buf)
			}
			if h.byteAtATime > 0 {
				n = 1
				h.byteAtATime--
			} else if h.readCap > 0 && n > h.readCap {
				n = h.readCap
			}
			if h.preserve && len(h.chunks) > 0 && n > h.chunks[0] {
				n = h.chunks[0]
			}
			if n > len(p) {
				n = len(p)
			}
			copy(p, h.buf[:n])
			h.buf = h.buf[n:]
			if len(h.chunks) > 0 {
				h.chunks[0] -= n
				for len(h.chunks) > 0 && h.chunks[0] <= 0 {
					if len(h.chunks) > 1 {
						h.chunks[1] += h.chunks[0]
					}
					h.chunks = h.chunks[1:]
				}
			}
			if len(h.buf) == 0 {
				h.buf = nil
			}
			h.consumed += int64(n)
			h.broadcast()
			h.mu.Unlock()
			return n, nil
		}
		if len(p) == 0 {
			h.mu.Unlock()
			return 0, nil
		}
		if !h.stalled {
			if h.cutErr != nil {
				err := h.cutErr
				h.mu.Unlock()
				return 0, err
			}
			if h.wclosed {
				h.mu.Unlock()
				return 0, io.EOF
			}
		}
		w := h.wake
		h.mu.Unlock()
		if err := c.wait(w, true); err != nil {
			return 0, err
		}
	}
}

func (c *MemConn) Write(p []byte) (int, error) {
	h := c.wr
	total := 0
	var hold chan struct{}
	for len(p) > 0 || total == 0 {
		if c.isClosed() {
			return total, net.ErrClosed
		}
		if dl, _ := c.deadline(false); !dl.IsZero() && !time.Now().Before(dl) {
			return total, ErrTimeout
		}
		h.mu.Lock()
		if h.cutErr != nil {
			err := h.cutErr
			h.mu.Unlock()
			if err == io.EOF {
				err = io.ErrClosedPipe
			}
			return total, err
		}
		if h.rclosed || h.wclosed {
			h.mu.Unlock()
			return total, io.ErrClosedPipe
		}
		room := len(p)
		if h.limit > 0 {
			room = h.limit - len(h.buf)
			if room > len(p) {
				room = len(p)
			}
		}
		if room > 0 || len(p) == 0 {
			if total == 0 {
				h.writes++
				if ch, ok := h.holdWrite[h.writes]; ok {
					hold = ch
				}
			}
			h.buf = append(h.buf, p[:room]...)
			if h.preserve && room > 0 {
				h.chunks = append(h.chunks, room)
			}
			if h.capture != nil {
				h.capture.Write(p[:room])
			}
			h.written += int64(room)
			total += room
			p = p[room:]
			if h.cutAfter > 0 && h.written >= h.cutAfter {
				h.cutErr = ErrReset
			}
			h.broadcast()
			cb := h.onWrite
			h.mu.Unlock()
			if cb != nil {
				cb(room)
			}
			if len(p) == 0 {
				break
			}
			continue
		}
		w := h.wake
		h.mu.Unlock()
		if err := c.wait(w, false); err != nil {
			return total, err
		}
	}
	if hold != nil {
		// HoldWriteReturn: data is delivered, the call returns when released
		if c.HoldEndsAtClose && c.done != nil {
			select {
			case <-hold:
			case <-c.done:
				return total, net.ErrClosed
			}
		} else {
			<-hold
		}
	}
	return total, nil
}

// Close closes this end: the peer reads EOF after draining, its writes fail.
func (c *MemConn) Close() error {
	c.dmu.Lock()
	if c.closed {
		c.dmu.Unlock()
		return nil
	}
	c.closed = true
	close(c.dlChanged)
	c.dlChanged = make(chan struct{})
	if c.done != nil {
		close(c.done)
	}
	c.dmu.Unlock()
	c.wr.mu.Lock()
	c.wr.wclosed = true
	c.wr.broadcast()
	c.wr.mu.Unlock()
	c.rd.mu.Lock()
	c.rd.rclosed = true
	c.rd.broadcast()
	c.rd.mu.Unlock()
	return nil
}

// CloseWrite half-closes: the peer sees EOF, this end can still read.
func (c *MemConn) CloseWrite() error {
	c.wr.mu.Lock()
	c.wr.wclosed = true
	c.wr.broadcast()
	c.wr.mu.Unlock()
	return nil
}

// Closed reports whether Close was called on this end.
func (c *MemConn) Closed() bool { return c.isClosed() }

// ---- plans and observation (driver side) ------------------------------------------------

// Cut breaks the connection in both directions. asEOF: readers see EOF, else a reset
// error. Pending unread data is dropped when dropPending is set.
func (c *MemConn) Cut(asEOF, dropPending bool) {
	err := ErrReset
	if asEOF {
		err = io.EOF
	}
	for _, h := range []*half{c.rd, c.wr} {
		h.mu.Lock()
		h.cutErr = err
		if dropPending {
			h.buf = nil
		}
		h.broadcast()
		h.mu.Unlock()
	}
}

// CutWith breaks the connection in both directions with the given error (for instance
// ErrTimeout: a path that died the way the kernel reports ETIMEDOUT, a net.Error whose
// Timeout() is true).
func (c *MemConn) CutWith(err error, dropPending bool) {
	for _, h := range []*half{c.rd, c.wr} {
		h.mu.Lock()
		h.cutErr = err
		if dropPending {
			h.buf = nil
		}
		h.broadcast()
		h.mu.Unlock()
	}
}

// Inject appends bytes to what this end will read (as if the peer had written them).
func (c *MemConn) Inject(b []byte) {
	c.rd.mu.Lock()
	c.rd.buf = append(c.rd.buf, b...)
	c.rd.broadcast()
	c.rd.mu.Unlock()
}

// SetReadPlan controls how this end's reads are segmented.
func (c *MemConn) SetReadPlan(byteAtATime, readCap int) {
	c.rd.mu.Lock()
	c.rd.byteAtATime, c.rd.readCap = byteAtATime, readCap
	c.rd.mu.Unlock()
}

// PreserveWrites makes reads of this end stop at the peer's write boundaries.
func (c *MemConn) PreserveWrites(on bool) {
	c.rd.mu.Lock()
	c.rd.preserve = on
	c.rd.mu.Unlock()
}

// StallIncoming stops (or resumes) delivery toward this end.
func (c *MemConn) StallIncoming(on bool) {
	c.rd.mu.Lock()
	c.rd.stalled = on
	c.rd.broadcast()
	c.rd.mu.Unlock()
}

// HoldWriteReturn makes the k-th (1-based) Write of this end deliver its data at once but
// return only after the returned release function is called.
func (c *MemConn) HoldWriteReturn(k int) (release func()) {
	ch := make(chan struct{})
	c.wr.mu.Lock()
	if c.wr.holdWrite == nil {
		c.wr.holdWrite = map[int]chan struct{}{}
	}
	c.wr.holdWrite[k] = ch
	c.wr.mu.Unlock()
	var once sync.Once
	return func() { once.Do(func() { close(ch) }) }
}

// HoldNextWriteReturn is HoldWriteReturn for the next Write this end performs.
func (c *MemConn) HoldNextWriteReturn() (release func()) {
	c.wr.mu.Lock()
	k := c.wr.writes + 1
	c.wr.mu.Unlock()
	return c.HoldWriteReturn(k)
}

// CutAfterWritten breaks the connection once this end has written n bytes in total.
func (c *MemConn) CutAfterWritten(n int64) {
	c.wr.mu.Lock()
	c.wr.cutAfter = n
	c.wr.mu.Unlock()
}

// CaptureOutgoing records every byte this end writes.
func (c *MemConn) CaptureOutgoing() *bytes.Buffer {
	c.wr.mu.Lock()
	defer c.wr.mu.Unlock()
	if c.wr.capture == nil {
		c.wr.capture = &bytes.Buffer{}
	}
	return c.wr.capture
}

// Captured returns a copy of what this end wrote so far (CaptureOutgoing must be on).
func (c *MemConn) Captured() []byte {
	c.wr.mu.Lock()
	defer c.wr.mu.Unlock()
	if c.wr.capture == nil {
		return nil
	}
	return append([]byte{}, c.wr.capture.Bytes()...)
}

// Stats: bytes written by this end, bytes consumed by this end, writes issued, unread bytes pending toward this end.
func (c *MemConn) Stats() (written, consumed int64, writes int, pendingIn int) {
	c.wr.mu.Lock()
	written, writes = c.wr.written, c.wr.writes
	c.wr.mu.Unlock()
	c.rd.mu.Lock()
	consumed, pendingIn = c.rd.consumed, len(c.rd.buf)
	c.rd.mu.Unlock()
	return
}

// PeerClosedWrite reports whether the other end closed (this end will read EOF).
func (c *MemConn) PeerClosedWrite() bool {
	c.rd.mu.Lock()
	defer c.rd.mu.Unlock()
	return c.rd.wclosed
}

// ---- listener -----------------------------------------------------------------------------

// MemListener is an in-memory net.Listener; Dial never blocks (like a kernel backlog).
type MemListener struct {
	mu      sync.Mutex
	queue   []*MemConn
	wake    chan struct{}
	closed  bool
	addr    net.Addr
	Limit   int // per-direction buffer bound of accepted connections
	OnDial  func(client, server *MemConn)
	nextID  int
	Dialled []*MemConn // client ends, in dial order
}

func NewListener(addr string) *MemListener {
	return &MemListener{wake: make(chan struct{}), addr: Addr{"mem", addr}}
}

func (l *MemListener) Accept() (net.Conn, error) {
	for {
		l.mu.Lock()
		if l.closed {
			l.mu.Unlock()
			return nil, net.ErrClosed
		}
		if len(l.queue) > 0 {
			c := l.queue[0]
			l.queue = l.queue[1:]
			l.mu.Unlock()
			return c, nil
		}
		w := l.wake
		l.mu.Unlock()
		<-w
	}
}

func (l *MemListener) Close() error {
	l.mu.Lock()
	if !l.closed {
		l.closed = true
		close(l.wake)
		l.wake = make(chan struct{})
	}
	l.mu.Unlock()
	return nil
}

func (l *MemListener) Addr() net.Addr { return l.addr }

// Dial connects a new client; the server end is queued for Accept.
func (l *MemListener) Dial() (*MemConn, error) {
	l.mu.Lock()
	defer l.mu.Unlock()
	if l.closed {
		return nil, errors.New("connection refused (netsim listener closed)")
	}
	l.nextID++
	ca := Addr{"mem", "client-" + itoa(l.nextID)}
	c, s := Pipe(ca, l.addr, l.Limit)
	l.queue = append(l.queue, s)
	l.Dialled = append(l.Dialled, c)
	if l.OnDial != nil {
		l.OnDial(c, s)
	}
	close(l.wake)
	l.wake = make(chan struct{})
	return c, nil
}

func itoa(i int) string {
	if i == 0 {
		return "0"
	}
	var b []byte
	for i > 0 {
		b = append([]byte{byte('0' + i%10)}, b...)
		i /= 10
	}
	return string(b)
}
