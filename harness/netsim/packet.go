package netsim

import (
	"net"
	"sync"
	"time"
)

// MemPacketConn is an in-memory net.PacketConn for real-time (non-bubble) use with
// kcp-go. Datagrams written to an address are queued at the PacketConn registered under
// that address in the same PacketNet.
type PacketNet struct {
	mu      sync.Mutex
	conns   map[string]*MemPacketConn
	Drop    func(from, to string, n int) bool // optional loss model (unused by value-only oracles)
	Capture bool
	cap     []byte
}

// Captured returns every datagram payload that crossed the network so far, concatenated.
func (n *PacketNet) Captured() []byte {
	n.mu.Lock()
	defer n.mu.Unlock()
	return append([]byte{}, n.cap...)
}

func NewPacketNet() *PacketNet { return &PacketNet{conns: map[string]*MemPacketConn{}} }

type dgram struct {
	b    []byte
	from net.Addr
}

type MemPacketConn struct {
	net    *PacketNet
	addr   *net.UDPAddr
	ch     chan dgram
	closed chan struct{}
	once   sync.Once
	mu     sync.Mutex
	rdl    time.Time
}

func (n *PacketNet) Listen(addr *net.UDPAddr) *MemPacketConn {
	c := &MemPacketConn{net: n, addr: addr, ch: make(chan dgram, 4096), closed: make(chan struct{})}
	n.mu.Lock()
	n.conns[addr.String()] = c
	n.mu.Unlock()
	return c
}

func (c *MemPacketConn) ReadFrom(p []byte) (int, net.Addr, error) {
	c.mu.Lock()
	dl := c.rdl
	c.mu.Unlock()
	var timer <-chan time.Time
	if !dl.IsZero() {
		d := time.Until(dl)
		if d <= 0 {
			return 0, nil, ErrTimeout
		}
		t := time.NewTimer(d)
		defer t.Stop()
		timer = t.C
	}
	select {
	case d := <-c.ch:
		return copy(p, d.b), d.from, nil
	case <-c.closed:
		return 0, nil, net.ErrClosed
	case <-timer:
		return 0, nil, ErrTimeout
	}
}

func (c *MemPacketConn) WriteTo(p []byte, a net.Addr) (int, error) {
	select {
	case <-c.closed:
		return 0, net.ErrClosed
	default:
	}
	c.net.mu.Lock()
	dst := c.net.conns[a.String()]
	if c.net.Capture {
		c.net.cap = append(c.net.cap, p...)
	}
	c.net.mu.Unlock()
	if dst == nil {
		return len(p), nil // nobody there: datagram lost
	}
	d := dgram{b: append([]byte{}, p...), from: c.addr}
	select {
	case dst.ch <- d:
	case <-dst.closed:
	default: // queue full: drop, as a socket buffer would
	}
	return len(p), nil
}

func (c *MemPacketConn) Close() error {
	c.once.Do(func() {
		close(c.closed)
		c.net.mu.Lock()
		delete(c.net.conns, c.addr.String())
		c.net.mu.Unlock()
	})
	return nil
}

func (c *MemPacketConn) LocalAddr() net.Addr { return c.addr }
func (c *MemPacketConn) SetDeadline(t time.Time) error {
	return c.SetReadDeadline(t)
}
func (c *MemPacketConn) SetReadDeadline(t time.Time) error {
	c.mu.Lock()
	c.rdl = t
	c.mu.Unlock()
	return nil
}
func (c *MemPacketConn) SetWriteDeadline(t time.Time) error { return nil }
