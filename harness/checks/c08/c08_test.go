// C08 — DNS codecs are lossless, alphabet-confined and bounded.
//
// Engine S: bounded-exhaustive input enumeration on the real Encoder implementations.
package c08

import (
	"bytes"
	"encoding/hex"
	"fmt"
	"math"
	"strings"
	"testing"

	"github.com/bokysan/socketace/v2/internal/util/enc"
	"github.com/bokysan/socketace/v2/verifharness/mc"
)

type codec struct {
	e     enc.Encoder
	block int  // input block size: failures are classified by len % block
	text  bool // alphabet / bound oracles apply (false for Raw)
}

var codecs = []codec{
	{enc.Base32Encoding, 5, true},
	{enc.Base64Encoding, 3, true},
	{enc.Base64uEncoding, 3, true},
	{enc.Base85Encoding, 4, true},
	{enc.Base91Encoding, 13, true},
	{enc.Base128Encoding, 7, true},
	{enc.Base192Encoding, 15, true},
	{enc.RawEncoding, 1, false},
}

type kase struct {
	Codec string `json:"codec"`
	Input []byte `json:"input"`
	Gen   string `json:"gen"`
	Then  []byte `json:"then,omitempty"` // hold family: the input encoded while Input's encoding is held
}

// knownInput / knownEncodings: what Encode produced for knownInput on the pinned tree. They are used only by the
// decode-first family: the very first codec call of the process is Decode of such an encoding (a server decodes
// a query before it has ever encoded anything). A vector that the current Encode no longer produces is stale and
// is skipped, never reported.
func knownInput() []byte {
	in := make([]byte, 48)
	for i := range in {
		in[i] = byte(i*37 + 11)
	}
	in[0], in[1], in[47] = 0x2b, 0xb8, 0x00
	return in
}

var knownEncodings = map[string]string{
	"Base32": "666f32666b34753579747571326d30797077726d70316172677a6e79626a6f6b33326b64737875647664673565667a326d67646b78756876646935776a636e6f30703262307174687273797161",
	"Base64": "6b36487645502b653571335a77683149583957726e4c55615043525666644c4547354a6e37484337797941522d7075417031736a5254703368756a4e4a6c6561",
	"Base64u": "6b36487645505f653571335a77683149583957726e4c55615043525666644c4547354a6e37484337797941522d7075417031736a5254703368756a4e4a6c6561",
	"Base85": "2f2541542a543e5d7428314b5d282261365842723e4378516d6d684063674b3b6426632848632c775833674d583540665652652b61714d42386a2871",
	"Base91": "222878304d577c32357644694263532b6d79592d59227b6448564e6f7b53363a702c467552696d673d6f7c535b584f592162532857585b69335041",
	"Base128": "76ec6bd5d2fd6ae7686de968eb6c70ea69cbc934667876ed6b6f52e6444a42f06ccd6d79315648f36e70eac6cb374ef66fcecaf6e3c261",
	"Base192": "1d1c1c5e6fb86890975a82765c8f9011242d80294c5d970363b4136325244a7f393428a32fb6304d4f0f957a58675d9855",
	"Raw": "2bb8557a9fc4e90e33587da2c7ec11365b80a5caef14395e83a8cdf2173c6186abd0f51a3f6489aed3f81d42678cb100",
}

// evalDecodeFirst must run before any Encode call in the process.
func evalDecodeFirst(r *mc.Run, only string) {
	in := knownInput()
	type res struct {
		back []byte
		err  error
		pan  any
	}
	first := map[string]res{}
	for _, c := range codecs {
		name := c.e.Name()
		if only != "" && only != name {
			continue
		}
		raw, _ := hex.DecodeString(knownEncodings[name])
		func() {
			defer func() {
				if p := recover(); p != nil {
					first[name] = res{pan: p}
				}
			}()
			back, err := c.e.Decode(append([]byte{}, raw...))
			first[name] = res{back: append([]byte{}, back...), err: err}
		}()
	}
	// only now may Encode run: is the vector what this tree encodes?
	for _, c := range codecs {
		name := c.e.Name()
		f, ok := first[name]
		if !ok {
			continue
		}
		r.Eval(1)
		r.Transition(2)
		raw, _ := hex.DecodeString(knownEncodings[name])
		if !bytes.Equal(safeEncode(c, in), raw) {
			r.Note("decode_first_stale_vectors", 1)
			continue
		}
		k := kase{Codec: name, Input: in, Gen: "decode-first"}
		outcome := "ok"
		// the reference is the same Decode call made again now that the codec has encoded: whether the value is
		// the original input is the round-trip family's question (Base192's known finding), not this one's
		var later res
		func() {
			defer func() {
				if p := recover(); p != nil {
					later = res{pan: p}
				}
			}()
			back, err := c.e.Decode(append([]byte{}, raw...))
			later = res{back: append([]byte{}, back...), err: err}
		}()
		switch {
		case f.pan != nil && later.pan == nil:
			outcome = "panic"
			r.Fail("decode-first-panic|"+name, fmt.Sprintf("%s: Decode as the first codec call of the process panicked (%v); the same call after an Encode does not", name, f.pan), len(in), k)
		case f.pan == nil && later.pan == nil && ((f.err == nil) != (later.err == nil) || !bytes.Equal(f.back, later.back)):
			outcome = "mismatch"
			r.Fail("decode-first-mismatch|"+name, fmt.Sprintf("%s: Decode of a %d-byte input's encoding returned % x (len %d, err %v) as the first codec call of the process and % x (len %d, err %v) after the codec had encoded once", name, len(in), trunc(f.back), len(f.back), f.err, trunc(later.back), len(later.back), later.err), len(in), k)
		}
		r.State(mc.Hash(name, "decode-first", outcome))
		r.Nontrivial(mc.Hash(name, "decode-first"))
	}
}

func forbidden(b byte) bool {
	return b == '.' || b == '\\' || b == ' ' || b <= 0x1F || b == 0x7F
}

// evalEncode runs all sub-oracles for one input; returns outcome bits.
func evalEncode(r *mc.Run, c codec, in []byte, gen string, alphabet *[256]bool) {
	r.Eval(1)
	r.Transition(2)
	name := c.e.Name()
	cls := fmt.Sprintf("len%%%d==%d", c.block, len(in)%c.block)
	if len(in) == 0 {
		cls = "len==0"
	}
	k := kase{Codec: name, Input: append([]byte{}, in...), Gen: gen}
	fail := func(sub, what string) {
		r.Fail(sub+"|"+name+"|"+cls, fmt.Sprintf("%s: %s (input len %d, % x)", name, what, len(in), trunc(in)), len(in), k)
	}
	var out []byte
	outcome := 0
	func() {
		defer func() {
			if p := recover(); p != nil {
				fail("encode-panic", fmt.Sprintf("Encode panicked: %v", p))
				outcome |= 1
			}
		}()
		orig := append([]byte{}, in...)
		out = c.e.Encode(in)
		if !bytes.Equal(orig, in) {
			fail("encode-mutates-input", "Encode modified its input")
			outcome |= 2
		}
	}()
	if outcome&1 != 0 {
		r.State(mc.Hash(name, outcome, cls))
		return
	}
	if c.text {
		for _, b := range out {
			alphabet[b] = true
			if forbidden(b) {
				fail("alphabet", fmt.Sprintf("output contains forbidden byte 0x%02x", b))
				outcome |= 4
				break
			}
		}
		bound := int(math.Ceil(float64(len(in))*c.e.Ratio())) + 8
		if len(out) > bound {
			fail("length-bound", fmt.Sprintf("output length %d exceeds ceil(%d*%.4f)+8=%d", len(out), len(in), c.e.Ratio(), bound))
			outcome |= 8
		}
	}
	func() {
		defer func() {
			if p := recover(); p != nil {
				fail("decode-panic", fmt.Sprintf("Decode(Encode(x)) panicked: %v", p))
				outcome |= 16
			}
		}()
		// decode a copy: Raw returns its argument
		back, err := c.e.Decode(append([]byte{}, out...))
		if err != nil {
			fail("roundtrip-error", fmt.Sprintf("Decode(Encode(x)) returned error %v", err))
			outcome |= 32
		} else if !bytes.Equal(back, in) {
			fail("roundtrip-mismatch", fmt.Sprintf("Decode(Encode(x)) = % x (len %d)", trunc(back), len(back)))
			outcome |= 64
		}
	}()
	r.State(mc.Hash(name, outcome, cls))
	if len(in)%c.block == 0 || len(in) < 3 {
		r.Nontrivial(mc.Hash(name, in))
	}
}

// evalHold: the encoding of a is kept while b is encoded and decoded; it must not change.
func evalHold(r *mc.Run, c codec, a, b []byte, gen string) {
	r.Eval(1)
	r.Transition(4)
	name := c.e.Name()
	k := kase{Codec: name, Input: append([]byte{}, a...), Gen: gen, Then: append([]byte{}, b...)}
	defer func() {
		if p := recover(); p != nil {
			r.Fail("hold-panic|"+name, fmt.Sprintf("%s: encode A, encode B, decode A's encoding panicked: %v", name, p), len(a)+len(b), k)
		}
	}()
	encA := c.e.Encode(a)
	snapshot := append([]byte{}, encA...)
	backA1, errA1 := c.e.Decode(append([]byte{}, encA...))
	encB := c.e.Encode(b)
	c.e.Decode(append([]byte{}, encB...))
	outcome := "kept"
	backA2, errA2 := c.e.Decode(append([]byte{}, encA...))
	switch {
	case !bytes.Equal(encA, snapshot):
		outcome = "changed"
		r.Fail("encoding-changed-while-held|"+name, fmt.Sprintf("%s: the encoding of a %d-byte input changed after the codec encoded a %d-byte input (was % x, is % x)", name, len(a), len(b), trunc(snapshot), trunc(encA)), len(a)+len(b), k)
	case (errA1 == nil) != (errA2 == nil) || !bytes.Equal(backA1, backA2):
		outcome = "decodes-differently"
		r.Fail("encoding-decodes-differently-later|"+name, fmt.Sprintf("%s: the same encoding of a %d-byte input decoded differently before and after the codec handled a %d-byte input", name, len(a), len(b)), len(a)+len(b), k)
	}
	r.State(mc.Hash(name, "hold", outcome))
	r.Nontrivial(mc.Hash(name, gen))
}

func trunc(b []byte) []byte {
	if len(b) > 24 {
		return b[:24]
	}
	return b
}

func evalDecode(r *mc.Run, c codec, in []byte) {
	r.Eval(1)
	r.Transition(1)
	name := c.e.Name()
	defer func() {
		if p := recover(); p != nil {
			r.Fail("decode-panic-arbitrary|"+name, fmt.Sprintf("%s: Decode(%q) panicked: %v", name, in, p), len(in),
				kase{Codec: name, Input: append([]byte{}, in...), Gen: "decode"})
		}
	}()
	_, err := c.e.Decode(append([]byte{}, in...))
	r.State(mc.Hash(name, "decode", err == nil))
}

func pattern(kind int, n int) []byte {
	b := make([]byte, n)
	for i := range b {
		switch kind {
		case 0:
			b[i] = 0
		case 1:
			b[i] = 0xFF
		case 2:
			if i%2 == 1 {
				b[i] = 0xFF
			}
		case 3:
			b[i] = byte(i*131 + i/251)
		}
	}
	return b
}

func TestCheck(t *testing.T) {
	r := mc.New(t, "C08")
	defer r.Finish()
	if r.Replay != nil {
		var k kase
		r.DecodeReplay(&k)
		if k.Gen == "decode-first" {
			evalDecodeFirst(r, k.Codec)
			return
		}
		for _, c := range codecs {
			if c.e.Name() == k.Codec {
				var a [256]bool
				if k.Gen == "decode" {
					evalDecode(r, c, k.Input)
				} else if strings.HasPrefix(k.Gen, "hold-") {
					evalHold(r, c, k.Input, k.Then, k.Gen)
				} else {
					evalEncode(r, c, k.Input, k.Gen, &a)
				}
			}
		}
		return
	}
	evalDecodeFirst(r, "") // before any Encode in this process
	idx := 0
	maxLen := 4096
	if r.Thorough() {
		maxLen = 16384
	}
	sub32 := []byte{0, 1, 2, 7, 8, 0x0F, 0x10, 0x1F, 0x20, 0x2E, 0x2F, 0x3F, 0x40, 0x5C, 0x60, 0x7E, 0x7F, 0x80, 0x81, 0xA0, 0xBB, 0xBC, 0xBF, 0xC0, 0xC1, 0xDF, 0xE0, 0xF0, 0xFD, 0xFE, 0xFF, 0x55}
	for ci, c := range codecs {
		var alphabet [256]bool
		// all strings of length 0..2 over all byte values
		all := make([]byte, 256)
		for i := range all {
			all[i] = byte(i)
		}
		mc.Strings(all, 2, func(_ int, s []byte) bool {
			if r.Mine(idx) {
				evalEncode(r, c, s, "all<=2", &alphabet)
			} else if len(s) < 2 && c.text { // every shard learns the alphabet from the short ones
				for _, b := range safeEncode(c, s) {
					alphabet[b] = true
				}
			}
			idx++
			return true
		})
		if r.Thorough() {
			mc.Strings(sub32, 3, func(_ int, s []byte) bool {
				if len(s) == 3 {
					if r.Mine(idx) {
						evalEncode(r, c, s, "sub32^3", &alphabet)
					}
					idx++
				}
				return true
			})
		}
		// every length with structured content
		for n := 0; n <= maxLen; n++ {
			for kind := 0; kind < 4; kind++ {
				if r.Mine(idx) {
					evalEncode(r, c, pattern(kind, n), fmt.Sprintf("pattern%d", kind), &alphabet)
				}
				idx++
			}
		}
		// single 1-bit at every position for n <= 64
		for n := 1; n <= 64; n++ {
			for bit := 0; bit < 8*n; bit++ {
				if r.Mine(idx) {
					b := make([]byte, n)
					b[bit/8] = 1 << uint(bit%8)
					evalEncode(r, c, b, "single-bit", &alphabet)
				}
				idx++
			}
		}
		// the codec's own probe patterns must survive Encode/Decode as payload too
		for _, p := range c.e.TestPatterns() {
			if r.Mine(idx) {
				evalEncode(r, c, p, "testpattern", &alphabet)
			}
			idx++
		}
		// decode side: all strings of length <= 2 over the observed alphabet + foreign bytes
		if c.text {
			// learn the alphabet deterministically (same in every shard)
			for n := 0; n <= 64; n++ {
				for kind := 0; kind < 4; kind++ {
					for _, b := range safeEncode(c, pattern(kind, n)) {
						alphabet[b] = true
					}
				}
			}
			var al []byte
			for b := 0; b < 256; b++ {
				if alphabet[b] {
					al = append(al, byte(b))
				}
			}
			for _, f := range []byte{0x00, '.', ' ', '\\', '=', 0x7F, 0x80, 0xFF} {
				if !alphabet[f] {
					al = append(al, f)
				}
			}
			mc.Strings(al, 2, func(_ int, s []byte) bool {
				if r.Mine(idx) {
					evalDecode(r, c, s)
				}
				idx++
				return true
			})
			if ci == 0 {
				r.Sample(map[string]any{"codec": c.e.Name(), "decode_alphabet_size": len(al)})
			}
		}
	}
	// an encoding must stay valid while the codec is used for something else: encode A, encode B
	// (and decode B's encoding), then A's encoding must still decode to A - every ordered pair of
	// a small input set, per codec
	holdSet := [][]byte{{}, {0}, {0xFF}, pattern(3, 7), pattern(3, 8), pattern(1, 15), pattern(3, 64), pattern(0, 64), pattern(3, 300), pattern(2, 1024)}
	for _, c := range codecs {
		for ai, a := range holdSet {
			for bi, b := range holdSet {
				if r.Mine(idx) {
					evalHold(r, c, a, b, fmt.Sprintf("hold-%d-%d", ai, bi))
				}
				idx++
			}
		}
	}
	r.Note("cases_total", idx)
	r.Note("max_structured_length", maxLen)
	r.Sample(kase{Codec: "Base32", Input: []byte{0x00, 0xFF}, Gen: "all<=2"})
	r.Sample(kase{Codec: "Base128", Input: pattern(3, 14), Gen: "pattern3"})
}

func safeEncode(c codec, in []byte) (out []byte) {
	defer func() { recover() }()
	return c.e.Encode(in)
}
