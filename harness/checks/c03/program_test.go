package c03

// Whole-program wiring pass (real sockets, real time): the server command and the client
// command are built from configuration text exactly as the program builds them
// (server.Channels / server.Servers from JSON or YAML, upstream and listener flags), started
// through Command.Startup, and used by a local application over loopback TCP. The channel
// table holds REAL network channels (tcp targets; the unix path form is C18's known finding)
// and the socks channel; one server
// endpoint carries an allow-list, a second one does not. Value oracle: which real target
// service greeted the application, and how often each target was dialled.

import (
	"bufio"
	"encoding/json"
	"fmt"
	"io"
	"net"
	"os"
	"strings"
	"sync/atomic"
	"time"

	clientcmd "github.com/bokysan/socketace/v2/internal/commands/client"
	servercmd "github.com/bokysan/socketace/v2/internal/commands/server"
	"github.com/bokysan/socketace/v2/verifharness/bubble"
	"github.com/goccy/go-yaml"
)

type realTarget struct {
	name string
	ln   net.Listener
	n    int32
}

func newRealTarget(network, address, name string) (*realTarget, error) {
	l, err := net.Listen(network, address)
	if err != nil {
		return nil, err
	}
	t := &realTarget{name: name, ln: l}
	go func() {
		for {
			c, err := l.Accept()
			if err != nil {
				return
			}
			atomic.AddInt32(&t.n, 1)
			go func() {
				defer c.Close()
				c.Write([]byte("I-AM-" + name + "\n"))
				io.Copy(c, c) // then echo
			}()
		}
	}()
	return t, nil
}

func (t *realTarget) count() int { return int(atomic.LoadInt32(&t.n)) }

func programWiringCases() []Case {
	return []Case{
		{Front: "tcp", Wiring: "program-json", Table: []string{"public", "secret", "ux", "sox"}, List: []string{"public", "sox"}},
		{Front: "tcp", Wiring: "program-yaml", Table: []string{"public", "secret", "ux", "sox"}, List: []string{"public", "sox"}},
	}
}

func executeProgramWiring(c Case) (kind, detail string) {
	bubble.SetupLogging()
	defer func() {
		if p := recover(); p != nil {
			kind, detail = "panic|program-wiring", fmt.Sprint(p)
		}
	}()
	form := c.Wiring[len("program-"):]
	pub, err := newRealTarget("tcp", "127.0.0.1:0", "public")
	if err != nil {
		return "inconclusive", err.Error()
	}
	defer pub.ln.Close()
	sec, err := newRealTarget("tcp", "127.0.0.1:0", "secret")
	if err != nil {
		return "inconclusive", err.Error()
	}
	defer sec.ln.Close()
	ux, err := newRealTarget("tcp", "127.0.0.1:0", "ux")
	if err != nil {
		return "inconclusive", err.Error()
	}
	defer ux.ln.Close()
	targets := map[string]*realTarget{"public": pub, "secret": sec, "ux": ux}

	pRestricted, pOpen := freePort(), freePort()
	channels := []interface{}{
		map[string]interface{}{"name": "public", "address": "tcp://" + pub.ln.Addr().String()},
		map[string]interface{}{"name": "secret", "address": "tcp://" + sec.ln.Addr().String()},
		map[string]interface{}{"name": "ux", "address": "tcp://" + ux.ln.Addr().String()},
		map[string]interface{}{"name": "sox", "address": "socks://"},
	}
	servers := []interface{}{
		map[string]interface{}{"address": fmt.Sprintf("tcp://127.0.0.1:%d", pRestricted), "channels": c.List},
		map[string]interface{}{"address": fmt.Sprintf("tcp://127.0.0.1:%d", pOpen)},
	}
	s := servercmd.NewCommand()
	if form == "json" {
		b, _ := json.Marshal(channels)
		if err := s.Channels.UnmarshalJSON(b); err != nil {
			return "inconclusive", "channels rejected: " + err.Error()
		}
		b, _ = json.Marshal(servers)
		if err := s.Servers.UnmarshalJSON(b); err != nil {
			return "inconclusive", "servers rejected: " + err.Error()
		}
	} else {
		b, _ := yaml.Marshal(channels)
		if err := yaml.Unmarshal(b, &s.Channels); err != nil {
			return "inconclusive", "channels rejected: " + err.Error()
		}
		b, _ = yaml.Marshal(servers)
		if err := yaml.Unmarshal(b, &s.Servers); err != nil {
			return "inconclusive", "servers rejected: " + err.Error()
		}
	}
	if len(s.Channels) != 4 || len(s.Servers) != 2 {
		return "valid-configuration-misparsed|program-wiring", fmt.Sprintf("%d channels, %d servers parsed from a %s text listing 4 and 2", len(s.Channels), len(s.Servers), form)
	}
	interrupted := make(chan os.Signal, 1)
	if err := s.Startup(interrupted); err != nil {
		if strings.Contains(err.Error(), "in use") || strings.Contains(err.Error(), "bind") {
			return "inconclusive", "server startup: " + err.Error()
		}
		return "valid-configuration-refused|program-wiring", fmt.Sprintf("server built from %s text (channels public, secret, ux, sox; allow-list %v on one endpoint) does not start: %v", form, c.List, err)
	}
	defer s.Shutdown()
	time.Sleep(300 * time.Millisecond)

	// one client program per server endpoint; one local listener per channel name
	type client struct {
		cmd   *clientcmd.Command
		ports map[string]int
	}
	names := []string{"public", "secret", "ux", "sox", "nosuch"}
	mkClient := func(serverPort int) (*client, error) {
		cl := &client{cmd: clientcmd.NewCommand(), ports: map[string]int{}}
		if err := cl.cmd.Upstream.UnmarshalFlag(fmt.Sprintf("tcp://127.0.0.1:%d", serverPort)); err != nil {
			return nil, err
		}
		for _, n := range names {
			p := freePort()
			cl.ports[n] = p
			if err := cl.cmd.ListenList.UnmarshalFlag(fmt.Sprintf("%s~tcp://127.0.0.1:%d", n, p)); err != nil {
				return nil, err
			}
		}
		if err := cl.cmd.Startup(interrupted); err != nil {
			return nil, err
		}
		return cl, nil
	}
	restricted, err := mkClient(pRestricted)
	if err != nil {
		return "inconclusive", "client startup: " + err.Error()
	}
	defer restricted.cmd.Shutdown()
	open, err := mkClient(pOpen)
	if err != nil {
		return "inconclusive", "client startup: " + err.Error()
	}
	defer open.cmd.Shutdown()
	time.Sleep(100 * time.Millisecond)

	// greet: connect to a local listener, return the greeting line ("" if the connection ends
	// ; "timeout" if it stays silent for 20 s)
	greet := func(port int, socksTo string) (string, net.Conn) {
		conn, err := net.DialTimeout("tcp", fmt.Sprintf("127.0.0.1:%d", port), 5*time.Second)
		if err != nil {
			return "dial-error: " + err.Error(), nil
		}
		conn.SetDeadline(time.Now().Add(20 * time.Second))
		if socksTo != "" {
			host, portS, _ := net.SplitHostPort(socksTo)
			var pn int
			fmt.Sscanf(portS, "%d", &pn)
			conn.Write([]byte{5, 1, 0})
			rep := make([]byte, 2)
			if _, err := io.ReadFull(conn, rep); err != nil || rep[0] != 5 || rep[1] != 0 {
				conn.Close()
				return "", nil
			}
			ip := net.ParseIP(host).To4()
			conn.Write(append(append([]byte{5, 1, 0, 1}, ip...), byte(pn>>8), byte(pn)))
			rep = make([]byte, 10)
			if _, err := io.ReadFull(conn, rep); err != nil || rep[1] != 0 {
				conn.Close()
				return "", nil
			}
		}
		line, rerr := bufio.NewReader(conn).ReadString('\n')
		if ne, ok := rerr.(net.Error); ok && ne.Timeout() {
			line = "timeout"
		}
		conn.SetDeadline(time.Time{})
		return line, conn
	}
	counts := func() map[string]int {
		m := map[string]int{}
		for n, t := range targets {
			m[n] = t.count()
		}
		return m
	}
	for _, cl := range []struct {
		c     *client
		label string
		list  []string
	}{{restricted, "restricted endpoint", c.List}, {open, "endpoint without allow-list", nil}} {
		for _, name := range names {
			before := counts()
			socksTo := ""
			if name == "sox" {
				socksTo = sec.ln.Addr().String()
			}
			line, conn := greet(cl.c.ports[name], socksTo)
			time.Sleep(100 * time.Millisecond)
			after := counts()
			if conn != nil {
				conn.Close()
			}
			want := route(c.Table, cl.list, name)
			if line == "timeout" {
				return "inconclusive", fmt.Sprintf("no answer within 20 s of real time on the local listener for %q", name)
			}
			dialled := ""
			for n := range targets {
				for i := before[n]; i < after[n]; i++ {
					dialled += n + " "
				}
			}
			ctx := fmt.Sprintf("%s (%s text, allow-list %v), local listener for %q", cl.label, form, cl.list, name)
			switch {
			case name == "sox" && want != "":
				if line != "I-AM-secret\n" || dialled != "secret " {
					return "misrouted|socks-channel|program-wiring", fmt.Sprintf("%s: a SOCKS5 CONNECT to the 'secret' service's address got greeting %q, targets dialled: [%s]", ctx, line, dialled)
				}
			case want == "":
				if dialled != "" || (len(line) > 5 && line[:5] == "I-AM-") {
					return "exposed|" + classify(c.Table, cl.list, name) + "|program-wiring", fmt.Sprintf("%s: the request must be refused, but the application was greeted with %q and target(s) [%s] were dialled", ctx, line, dialled)
				}
			default:
				if line != "I-AM-"+want+"\n" || dialled != want+" " {
					return "misrouted|" + classify(c.Table, cl.list, name) + "|program-wiring", fmt.Sprintf("%s: must reach the service %q; greeting %q, targets dialled: [%s]", ctx, want, line, dialled)
				}
			}
		}
	}
	// fidelity through the whole program: 200 KB echoed by the real target
	line, conn := greet(open.ports["ux"], "")
	if conn == nil || line != "I-AM-ux\n" {
		return "misrouted|echo|program-wiring", fmt.Sprintf("greeting %q", line)
	}
	defer conn.Close()
	payload := make([]byte, 200000)
	for i := range payload {
		payload[i] = byte(i*7 + i>>8)
	}
	go conn.Write(payload)
	back := make([]byte, len(payload))
	conn.SetReadDeadline(time.Now().Add(30 * time.Second))
	if _, err := io.ReadFull(conn, back); err != nil {
		return "inconclusive", "echo through the program did not complete within 30 s: " + err.Error()
	}
	for i := range back {
		if back[i] != payload[i] {
			return "corrupt|program-wiring", fmt.Sprintf("echoed byte %d differs", i)
		}
	}
	return "", ""
}
