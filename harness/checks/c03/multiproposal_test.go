package c03

// Multi-proposal family: multistream lets a client propose several channel names on ONE
// logical connection until one is acknowledged (socketace's own client proposes one; another
// client need not). A scripted peer - real smux client, real go-multistream negotiation over an
// established session - proposes two or three names in turn, while the target of an offered
// name may refuse its first dial(s). Oracle: the acknowledged name is one the endpoint offers,
// and the bytes written afterwards reach that name's target and no other.

import (
	"fmt"
	"io"
	"strings"
	"testing"
	"time"

	ms "github.com/multiformats/go-multistream"
	"github.com/xtaci/smux"

	"github.com/bokysan/socketace/v2/verifharness/bubble"
	"github.com/bokysan/socketace/v2/verifharness/mc"
	"github.com/bokysan/socketace/v2/verifharness/world"
)

type MultiCase struct {
	Family   string   `json:"family"` // "multi-proposal"
	Table    []string `json:"table"`
	List     []string `json:"list"`
	Proposed []string `json:"proposed"`
	RefuseN  int      `json:"refuse_first_dials"` // of every channel's target
}

func (c MultiCase) String() string {
	return fmt.Sprintf("multi-proposal table=%v allow-list=%v one stream proposes %v (the first %d dial(s) of each target are refused)", c.Table, c.List, c.Proposed, c.RefuseN)
}

func multiCases() []MultiCase {
	var out []MultiCase
	table, list := []string{"a", "b", "ab"}, []string{"a", "b"}
	for _, refuse := range []int{0, 1, 2} {
		for _, first := range []string{"a", "b", "zz", "ab"} {
			for _, second := range []string{"zz", "", "A", "a2", "ab", "b", "a"} {
				if first == second {
					continue
				}
				out = append(out, MultiCase{"multi-proposal", table, list, []string{first, second}, refuse})
			}
		}
		out = append(out, MultiCase{"multi-proposal", table, list, []string{"a", "zz", "ab"}, refuse})
		out = append(out, MultiCase{"multi-proposal", table, list, []string{"zz", "a", "ab"}, refuse})
	}
	return out
}

func executeMulti(t *testing.T, c MultiCase) (kind, detail string) {
	res := bubble.Run(t, func() {
		w, err := world.New(world.Options{Carrier: "stream", Channels: c.Table, AllowList: c.List, Keep: true})
		if err != nil {
			kind, detail = "setup", err.Error()
			return
		}
		for _, fc := range w.Chans {
			fc.RefuseN = c.RefuseN
		}
		raw, err := w.Listener.Dial()
		if err != nil {
			kind, detail = "setup", err.Error()
			return
		}
		hello := func(req, want string) bool {
			go raw.Write([]byte(req))
			got := ""
			for i := 0; i < 10 && !strings.Contains(got, "\r\n\r\n"); i++ {
				ch := make(chan string, 1)
				go func() { b := make([]byte, 4096); n, _ := raw.Read(b); ch <- string(b[:n]) }()
				bubble.Wait()
				select {
				case s := <-ch:
					got += s
				default:
					bubble.Advance(time.Second)
				}
			}
			return strings.Contains(got, want)
		}
		if !hello("X-SOCKETACE / HTTP/1.1\r\nAccepts-Protocol-Version: v2.0.0\r\n\r\n", " 200 ") || !hello("GET / HTTP/1.1\r\nConnection: upgrade\r\nUpgrade: socketace/v2.0.0\r\n\r\n", " 101 ") {
			kind, detail = "setup", "session handshake failed"
			return
		}
		sess, err := smux.Client(raw, smux.DefaultConfig())
		if err != nil {
			kind, detail = "setup", err.Error()
			return
		}
		st, err := sess.OpenStream()
		if err != nil {
			kind, detail = "setup", err.Error()
			return
		}
		var protos []string
		for _, p := range c.Proposed {
			protos = append(protos, "/"+p)
		}
		type sel struct {
			s   string
			err error
		}
		ch := make(chan sel, 1)
		go func() { s, err := ms.SelectOneOf(protos, st); ch <- sel{s, err} }()
		var got sel
		done := false
		for i := 0; i < 20 && !done; i++ {
			bubble.Wait()
			select {
			case got = <-ch:
				done = true
			default:
				bubble.Advance(time.Second)
			}
		}
		if !done {
			kind, detail = "negotiation-never-ends|multi-proposal", "SelectOneOf did not return within 20 fake seconds"
			return
		}
		marker := []byte("MULTI-PROPOSAL-MARKER")
		if got.err == nil {
			go st.Write(marker)
			bubble.Wait()
			bubble.Advance(time.Second)
			bubble.Wait()
		}
		reached := ""
		for _, fc := range w.Chans {
			for i := 0; i < fc.NumTargets(); i++ {
				if string(fc.Target(i).Bytes()) == string(marker) {
					reached += fc.ChName + " "
				}
			}
		}
		offered := func(n string) bool { return contains(c.Table, n) && (len(c.List) == 0 || contains(c.List, n)) }
		name := strings.TrimPrefix(got.s, "/")
		switch {
		case got.err == nil && !offered(name):
			kind, detail = "exposed|unoffered-name-acknowledged|multi-proposal", fmt.Sprintf("the server acknowledged %q, which this endpoint does not offer; the marker reached target(s) [%s]", got.s, reached)
		case got.err == nil && reached != "" && strings.TrimSpace(reached) != name:
			kind, detail = "misrouted|multi-proposal", fmt.Sprintf("acknowledged %q but the bytes reached target(s) [%s]", got.s, reached)
		case got.err != nil && reached != "":
			kind, detail = "exposed|data-after-refusal|multi-proposal", fmt.Sprintf("no name was acknowledged (%v) yet the marker reached [%s]", got.err, reached)
		}
		_ = io.EOF
		sess.Close()
	})
	if kind == "" && res.Panic != "" {
		kind, detail = "panic|multi-proposal", res.Panic
	}
	return
}

func multiProposalCases(t *testing.T, r *mc.Run, base int) {
	for i, c := range multiCases() {
		idx := base + i
		if !r.Mine(idx) {
			continue
		}
		c := c
		var k, d string
		r.Guard(idx, 60*time.Second, "hang|multi-proposal", c.String(), c, func() { k, d = executeMulti(t, c) })
		r.Eval(1)
		r.Transition(len(c.Proposed) + 2)
		if k == "setup" {
			r.Inconclusive(c.String() + ": " + d)
			continue
		}
		r.State(mc.Hash("multi", c.String(), k))
		r.Nontrivial(mc.Hash(c.String()))
		if k != "" {
			r.Fail(k, fmt.Sprintf("%s: %s", c, d), len(c.Proposed), c)
		}
	}
}
