package c03

import (
	"fmt"
	"net"
	"sort"
	"time"

	"github.com/bokysan/socketace/v2/internal/client/upstream"
	"github.com/bokysan/socketace/v2/internal/server"
	"github.com/bokysan/socketace/v2/internal/util/addr"
	"github.com/bokysan/socketace/v2/internal/util/cert"
	"github.com/bokysan/socketace/v2/verifharness/bubble"
	"github.com/bokysan/socketace/v2/verifharness/world"
)

type cfgGetter struct{ m cert.TlsConfig }

func (c cfgGetter) CertManager() cert.TlsConfig { return c.m }

func freePort() int {
	l, err := net.Listen("tcp", "127.0.0.1:0")
	if err != nil {
		return 0
	}
	defer l.Close()
	return l.Addr().(*net.TCPAddr).Port
}

func wiringCases() []Case {
	var out []Case
	for _, l1 := range [][]string{{}, {"a"}, {"b"}, {"a", "b"}} {
		for _, l2 := range [][]string{{}, {"a"}, {"b"}} {
			out = append(out, Case{Front: "ws", Wiring: "http", Table: []string{"a", "b", "ab"}, List: l1, List2: l2})
		}
		out = append(out, Case{Front: "socket", Wiring: "socket", Table: []string{"a", "b", "ab"}, List: l1})
	}
	return out
}

// executeWiring: the REAL Startup of HttpServer (two websocket paths) / SocketServer on a
// loopback port and the real Http / Socket upstreams, in real time. Binds "Startup applies
// the filter it computed, per endpoint". Value oracle: which fake target was dialled.
func executeWiring(c Case) (kind, detail string) {
	bubble.SetupLogging()
	defer func() {
		if p := recover(); p != nil {
			kind, detail = "panic", fmt.Sprint(p)
		}
	}()
	var chans server.Channels
	fakes := map[string]*world.FakeChannel{}
	for _, n := range c.Table {
		f := &world.FakeChannel{ChName: n, Keep: true, BufLimit: 65536}
		fakes[n] = f
		chans = append(chans, f)
	}
	port := freePort()
	host := fmt.Sprintf("127.0.0.1:%d", port)
	var srv server.Server
	paths := map[string][]string{}
	if c.Wiring == "http" {
		h := server.NewHttpServer()
		h.Address = addr.MustParseAddress("http://" + host)
		h.Endpoints = server.WebsocketEndpointList{{Endpoint: "/ws1", Channels: c.List}, {Endpoint: "/ws2", Channels: c.List2}}
		srv = h
		paths["http://"+host+"/ws1"] = c.List
		paths["http://"+host+"/ws2"] = c.List2
	} else {
		s := server.NewSocketServer()
		s.Address = addr.MustParseAddress("tcp://" + host)
		s.Channels = c.List
		srv = s
		paths["tcp://"+host] = c.List
	}
	if err := srv.Startup(chans); err != nil {
		return "inconclusive", "startup: " + err.Error()
	}
	defer srv.Shutdown()
	time.Sleep(50 * time.Millisecond)
	var urls []string
	for u := range paths {
		urls = append(urls, u)
	}
	sort.Strings(urls)
	for _, u := range urls {
		list := paths[u]
		ups := &upstream.Upstreams{}
		if err := ups.UnmarshalFlag(u); err != nil {
			return "inconclusive", err.Error()
		}
		for _, name := range []string{"a", "b", "ab", "zz", "A"} {
			before := map[string]int{}
			for n, f := range fakes {
				before[n] = f.NumTargets()
			}
			type res struct {
				err error
			}
			done := make(chan res, 1)
			go func() {
				st, err := ups.Connect(cfgGetter{&cert.ClientConfig{}}, name)
				if err == nil {
					st.Write([]byte("x"))
				}
				done <- res{err}
			}()
			var r res
			select {
			case r = <-done:
			case <-time.After(15 * time.Second):
				return "inconclusive", fmt.Sprintf("request for %q via %s did not finish within 15 s real time", name, u)
			}
			time.Sleep(30 * time.Millisecond)
			var got []string
			for n, f := range fakes {
				for i := before[n]; i < f.NumTargets(); i++ {
					got = append(got, n)
				}
			}
			sort.Strings(got)
			want := route(c.Table, list, name)
			if want == "" && len(got) > 0 {
				return "exposed|" + classify(c.Table, list, name) + "|real-startup", fmt.Sprintf("request for %q via %s (allow-list %v) must be refused but target(s) %v were dialled", name, u, list, got)
			}
			if want != "" && (len(got) != 1 || got[0] != want) {
				if r.err != nil && len(got) == 0 {
					return "inconclusive", fmt.Sprintf("request for %q via %s failed: %v", name, u, r.err)
				}
				return "misrouted|" + classify(c.Table, list, name) + "|real-startup", fmt.Sprintf("request for %q via %s must reach %q, dialled %v", name, u, want, got)
			}
		}
		ups.Shutdown()
	}
	return "", ""
}
