// C03 — channel routing and exposure control.
//
// Engine S over the real accept path (inside a bubble only to decide "no outbound
// connection" at quiescence): every channel table over {a, ab, A, b} x every allow-list over
// the same names plus an unknown one x requested names (configured, unlisted, unknown,
// prefixes / extensions / case variants, empty, with separators) on the socket-style front
// end (AcceptConnection after Channels.Filter) and on the websocket front end with two
// paths carrying independent allow-lists; then pairs of requests whose negotiations overlap
// on one session (the server's answer to the first held until the second was heard). A wiring pass drives the real HttpServer.Startup
// and SocketServer.Startup on loopback sockets for a reduced table.
package c03

import (
	"fmt"
	"sort"
	"strings"
	"testing"
	"time"

	"github.com/bokysan/socketace/v2/verifharness/bubble"
	"github.com/bokysan/socketace/v2/verifharness/mc"
	"github.com/bokysan/socketace/v2/verifharness/netsim"
	"github.com/bokysan/socketace/v2/verifharness/world"
)

var names = []string{"a", "ab", "A", "b"}
var requested = []string{"a", "ab", "A", "b", "", "abc", "aB", "AB", "/a", "a/", "a\n", "zz", "ls", "b ", " b"}

type Case struct {
	Front  string   `json:"front"` // socket | ws
	Table  []string `json:"table"`
	List   []string `json:"list"`
	List2  []string `json:"list2,omitempty"` // ws: allow-list of the second path
	Wiring string   `json:"wiring,omitempty"`
	Pairs  bool     `json:"pairs,omitempty"` // after the single requests: pairs of requests issued together
}

func (c Case) String() string {
	p := ""
	if c.Pairs {
		p = " pairs-at-once"
	}
	if c.Wiring != "" {
		p += " wiring=" + c.Wiring
	}
	return fmt.Sprintf("%s table=%v list=%v list2=%v%s", c.Front, c.Table, c.List, c.List2, p)
}

func subsets(xs []string) [][]string {
	var out [][]string
	for m := 0; m < 1<<len(xs); m++ {
		var s []string
		for i, x := range xs {
			if m&(1<<i) != 0 {
				s = append(s, x)
			}
		}
		out = append(out, s)
	}
	return out
}

func contains(xs []string, x string) bool {
	for _, y := range xs {
		if y == x {
			return true
		}
	}
	return false
}

// route is the reference model: the channel the request must reach, or "" for refusal.
func route(table, list []string, name string) string {
	if !contains(table, name) {
		return ""
	}
	if len(list) == 0 || contains(list, name) {
		return name
	}
	return ""
}

type failure struct{ kind, detail string }

// runRequests opens one logical connection per requested name through ups-path `path` and
// compares with the model.
func runRequests(w *world.World, path string, table, list []string, phase string) *failure {
	ups := w.NewClientPath(path)
	counts := func() map[string]int {
		m := map[string]int{}
		for _, c := range w.Chans {
			m[c.ChName] = c.NumTargets()
		}
		return m
	}
	for _, name := range requested {
		before := counts()
		app := w.OpenAppVia(ups, name, nil)
		payload := []byte("hello-" + fmt.Sprintf("%q", name))
		app.StartWrite(payload)
		bubble.Wait()
		bubble.Advance(2 * time.Second)
		after := counts()
		want := route(table, list, name)
		var got []string
		for ch, n := range after {
			for i := before[ch]; i < n; i++ {
				got = append(got, ch)
			}
		}
		sort.Strings(got)
		switch {
		case want == "" && len(got) > 0:
			return &failure{"exposed|" + classify(table, list, name), fmt.Sprintf("%s: request for %q must be refused (table %v, allow-list %v) but the server connected to target(s) %v", phase, name, table, list, got)}
		case want != "" && (len(got) != 1 || got[0] != want):
			return &failure{"misrouted|" + classify(table, list, name), fmt.Sprintf("%s: request for %q must reach exactly target %q, server connected to %v (front=%q)", phase, name, want, got, w.Front.Err)}
		}
		if want != "" {
			tg := w.Chan(want).Target(after[want] - 1)
			if string(tg.Bytes()) != string(payload) {
				return &failure{"no-data-path|" + classify(table, list, name), fmt.Sprintf("%s: request for %q reached target %q but the bytes did not (%q)", phase, name, want, tg.Bytes())}
			}
		} else {
			if o := app.Obs(); !o.EOF && o.Err == "" {
				return &failure{"refusal-not-signalled|" + classify(table, list, name), fmt.Sprintf("%s: request for %q was not connected anywhere but the requester's connection is still open", phase, name)}
			}
		}
		app.Close()
		bubble.Wait()
	}
	return nil
}

// runPairs requests two names on ONE established session such that their negotiations
// overlap on the server: the session is warmed up with one request; then the next write of
// the server's carrier end is held (its data is delivered, the call does not return); the
// first request is issued and reaches the point where the server answers it (held); the
// second request is issued and heard by the server; the hold is released. What one request
// carries must not decide where the other one goes. Every step is taken at quiescence, so
// the overlap does not depend on goroutine scheduling.
var pairsRun int // sessions driven by runPairs in the current execution

func runPairs(w *world.World, path string, table, list []string, phase string, lastSrv **netsim.MemConn) *failure {
	var pool []string
	for _, n := range names {
		if route(table, list, n) != "" {
			pool = append(pool, n)
		}
	}
	if len(pool) == 0 {
		return nil
	}
	others := append(append([]string{}, names...), "zz")
	for _, n1 := range pool {
		for _, n2 := range others {
			if n1 == n2 {
				continue
			}
			for _, swap := range []bool{false, true} {
				pair := []string{n1, n2}
				if swap {
					pair = []string{n2, n1}
				}
				pairsRun++
				*lastSrv = nil
				ups := w.NewClientPath(path)
				warm := w.OpenAppVia(ups, n1, nil)
				warm.StartWrite([]byte("warm-up"))
				bubble.Wait()
				warm.Close()
				bubble.Wait()
				if *lastSrv == nil {
					return &failure{"setup", "no carrier connection was dialled for the session"}
				}
				release := (*lastSrv).HoldNextWriteReturn()
				before := map[string]int{}
				for _, c := range w.Chans {
					before[c.ChName] = c.NumTargets()
				}
				var apps []*world.Endpoint
				for _, name := range pair {
					app := w.OpenAppVia(ups, name, nil)
					app.StartWrite([]byte("pair-" + fmt.Sprintf("%q", name)))
					apps = append(apps, app)
					bubble.Wait()
				}
				release()
				bubble.Wait()
				bubble.Advance(2 * time.Second)
				want := map[string][]string{} // channel -> payloads that must arrive there
				for _, name := range pair {
					if ch := route(table, list, name); ch != "" {
						want[ch] = append(want[ch], "pair-"+fmt.Sprintf("%q", name))
					}
				}
				for _, c := range w.Chans {
					var got []string
					for i := before[c.ChName]; i < c.NumTargets(); i++ {
						got = append(got, string(c.Target(i).Bytes()))
					}
					sort.Strings(got)
					exp := append([]string{}, want[c.ChName]...)
					sort.Strings(exp)
					if fmt.Sprint(got) != fmt.Sprint(exp) {
						kind := "misrouted"
						if len(got) > len(exp) {
							kind = "exposed"
						}
						return &failure{kind + "|overlapping-requests", fmt.Sprintf("%s: requests %q overlapping on one session (the server's answer to the first one held until the second one was heard; table %v, allow-list %v): target %q got connections carrying %q, must be %q (front=%q)", phase, pair, table, list, c.ChName, got, exp, w.Front.Err)}
					}
				}
				for _, a := range apps {
					a.Close()
				}
				bubble.Wait()
			}
		}
	}
	return nil
}

func classify(table, list []string, name string) string {
	switch {
	case contains(table, name) && len(list) > 0 && !contains(list, name):
		return "configured-but-not-allowed"
	case contains(table, name):
		return "configured"
	}
	for _, t := range table {
		if strings.EqualFold(t, name) {
			return "case-variant"
		}
		if strings.HasPrefix(t, name) || strings.HasPrefix(name, t) {
			return "prefix-or-extension"
		}
	}
	return "unknown"
}

func execute(t *testing.T, c Case) (kind, detail string, startupRefused bool) {
	res := bubble.Run(t, func() {
		o := world.Options{Carrier: "stream", Channels: c.Table, AllowList: c.List, Keep: true}
		var lastSrv *netsim.MemConn // the server's end of the carrier connection dialled last
		o.OnDial = func(_, sv *netsim.MemConn) { lastSrv = sv }
		if c.Front == "ws" {
			o.Carrier = "ws"
			l2 := c.List2
			o.AllowList2 = &l2
		}
		w, err := world.New(o)
		if err != nil {
			// the endpoint refuses to start (an allow-list naming something that is not configured):
			// nothing is exposed
			startupRefused = true
			return
		}
		if f := runRequests(w, "", c.Table, c.List, "path /ws"); f != nil {
			kind, detail = f.kind, f.detail
			return
		}
		if c.Pairs {
			if f := runPairs(w, "", c.Table, c.List, "path /ws", &lastSrv); f != nil {
				kind, detail = f.kind, f.detail
			}
			return
		}
		if c.Front == "ws" {
			if f := runRequests(w, "/ws2", c.Table, c.List2, "path /ws2"); f != nil {
				kind, detail = f.kind+"|second-path", f.detail
				return
			}
			// and the first path again, after the second one has been used
			if f := runRequests(w, "/ws", c.Table, c.List, "path /ws again"); f != nil {
				kind, detail = f.kind+"|first-path-again", f.detail
			}
		}
	})
	if res.Panic != "" {
		kind, detail = "panic", res.Panic
	}
	return
}

func cases(thorough bool) []Case {
	var out []Case
	tables := subsets(names)[1:]
	lists := subsets(append(append([]string{}, names...), "zz"))
	if !thorough {
		// quick: every table with every allow-list drawn from the configured names + the unknown one
		// is 15 x 32 = 480 worlds; keep all for the socket front, a product-reduced set for ws
	}
	_ = lists
	for _, tb := range tables {
		seen := map[string]bool{}
		add := func(l []string) {
			k := strings.Join(l, ",")
			if !seen[k] {
				seen[k] = true
				out = append(out, Case{Front: "socket", Table: tb, List: l})
			}
		}
		// every allow-list drawn from the configured names (these endpoints start), and each of
		// them extended by one name that is not configured (these must refuse to start or, if they
		// start, expose nothing beyond the model)
		// degenerate allow-lists: blank and padded names are names like any other (not configured)
		add([]string{""})
		add([]string{" "})
		add([]string{"", ""})
		add([]string{tb[0], ""})
		add([]string{" " + tb[0] + " "})
		add([]string{"\t"})
		// repeated names, and orders other than the table's: a list is a set of names
		add([]string{tb[0], tb[0]})
		if len(tb) >= 2 {
			add([]string{tb[0], tb[0], tb[1]})
			add([]string{tb[1], tb[0], tb[1]})
			add([]string{tb[1], tb[0]})
			add([]string{tb[len(tb)-1], tb[0], tb[0]})
		}
		if len(tb) >= 3 {
			add([]string{tb[2], tb[0], tb[1]})
			add([]string{tb[1], tb[1], tb[2], tb[0]})
			add([]string{tb[0], tb[1], tb[0], tb[2], tb[1]})
		}
		for _, l := range subsets(tb) {
			add(l)
			for _, extra := range append(append([]string{}, names...), "zz") {
				if !contains(tb, extra) {
					add(append(append([]string{}, l...), extra))
				}
			}
		}
	}
	// pairs of requests issued together on one session, per table, with the empty allow-list, the
	// full one and every single-name one
	for _, front := range []string{"socket", "ws"} {
		for _, tb := range tables {
			if len(tb) < 2 && !thorough {
				continue
			}
			ls := [][]string{{}}
			for _, n := range tb {
				ls = append(ls, []string{n})
			}
			if thorough {
				ls = subsets(tb)
			}
			for _, l := range ls {
				out = append(out, Case{Front: front, Table: tb, List: l, List2: []string{}, Pairs: true})
			}
		}
	}
	wsTables := [][]string{{"a", "b"}, {"a", "ab", "A", "b"}, {"ab", "A"}}
	wsLists := [][]string{{}, {"a"}, {"b"}, {"a", "b"}, {"ab"}, {"A"}, {"ab", "A"}}
	if thorough {
		wsTables = tables
		wsLists = lists
	}
	for _, tb := range wsTables {
		for _, l1 := range wsLists {
			for _, l2 := range wsLists {
				out = append(out, Case{Front: "ws", Table: tb, List: l1, List2: l2})
			}
		}
	}
	return out
}

func TestCheck(t *testing.T) {
	r := mc.New(t, "C03")
	defer r.Finish()
	r.CrashFails = true
	record := func(c Case, kind, detail string, refused bool) {
		if c.Pairs {
			r.Eval(pairsRun)
			r.Transition(pairsRun * 3)
			pairsRun = 0
		} else {
			r.Eval(len(requested))
			r.Transition(len(requested) * 2)
		}
		r.State(mc.Hash(c.String(), kind, refused))
		if len(c.List) > 0 || len(c.List2) > 0 {
			r.Nontrivial(mc.Hash(c.String()))
		}
		if kind != "" {
			r.Fail(kind+"|"+c.Front, fmt.Sprintf("%s: %s", c, detail), len(c.Table)*10+len(c.List)+len(c.List2), c)
		}
	}
	if r.Replay != nil {
		var c Case
		r.DecodeReplay(&c)
		var fam struct {
			Family string `json:"family"`
		}
		r.DecodeReplay(&fam)
		if fam.Family == "multi-proposal" {
			var mcse MultiCase
			r.DecodeReplay(&mcse)
			k, d := executeMulti(t, mcse)
			r.Eval(1)
			if k != "" && k != "setup" {
				r.Fail(k, fmt.Sprintf("%s: %s", mcse, d), len(mcse.Proposed), mcse)
			}
			return
		}
		if strings.HasPrefix(c.Wiring, "program-") {
			k, d := executeProgramWiring(c)
			if k == "inconclusive" {
				r.Inconclusive(c.String() + ": " + d)
				return
			}
			record(c, k, d, false)
			return
		}
		if strings.HasPrefix(c.Wiring, "config-") {
			k, d := executeConfigWiring(c)
			if k == "inconclusive" {
				r.Inconclusive(c.String() + ": " + d)
				return
			}
			record(c, k, d, false)
			return
		}
		if c.Wiring != "" {
			k, d := executeWiring(c)
			record(c, k, d, false)
			return
		}
		k, d, ref := execute(t, c)
		record(c, k, d, ref)
		return
	}
	all := cases(r.Thorough())
	refused := 0
	idx := 0
	for _, c := range all {
		if r.Mine(idx) {
			if r.OverBudget() {
				r.Cap(fmt.Sprintf("time budget reached at case %d of %d", idx, len(all)))
				break
			}
			var k, d string
			var ref bool
			r.Guard(idx, 120*time.Second, "hang|"+c.Front, c.String(), c, func() { k, d, ref = execute(t, c) })
			record(c, k, d, ref)
			if ref {
				refused++
			}
			if idx%173 == 0 {
				r.Sample(map[string]any{"case": c.String(), "startup_refused": ref, "requested_names": requested})
			}
			r.Progress(idx + 1)
		}
		idx++
	}
	for _, c := range wiringCases() {
		if r.Mine(idx) {
			k, d := executeWiring(c)
			if k == "inconclusive" {
				r.Inconclusive(c.String() + ": " + d)
				r.Eval(1)
			} else {
				record(c, k, d, false)
			}
		}
		idx++
	}
	for _, c := range configWiringCases() {
		if r.Mine(idx) {
			k, d := executeConfigWiring(c)
			for try := 0; try < 3 && k == "inconclusive" && strings.Contains(d, "in use"); try++ {
				k, d = executeConfigWiring(c) // another process took the port between probing and binding
			}
			if k == "inconclusive" {
				r.Inconclusive(c.String() + " " + c.Wiring + ": " + d)
				r.Eval(1)
			} else {
				record(c, k, d, false)
			}
		}
		idx++
	}
	multiProposalCases(t, r, idx+50000)
	for _, c := range programWiringCases() {
		if r.Mine(idx) {
			k, d := executeProgramWiring(c)
			for try := 0; try < 3 && k == "inconclusive" && strings.Contains(d, "in use"); try++ {
				k, d = executeProgramWiring(c)
			}
			if k == "inconclusive" {
				r.Inconclusive(c.String() + " " + c.Wiring + ": " + d)
				r.Eval(1)
			} else {
				record(c, k, d, false)
			}
		}
		idx++
	}
	r.Note("cases_total", len(all))
	r.Note("sum_startup_refused", refused)
}
