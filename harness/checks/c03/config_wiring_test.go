package c03

import (
	"encoding/json"
	"fmt"
	"net"
	"sort"
	"strings"
	"time"

	"github.com/bokysan/socketace/v2/internal/client/upstream"
	"github.com/bokysan/socketace/v2/internal/server"
	"github.com/bokysan/socketace/v2/internal/util/cert"
	"github.com/bokysan/socketace/v2/verifharness/bubble"
	"github.com/bokysan/socketace/v2/verifharness/world"
	"github.com/goccy/go-yaml"
)

func freeUDPPort() int {
	c, err := net.ListenPacket("udp", "127.0.0.1:0")
	if err != nil {
		return 0
	}
	defer c.Close()
	return c.LocalAddr().(*net.UDPAddr).Port
}

// configWiringCases: every server kind, configured the way the program is configured
// (server.Servers unmarshalled from JSON / YAML text), with an allow-list.
func configWiringCases() []Case {
	var out []Case
	for _, kind := range []string{"tcp", "ws", "udp", "dns"} {
		for _, form := range []string{"json", "yaml"} {
			for _, l := range [][]string{{}, {"a"}, {"b"}, {"a", "b"}} {
				out = append(out, Case{Front: kind, Wiring: "config-" + kind + "-" + form, Table: []string{"a", "b", "ab"}, List: l})
			}
		}
	}
	return out
}

// executeConfigWiring starts the server object that the real configuration parser builds
// from text (the allow-list arrives through the parser, not through a Go literal) on
// loopback, connects the real upstream for that carrier and requests configured, unlisted
// and unknown names. Value oracle: which fake target was dialled.
func executeConfigWiring(c Case) (kind, detail string) {
	bubble.SetupLogging()
	defer func() {
		if p := recover(); p != nil {
			kind, detail = "panic", fmt.Sprint(p)
		}
	}()
	parts := strings.Split(c.Wiring, "-")
	carrier, form := parts[1], parts[2]
	var chans server.Channels
	fakes := map[string]*world.FakeChannel{}
	for _, n := range c.Table {
		f := &world.FakeChannel{ChName: n, Keep: true, BufLimit: 65536}
		fakes[n] = f
		chans = append(chans, f)
	}
	list := c.List
	if list == nil {
		list = []string{}
	}
	entry := map[string]interface{}{}
	url := ""
	switch carrier {
	case "tcp":
		p := freePort()
		entry["address"], entry["channels"] = fmt.Sprintf("tcp://127.0.0.1:%d", p), list
		url = fmt.Sprintf("tcp://127.0.0.1:%d", p)
	case "ws":
		p := freePort()
		entry["address"] = fmt.Sprintf("http://127.0.0.1:%d", p)
		entry["endpoints"] = []interface{}{map[string]interface{}{"endpoint": "/ws1", "channels": list}}
		url = fmt.Sprintf("http://127.0.0.1:%d/ws1", p)
	case "udp":
		p := freeUDPPort()
		entry["address"], entry["channels"] = fmt.Sprintf("udp://127.0.0.1:%d", p), list
		url = fmt.Sprintf("udp://127.0.0.1:%d", p)
	case "dns":
		p := freeUDPPort()
		entry["address"], entry["domain"], entry["channels"] = fmt.Sprintf("dns://127.0.0.1:%d", p), "example.org", list
		url = fmt.Sprintf("dns://example.org?direct=false&dns=127.0.0.1:%d", p)
	}
	var servers server.Servers
	if form == "json" {
		b, _ := json.Marshal([]interface{}{entry})
		if err := servers.UnmarshalJSON(b); err != nil {
			return "inconclusive", "config rejected: " + err.Error()
		}
	} else {
		b, _ := yaml.Marshal([]interface{}{entry})
		if err := yaml.Unmarshal(b, &servers); err != nil {
			return "inconclusive", "config rejected: " + err.Error()
		}
	}
	if len(servers) != 1 {
		return "inconclusive", fmt.Sprintf("%d servers parsed", len(servers))
	}
	started := make(chan error, 1)
	go func() { started <- servers[0].Startup(chans) }()
	select {
	case err := <-started:
		if err != nil {
			return "inconclusive", "startup: " + err.Error()
		}
	case <-time.After(300 * time.Millisecond): // http Startup blocks while serving
	}
	defer servers[0].Shutdown()
	time.Sleep(300 * time.Millisecond) // listeners are bound asynchronously
	if carrier == "dns" {
		time.Sleep(1200 * time.Millisecond) // the DNS server installs its handler one second after it starts listening
	}
	ups := &upstream.Upstreams{}
	if err := ups.UnmarshalFlag(url); err != nil {
		return "inconclusive", err.Error()
	}
	defer ups.Shutdown()
	for _, name := range []string{"a", "b", "ab", "zz"} {
		before := map[string]int{}
		for n, f := range fakes {
			before[n] = f.NumTargets()
		}
		done := make(chan error, 1)
		go func() {
			st, err := ups.Connect(cfgGetter{&cert.ClientConfig{}}, name)
			if err == nil {
				st.Write([]byte("x"))
			}
			done <- err
		}()
		var rerr error
		select {
		case rerr = <-done:
		case <-time.After(40 * time.Second):
			return "inconclusive", fmt.Sprintf("request for %q via %s did not finish within 40 s real time", name, url)
		}
		time.Sleep(150 * time.Millisecond)
		var got []string
		for n, f := range fakes {
			for i := before[n]; i < f.NumTargets(); i++ {
				got = append(got, n)
			}
		}
		sort.Strings(got)
		want := route(c.Table, c.List, name)
		if want == "" && len(got) > 0 {
			return "exposed|" + classify(c.Table, c.List, name) + "|parsed-config|" + carrier, fmt.Sprintf("%s server built from %s text with allow-list %v: request for %q must be refused but target(s) %v were dialled", carrier, form, c.List, name, got)
		}
		if want != "" && (len(got) != 1 || got[0] != want) {
			if rerr != nil && len(got) == 0 {
				return "inconclusive", fmt.Sprintf("request for %q via %s failed: %v", name, url, rerr)
			}
			return "misrouted|" + classify(c.Table, c.List, name) + "|parsed-config|" + carrier, fmt.Sprintf("%s server built from %s text with allow-list %v: request for %q must reach %q, dialled %v", carrier, form, c.List, name, want, got)
		}
	}
	return "", ""
}
