// C18 — address schemes select the documented transport, or are rejected.
//
// Engine S: every documented scheme, its +tls variants and a neighbourhood of near misses x
// address forms x position {server address, channel address, upstream URL, listener spec}
// x input form {YAML file through the real YamlParser on a go-flags parser assembled as
// cmd/socketace/main.go does, JSON, command-line flag} are parsed by the real code and
// compared with a table taken from the README (scheme -> concrete type, TLS yes/no). A
// wiring pass starts the real servers / upstreams on private loopback / unix endpoints and
// observes whether the transport speaks TLS first.
package c18

import (
	"encoding/json"
	"fmt"
	"os"
	"path/filepath"
	"reflect"
	"strings"
	"testing"

	"github.com/bokysan/socketace/v2/internal/args"
	"github.com/bokysan/socketace/v2/internal/client/listener"
	"github.com/bokysan/socketace/v2/internal/client/upstream"
	cclient "github.com/bokysan/socketace/v2/internal/commands/client"
	cserver "github.com/bokysan/socketace/v2/internal/commands/server"
	scflags "github.com/bokysan/socketace/v2/internal/flags"
	"github.com/bokysan/socketace/v2/internal/server"
	"github.com/bokysan/socketace/v2/verifharness/bubble"
	"github.com/bokysan/socketace/v2/verifharness/mc"
	"github.com/jessevdk/go-flags"
)

type Case struct {
	Pos    string `json:"pos"`    // server | channel | upstream | listener
	Form   string `json:"form"`   // yaml | json | flag
	Scheme string `json:"scheme"`
	Rest   string `json:"rest"`   // what follows the scheme, e.g. "://127.0.0.1:1"
	Struct string `json:"struct"` // "" | missing-address | nonstring-address | empty-list | extra-tilde | missing-name | no-forward-scheme
}

func (c Case) String() string {
	return fmt.Sprintf("%s/%s %q%s", c.Pos, c.Form, c.Scheme+c.Rest, map[bool]string{true: " [" + c.Struct + "]", false: ""}[c.Struct != ""])
}

// ---- reference table (README) -------------------------------------------------------------

type expect struct {
	typ string
	tls bool
}

// documented: scheme (lower case) -> expectation; anything else must be a configuration error
var serverTable = map[string]expect{
	"http": {"*server.HttpServer", false}, "https": {"*server.HttpServer", true}, "ws": {"*server.HttpServer", false}, "wss": {"*server.HttpServer", true},
	"http+tls": {"*server.HttpServer", true}, "ws+tls": {"*server.HttpServer", true},
	"tcp": {"*server.SocketServer", false}, "tcp+tls": {"*server.SocketServer", true},
	"unix": {"*server.SocketServer", false}, "unix+tls": {"*server.SocketServer", true},
	"unixpacket": {"*server.SocketServer", false}, "unixpacket+tls": {"*server.SocketServer", true},
	"stdin": {"*server.IoServer", false}, "stdin+tls": {"*server.IoServer", true}, "stdio": {"*server.IoServer", false}, "stdio+tls": {"*server.IoServer", true},
	"udp": {"*server.PacketServer", false}, "udp4": {"*server.PacketServer", false}, "udp6": {"*server.PacketServer", false}, "unixgram": {"*server.PacketServer", false},
	"dns": {"*server.DnsServer", false}, "dns+udp": {"*server.DnsServer", false}, "dns+tcp": {"*server.DnsServer", false}, "dns+tcp+tls": {"*server.DnsServer", true},
}
var channelTable = map[string]expect{
	"tcp": {"*server.NetworkChannel", false}, "unix": {"*server.NetworkChannel", false}, "unixpacket": {"*server.NetworkChannel", false}, "socks": {"*server.SocksChannel", false},
}
var upstreamTable = map[string]expect{
	"http": {"*upstream.Http", false}, "https": {"*upstream.Http", true}, "ws": {"*upstream.Http", false}, "wss": {"*upstream.Http", true},
	"tcp": {"*upstream.Socket", false}, "tcp+tls": {"*upstream.Socket", true}, "unix": {"*upstream.Socket", false}, "unix+tls": {"*upstream.Socket", true},
	"unixpacket": {"*upstream.Socket", false}, "unixpacket+tls": {"*upstream.Socket", true},
	"stdin": {"*upstream.InputOutput", false}, "stdin+tls": {"*upstream.InputOutput", true},
	"udp": {"*upstream.Packet", false}, "udp4": {"*upstream.Packet", false}, "udp6": {"*upstream.Packet", false}, "unixgram": {"*upstream.Packet", false},
	"dns": {"*upstream.Dns", false}, "dns+udp": {"*upstream.Dns", false}, "dns+unixgram": {"*upstream.Dns", false},
}
var listenerTable = map[string]expect{
	"tcp": {"*listener.SocketListener", false}, "unix": {"*listener.SocketListener", false}, "unixpacket": {"*listener.SocketListener", false},
	"stdin": {"*listener.InputOutputListener", false}, "stdio": {"*listener.InputOutputListener", false},
}

func table(pos string) map[string]expect {
	switch pos {
	case "server":
		return serverTable
	case "channel":
		return channelTable
	case "upstream":
		return upstreamTable
	}
	return listenerTable
}

var nearMisses = []string{"", "TCP", "Tcp", "tcp4", "tcp6", "tls", "tls+tcp", "tcp+tls+tls", "tcp+", "+tls", "tcp+ssl", "tcps", "tcp+TLS", "HTTPS", "Wss", "htp", "httpss", "ftp", "file", "udp+tls", "stdin+", "std", "dns+tls", "dns+http", "unixgram+tls", "socks5", "socket", "x", "1tcp", "tcp tls", "tcp\ttls", "unix+tcp"}

// ---- building the parser as main.go does ------------------------------------------------------

type built struct {
	parser *flags.Parser
	srv    *cserver.Command
	cli    *cclient.Command
}

func newParser() (*built, error) {
	b := &built{parser: flags.NewNamedParser("socketace", flags.HelpFlag)}
	if _, err := b.parser.AddGroup("General", "General options", &args.General); err != nil {
		return nil, err
	}
	b.srv = cserver.NewCommand()
	if _, err := b.parser.AddCommand("server", "Run the server", "", b.srv); err != nil {
		return nil, err
	}
	b.cli = cclient.NewCommand()
	if _, err := b.parser.AddCommand("client", "Run the client", "", b.cli); err != nil {
		return nil, err
	}
	b.parser.CommandHandler = func(command flags.Commander, args []string) error { return nil }
	return b, nil
}

type outcome struct {
	err   string
	types []string
	panic string
}

func (o outcome) class() string {
	switch {
	case o.panic != "":
		return "panic"
	case o.err != "":
		return "error"
	}
	return strings.Join(o.types, ",")
}

var tmpDir string

func yq(s string) string { b, _ := json.Marshal(s); return string(b) }

// parse runs the real parsing code for one case.
func parse(c Case) (o outcome) {
	defer func() {
		if p := recover(); p != nil {
			o.panic = fmt.Sprint(p)
		}
	}()
	address := c.Scheme + c.Rest
	b, err := newParser()
	if err != nil {
		o.err = "harness: " + err.Error()
		return
	}
	collect := func() {
		switch c.Pos {
		case "server":
			for _, s := range b.srv.Servers {
				o.types = append(o.types, reflect.TypeOf(s).String())
			}
		case "channel":
			for _, s := range b.srv.Channels {
				o.types = append(o.types, reflect.TypeOf(s).String())
			}
		case "upstream":
			for _, s := range b.cli.Upstream.Data {
				o.types = append(o.types, reflect.TypeOf(s).String())
			}
		case "listener":
			for _, s := range b.cli.ListenList {
				if s == nil || reflect.ValueOf(s).IsNil() {
					o.types = append(o.types, "<nil listener>")
					continue
				}
				o.types = append(o.types, reflect.TypeOf(s).String())
			}
		}
	}
	switch c.Form {
	case "yaml":
		var y string
		item := func(key string) string {
			switch c.Struct {
			case "missing-address":
				return "    - name: x\n"
			case "nonstring-address":
				return "    - name: x\n      address: 42\n"
			case "empty-list":
				return ""
			}
			return "    - name: x\n      address: " + yq(address) + "\n"
		}
		switch c.Pos {
		case "server":
			y = "server:\n  servers:\n" + strings.Replace(item("address"), "    - name: x\n      ", "    - ", 1)
			if c.Struct == "missing-address" {
				y = "server:\n  servers:\n    - channels: [x]\n"
			}
			if c.Struct == "empty-list" {
				y = "server:\n  servers: []\n"
			}
		case "channel":
			y = "server:\n  channels:\n" + item("address")
			if c.Struct == "empty-list" {
				y = "server:\n  channels: []\n"
			}
		case "upstream":
			y = "client:\n  upstream:\n    - " + yq(address) + "\n"
		case "listener":
			y = "client:\n  listen:\n    - name: x\n      address: " + yq(address) + "\n"
		}
		f := filepath.Join(tmpDir, fmt.Sprintf("c-%d.yaml", os.Getpid()))
		if err := os.WriteFile(f, []byte(y), 0o600); err != nil {
			o.err = "harness: " + err.Error()
			return
		}
		if err := scflags.NewYamlParser(b.parser).ParseFile(f); err != nil {
			o.err = err.Error()
			return
		}
		collect()
	case "json":
		var err error
		obj := map[string]interface{}{"name": "x", "address": address}
		switch c.Struct {
		case "missing-address":
			delete(obj, "address")
		case "nonstring-address":
			obj["address"] = 42
		}
		js, _ := json.Marshal([]interface{}{obj})
		if c.Struct == "empty-list" {
			js = []byte("[]")
		}
		switch c.Pos {
		case "server":
			err = b.srv.Servers.UnmarshalJSON(js)
		case "channel":
			err = b.srv.Channels.UnmarshalJSON(js)
		case "upstream":
			err = b.cli.Upstream.UnmarshalFlag(address) // upstreams have no JSON form
		case "listener":
			one, _ := json.Marshal(obj)
			err = b.cli.ListenList.UnmarshalFlag(string(one))
		}
		if err != nil {
			o.err = err.Error()
			return
		}
		collect()
	case "flag":
		var argv []string
		switch c.Pos {
		case "server":
			js, _ := json.Marshal([]interface{}{map[string]interface{}{"address": address}})
			argv = []string{"server", "--server", string(js)}
		case "channel":
			// documented command-line syntax '<name>-><protocol>:<address>'
			argv = []string{"server", "--channel", "x->" + c.Scheme + strings.TrimPrefix(c.Rest, "://")}
			if strings.HasPrefix(c.Rest, "://") {
				argv = []string{"server", "--channel", "x->" + c.Scheme + ":" + strings.TrimPrefix(c.Rest, "://")}
			}
		case "upstream":
			argv = []string{"client", "--upstream", address}
		case "listener":
			spec := "x~" + address
			switch c.Struct {
			case "extra-tilde":
				spec = "x~" + address + "~tcp://127.0.0.1:9~zzz"
			case "missing-name":
				spec = "~" + address
			case "with-forward":
				spec = "x~" + address + "~tcp://127.0.0.1:9"
			case "no-tilde":
				spec = address
			}
			argv = []string{"client", "--upstream", "tcp://127.0.0.1:1", "--listen", spec}
		}
		if _, err := b.parser.ParseArgs(argv); err != nil {
			o.err = err.Error()
			return
		}
		collect()
	}
	return
}

func evalParse(r *mc.Run, c Case) {
	r.Eval(1)
	r.Transition(1)
	o := parse(c)
	r.State(mc.Hash(c.Pos, c.Form, o.class()))
	tab := table(c.Pos)
	exp, documented := tab[c.Scheme]
	_, caseVariant := tab[strings.ToLower(c.Scheme)]
	fail := func(sub, what string) {
		r.Fail(fmt.Sprintf("%s|%s/%s|%s", sub, c.Pos, c.Form, schemeClass(c)), fmt.Sprintf("%s: %s", c, what), len(c.Scheme)+len(c.Rest), c)
	}
	if o.panic != "" {
		fail("panic", "parsing panicked: "+o.panic)
		return
	}
	if c.Pos == "listener" && c.Form == "json" {
		// undocumented input form: a configuration error, or exactly one listener of the documented
		// kind; never a crash, an entry that is no listener, or another transport
		if o.err != "" {
			return
		}
		if c.Struct == "empty-list" {
			return
		}
		if len(o.types) == 1 && o.types[0] == "<nil listener>" {
			fail("accepted-without-a-listener", "a JSON object given as a listener specification was accepted, but the entry added to the listener list is nil (the client crashes when it starts its listeners)")
			return
		}
		if c.Struct != "" || !documented || len(o.types) != 1 || o.types[0] != exp.typ {
			fail("accepts-malformed", fmt.Sprintf("a JSON object given as a listener specification was accepted as %v", o.types))
		}
		return
	}
	if c.Struct != "" && c.Struct != "with-forward" {
		// structural neighbours: must be an error or (empty list) an empty configuration, never a crash
		if c.Struct == "empty-list" {
			return
		}
		if o.err == "" && c.Struct != "extra-tilde" && c.Struct != "missing-name" {
			fail("accepts-malformed", fmt.Sprintf("accepted as %v", o.types))
		}
		return
	}
	malformedRest := c.Rest == "" || c.Rest == ":" || c.Rest == "//127.0.0.1:1" || c.Rest == "://host:1:2" || strings.Contains(c.Rest, " ")
	switch {
	case documented && !malformedRest:
		if c.Pos == "channel" && c.Form == "flag" && c.Scheme == "socks" {
			return // the command-line channel syntax documents tcp/udp/unix only
		}
		if o.err != "" {
			if c.Pos == "channel" && c.Form == "flag" {
				fail("rejects-documented", "documented command-line channel syntax rejected: "+o.err)
			} else {
				fail("rejects-documented", "documented scheme rejected: "+o.err)
			}
			return
		}
		if len(o.types) != 1 || o.types[0] != exp.typ {
			fail("wrong-transport", fmt.Sprintf("parsed as %v, documented %s", o.types, exp.typ))
		}
	case !documented && caseVariant:
		// net/url lower-cases schemes: error, or exactly the transport of the lower-case form
		if o.err == "" && (len(o.types) != 1 || o.types[0] != tab[strings.ToLower(c.Scheme)].typ) {
			fail("wrong-transport", fmt.Sprintf("case variant parsed as %v", o.types))
		}
	case !documented:
		if o.err == "" {
			fail("accepts-unknown", fmt.Sprintf("unknown scheme accepted as %v", o.types))
		}
	}
}

func schemeClass(c Case) string {
	if c.Struct != "" {
		return c.Struct
	}
	if _, ok := table(c.Pos)[c.Scheme]; ok {
		return "documented:" + c.Scheme
	}
	return "undocumented"
}

func parseCases() []Case {
	var out []Case
	rests := []string{"://127.0.0.1:1", "://[::1]:1", ":///tmp/x.sock", "://", "", ":", "//127.0.0.1:1", "://host:1:2", "://server.example.com/ws/all"}
	for _, pos := range []string{"server", "channel", "upstream", "listener"} {
		tab := table(pos)
		var schemes []string
		for s := range tab {
			schemes = append(schemes, s)
		}
		// every scheme of every table is a near miss for the other positions
		for _, t := range []map[string]expect{serverTable, channelTable, upstreamTable, listenerTable} {
			for s := range t {
				if _, ok := tab[s]; !ok {
					schemes = append(schemes, s)
				}
			}
		}
		schemes = append(schemes, nearMisses...)
		seen := map[string]bool{}
		for _, s := range schemes {
			if seen[s] {
				continue
			}
			seen[s] = true
			for _, rest := range rests {
				for _, form := range []string{"yaml", "json", "flag"} {
					// (listeners have no documented JSON form, only name~listen[~forward]: a JSON object
					// given to --listen is judged leniently, see evalParse)
					out = append(out, Case{Pos: pos, Form: form, Scheme: s, Rest: rest})
				}
			}
		}
		for _, st := range []string{"missing-address", "nonstring-address", "empty-list"} {
			for _, form := range []string{"yaml", "json"} {
				if pos == "upstream" {
					continue
				}
				out = append(out, Case{Pos: pos, Form: form, Scheme: "tcp", Rest: "://127.0.0.1:1", Struct: st})
			}
		}
	}
	for _, st := range []string{"extra-tilde", "missing-name", "with-forward", "no-tilde"} {
		for _, s := range []string{"tcp", "stdin", "unix", "udp", "http"} {
			out = append(out, Case{Pos: "listener", Form: "flag", Scheme: s, Rest: "://127.0.0.1:1", Struct: st})
		}
	}
	return out
}

func TestCheck(t *testing.T) {
	bubble.SetupLogging()
	r := mc.New(t, "C18")
	defer r.Finish()
	work := os.Getenv("VERIF_WORK")
	if work == "" {
		work = os.TempDir()
	}
	tmpDir = filepath.Join(work, "tmp", fmt.Sprintf("c18-%d", os.Getpid()))
	os.MkdirAll(tmpDir, 0o700)
	defer os.RemoveAll(tmpDir)
	if r.Replay != nil {
		var probe struct {
			Wiring string `json:"wiring"`
		}
		r.DecodeReplay(&probe)
		if probe.Wiring != "" {
			var w WiringCase
			r.DecodeReplay(&w)
			evalWiring(r, w)
			return
		}
		var c Case
		r.DecodeReplay(&c)
		evalParse(r, c)
		return
	}
	all := parseCases()
	idx := 0
	for _, c := range all {
		if r.Mine(idx) {
			evalParse(r, c)
			if _, ok := table(c.Pos)[c.Scheme]; !ok || c.Struct != "" {
				r.Nontrivial(mc.Hash(c.String()))
			}
			if idx%977 == 0 {
				r.Sample(map[string]any{"case": c.String()})
			}
		}
		idx++
	}
	for _, w := range wiringCases() {
		if r.Mine(idx) {
			evalWiring(r, w)
			r.Nontrivial(mc.Hash(fmt.Sprintf("%+v", w)))
			r.Sample(map[string]any{"wiring": w})
		}
		idx++
	}
	r.Note("parse_cases", len(all))
	_ = server.Channels{}
	_ = upstream.Upstreams{}
	_ = listener.Listeners{}
}
