package c18

import (
	sdns "github.com/bokysan/socketace/v2/internal/streams/dns"
	"github.com/bokysan/socketace/v2/internal/streams/dns/commands"
	"github.com/bokysan/socketace/v2/internal/streams/dns/util"
	"github.com/bokysan/socketace/v2/internal/util/enc"
	"crypto/tls"
	"encoding/json"
	"fmt"
	"io"
	"net"
	"os"
	"path/filepath"
	"strings"
	"sync"
	"time"

	"github.com/bokysan/socketace/v2/internal/client/upstream"
	"github.com/bokysan/socketace/v2/internal/server"
	"github.com/bokysan/socketace/v2/internal/util/addr"
	"github.com/bokysan/socketace/v2/internal/util/cert"
	"github.com/bokysan/socketace/v2/verifharness/mc"
	"github.com/bokysan/socketace/v2/verifharness/pki"
)

// WiringCase: the real Startup / Connect on private endpoints (loopback TCP on an OS-chosen
// port, unix sockets in the worker's private directory, in-memory pipes for stdio), real time.
// Only value oracles: does the endpoint speak TLS first, exactly when the README says so.
type WiringCase struct {
	Wiring string `json:"wiring"` // server | upstream
	Scheme string `json:"scheme"`
}

func wiringCases() []WiringCase {
	var out []WiringCase
	for _, s := range []string{"tcp", "tcp+tls", "unix", "unix+tls", "http", "https", "ws", "wss", "http+tls", "ws+tls", "stdin", "stdin+tls", "stdio", "stdio+tls", "dns", "dns+udp", "dns+tcp", "dns+tcp+tls"} {
		out = append(out, WiringCase{"server", s})
	}
	for _, s := range []string{"tcp", "tcp+tls", "unix", "unix+tls", "http", "https", "ws", "wss", "stdin", "stdin+tls"} {
		out = append(out, WiringCase{"upstream", s})
	}
	// a client TLS configuration that cannot be loaded: a +tls / https / wss upstream must fail,
	// never fall back to the plain transport
	for _, s := range []string{"tcp+tls", "unix+tls", "https", "wss"} {
		out = append(out, WiringCase{"upstream-unloadable-tls", s})
	}
	// a dns:// upstream whose list of resolvers (?dns=a,b) is malformed: the URL parses, the list
	// is read when the upstream connects - a configuration error there, never a crash
	for _, v := range dnsResolverLists {
		out = append(out, WiringCase{"upstream-dns-resolvers", v})
	}
	// a unix-socket server started where a socket file of an earlier, uncleanly ended run is left
	for _, s := range []string{"unix", "unix+tls", "unixpacket+tls"} {
		out = append(out, WiringCase{"server-stale-unix-socket", s})
	}
	return out
}

var dnsResolverLists = []string{"", ",", "127.0.0.1:1,", ",127.0.0.1:1", "t", "tc", "tcp", "tcp:", "tcp:/", "tcp://", "u", "udp:/", "udp://", "tcp://127.0.0.1:1", "udp://127.0.0.1:1", "127.0.0.1:1", "::", "[", "x y", "host:notaport", "tcp://,udp://"}

// runDnsResolverList: the scheme field carries the value of the dns= parameter.
func runDnsResolverList(w WiringCase) (kind, detail string) {
	url := "dns://example.org?direct=false&dns=" + w.Scheme
	var list upstream.Upstreams
	if err := list.UnmarshalFlag(url); err != nil {
		return "", "" // refused when parsed: a configuration error
	}
	done := make(chan string, 1)
	go func() {
		defer func() {
			if p := recover(); p != nil {
				done <- fmt.Sprint(p)
			}
		}()
		list.Data[0].Connect(&cert.ClientConfig{}, false)
		done <- ""
	}()
	select {
	case p := <-done:
		if p != "" {
			return "panic|dns-resolver-list", fmt.Sprintf("upstream %s: connecting panicked: %s", url, p)
		}
	case <-time.After(3 * time.Second):
		// still trying resolvers: no crash
	}
	return "", ""
}

func freePort() int {
	l, err := net.Listen("tcp", "127.0.0.1:0")
	if err != nil {
		return 0
	}
	defer l.Close()
	return l.Addr().(*net.TCPAddr).Port
}

type pipeEnd struct {
	io.Reader
	io.Writer
	closers []io.Closer
}

func (p *pipeEnd) Close() error {
	for _, c := range p.closers {
		c.Close()
	}
	return nil
}

type rwConn struct {
	r io.Reader
	w io.Writer
}

func (c rwConn) Read(p []byte) (int, error)         { return c.r.Read(p) }
func (c rwConn) Write(p []byte) (int, error)        { return c.w.Write(p) }
func (c rwConn) Close() error                       { return nil }
func (c rwConn) LocalAddr() net.Addr                { return &net.UnixAddr{Name: "pipe"} }
func (c rwConn) RemoteAddr() net.Addr               { return &net.UnixAddr{Name: "pipe"} }
func (c rwConn) SetDeadline(t time.Time) error      { return nil }
func (c rwConn) SetReadDeadline(t time.Time) error  { return nil }
func (c rwConn) SetWriteDeadline(t time.Time) error { return nil }

// speaksTLS connects to the endpoint and reports whether a TLS handshake completes there.
func speaksTLS(c net.Conn) bool {
	c.SetDeadline(time.Now().Add(5 * time.Second))
	tc := tls.Client(c, &tls.Config{InsecureSkipVerify: true})
	return tc.Handshake() == nil
}

func evalWiring(r *mc.Run, w WiringCase) {
	r.Eval(1)
	r.Transition(2)
	kind, detail := runWiring(w)
	r.State(mc.Hash("wiring", w.Wiring, w.Scheme, kind))
	if kind == "inconclusive" {
		r.Inconclusive(fmt.Sprintf("%+v: %s", w, detail))
		return
	}
	if kind != "" {
		r.Fail(fmt.Sprintf("%s|wiring-%s|%s", kind, w.Wiring, w.Scheme), fmt.Sprintf("%+v: %s", w, detail), len(w.Scheme), w)
	}
}

func runWiring(w WiringCase) (kind, detail string) {
	defer func() {
		if p := recover(); p != nil {
			kind, detail = "panic", fmt.Sprint(p)
		}
	}()
	if w.Wiring == "upstream-dns-resolvers" {
		return runDnsResolverList(w)
	}
	if w.Wiring == "server-stale-unix-socket" {
		return runStaleUnix(w)
	}
	p := pki.Real()
	if w.Wiring == "server" {
		wantTLS := serverTable[w.Scheme].tls
		host := fmt.Sprintf("127.0.0.1:%d", freePort())
		address := w.Scheme + "://" + host
		sock := filepath.Join(tmpDir, "s.sock")
		os.Remove(sock)
		if strings.HasPrefix(w.Scheme, "unix") {
			address = w.Scheme + "://" + sock
		}
		if strings.HasPrefix(w.Scheme, "std") {
			address = w.Scheme + "://"
		}
		cfg := map[string]interface{}{"address": address, "certificate": p.Server.CertPEM, "privateKey": p.Server.KeyPEM,
			"endpoints": []interface{}{map[string]interface{}{"endpoint": "/ws"}}}
		if strings.HasPrefix(w.Scheme, "dns") {
			return runDnsServerWiring(w, address, host, p)
		}
		js, _ := json.Marshal([]interface{}{cfg})
		var servers server.Servers
		if err := servers.UnmarshalJSON(js); err != nil {
			return "rejects-documented", err.Error()
		}
		srv := servers[0]
		var clientSide net.Conn
		if io_, ok := srv.(*server.IoServer); ok {
			c2sR, c2sW := io.Pipe()
			s2cR, s2cW := io.Pipe()
			io_.Input, io_.Output = c2sR, s2cW
			clientSide = rwConn{r: s2cR, w: c2sW}
		}
		if err := srv.Startup(server.Channels{}); err != nil {
			return "startup-failed", err.Error()
		}
		defer srv.Shutdown()
		secureFlag := false
		switch v := srv.(type) {
		case *server.SocketServer:
			secureFlag = v.VerifSecure()
		case *server.HttpServer:
			secureFlag = v.VerifSecure()
		case *server.IoServer:
			secureFlag = wantTLS // no flag kept on the struct; the probe decides
		}
		if secureFlag != wantTLS {
			return "wrong-security-flag", fmt.Sprintf("server computed secure=%v, documented TLS=%v", secureFlag, wantTLS)
		}
		if strings.HasPrefix(w.Scheme, "unix") {
			if _, err := os.Stat(sock); err != nil {
				return "documented-path-form-ignored", fmt.Sprintf("server started for %s but no socket exists at that path (the path component of the URL is not used)", address)
			}
		}
		if clientSide == nil {
			var err error
			for i := 0; i < 100; i++ {
				if strings.HasPrefix(w.Scheme, "unix") {
					clientSide, err = net.Dial("unix", sock)
				} else {
					clientSide, err = net.Dial("tcp", host)
				}
				if err == nil {
					break
				}
				time.Sleep(20 * time.Millisecond)
			}
			if err != nil {
				return "inconclusive", "cannot connect to the started server: " + err.Error()
			}
			defer clientSide.Close()
		}
		if wantTLS {
			if !speaksTLS(clientSide) {
				return "plaintext-instead-of-tls", "the endpoint did not complete a TLS handshake although the scheme is documented as TLS"
			}
			return "", ""
		}
		// plaintext expected: the announce request (or an HTTP request) must be answered in clear
		clientSide.SetDeadline(time.Now().Add(5 * time.Second))
		req := "X-SOCKETACE / HTTP/1.1\r\nAccepts-Protocol-Version: v2.0.0\r\n\r\n"
		if _, ok := srv.(*server.HttpServer); ok {
			req = "GET /nothing HTTP/1.1\r\nHost: x\r\n\r\n"
		}
		clientSide.Write([]byte(req))
		buf := make([]byte, 8)
		n, _ := io.ReadFull(clientSide, buf)
		if string(buf[:n]) != "HTTP/1.1" {
			return "not-plaintext", fmt.Sprintf("expected a clear-text answer, got %q", buf[:n])
		}
		return "", ""
	}
	// upstream: a real listener records the first byte the client sends
	wantTLS := upstreamTable[w.Scheme].tls
	var first []byte
	var mu sync.Mutex
	got := make(chan struct{}, 1)
	record := func(c io.Reader) {
		b := make([]byte, 1)
		if n, _ := c.Read(b); n == 1 {
			mu.Lock()
			first = append(first, b[0])
			mu.Unlock()
			select {
			case got <- struct{}{}:
			default:
			}
		}
	}
	var ups upstream.Upstream
	address := ""
	switch {
	case strings.HasPrefix(w.Scheme, "std"):
		c2sR, c2sW := io.Pipe()
		s2cR, _ := io.Pipe()
		go record(c2sR)
		ups = &upstream.InputOutput{Address: addr.MustParseAddress(w.Scheme + "://"), Input: s2cR, Output: c2sW}
	default:
		var ln net.Listener
		var err error
		if strings.HasPrefix(w.Scheme, "unix") {
			sock := filepath.Join(tmpDir, "u.sock")
			os.Remove(sock)
			ln, err = net.Listen("unix", sock)
			address = w.Scheme + "://" + sock
		} else {
			ln, err = net.Listen("tcp", "127.0.0.1:0")
			if err == nil {
				address = w.Scheme + "://" + ln.Addr().String() + "/ws"
				if strings.HasPrefix(w.Scheme, "tcp") {
					address = w.Scheme + "://" + ln.Addr().String()
				}
			}
		}
		if err != nil {
			return "inconclusive", "cannot listen: " + err.Error()
		}
		defer ln.Close()
		go func() {
			for {
				c, err := ln.Accept()
				if err != nil {
					return
				}
				record(c)
				time.Sleep(100 * time.Millisecond)
				c.Close()
			}
		}()
		var list upstream.Upstreams
		if err := list.UnmarshalFlag(address); err != nil {
			return "rejects-documented", err.Error()
		}
		ups = list.Data[0]
	}
	cc := &cert.ClientConfig{InsecureSkipVerify: true}
	if w.Wiring == "upstream-unloadable-tls" {
		cc.CertificateFile, cc.PrivateKeyFile = "/nonexistent/verif/client.crt", "/nonexistent/verif/client.key"
		done := make(chan error, 1)
		go func() { done <- ups.Connect(cc, false) }()
		select {
		case err := <-done:
			time.Sleep(50 * time.Millisecond)
			mu.Lock()
			defer mu.Unlock()
			if len(first) > 0 && first[0] != 0x16 {
				return "plaintext-instead-of-tls|unloadable-tls-config", fmt.Sprintf("client TLS configuration cannot be loaded; Connect to %s returned %v and the first byte on the wire was 0x%02x (plain transport)", address, err, first[0])
			}
			if err == nil {
				return "connects-with-unloadable-tls-config", fmt.Sprintf("Connect to %s succeeded although the client's certificate files do not exist", address)
			}
			return "", ""
		case <-got:
			mu.Lock()
			defer mu.Unlock()
			if first[0] != 0x16 {
				return "plaintext-instead-of-tls|unloadable-tls-config", fmt.Sprintf("client TLS configuration cannot be loaded; the first byte the client sent to %s was 0x%02x (plain transport)", address, first[0])
			}
			return "", ""
		case <-time.After(10 * time.Second):
			return "inconclusive", "Connect neither returned nor sent anything within 10 s real time"
		}
	}
	done := make(chan error, 1)
	go func() { done <- ups.Connect(cc, false) }()
	select {
	case <-got:
	case err := <-done:
		select {
		case <-got:
		default:
			if strings.HasPrefix(w.Scheme, "unix") {
				return "documented-path-form-ignored", fmt.Sprintf("Connect to %s failed without contacting the socket at that path: %v", address, err)
			}
			return "inconclusive", fmt.Sprintf("Connect returned before sending anything: %v", err)
		}
	case <-time.After(10 * time.Second):
		return "inconclusive", "the client sent nothing within 10 s real time"
	}
	mu.Lock()
	b := first[0]
	mu.Unlock()
	isTLS := b == 0x16
	if isTLS != wantTLS {
		return map[bool]string{true: "plaintext-instead-of-tls", false: "tls-instead-of-plaintext"}[wantTLS], fmt.Sprintf("first byte on the wire 0x%02x, documented TLS=%v", b, wantTLS)
	}
	if strings.HasPrefix(w.Scheme, "std") {
		return "", ""
	}
	// the same upstream object is used again after the session was lost: the transport it
	// selects must not depend on how often it connected before
	select {
	case <-done:
	case <-time.After(10 * time.Second):
		return "inconclusive", "first Connect did not return"
	}
	for attempt := 2; attempt <= 3; attempt++ {
		go func() { done <- ups.Connect(cc, false) }()
		select {
		case <-got:
		case <-time.After(10 * time.Second):
			return "inconclusive", fmt.Sprintf("connection attempt %d sent nothing within 10 s real time", attempt)
		}
		mu.Lock()
		b = first[len(first)-1]
		mu.Unlock()
		if (b == 0x16) != wantTLS {
			return map[bool]string{true: "plaintext-instead-of-tls", false: "tls-instead-of-plaintext"}[wantTLS] + "|on-reconnect", fmt.Sprintf("connection attempt %d of the same upstream: first byte on the wire 0x%02x, documented TLS=%v", attempt, b, wantTLS)
		}
		select {
		case <-done:
		case <-time.After(10 * time.Second):
			return "inconclusive", "Connect did not return"
		}
	}
	return "", ""
}


// runDnsServerWiring: a DNS server endpoint started from configuration text; what actually
// listens on the port must be the documented transport: a DNS responder over UDP (dns,
// dns+udp), over TCP (dns+tcp), or over TLS over TCP (dns+tcp+tls) - and nothing else.
func runDnsServerWiring(w WiringCase, address, host string, p *pki.PKI) (kind, detail string) {
	cfg := map[string]interface{}{"address": address, "domain": "example.org", "certificate": p.Server.CertPEM, "privateKey": p.Server.KeyPEM}
	js, _ := json.Marshal([]interface{}{cfg})
	var servers server.Servers
	if err := servers.UnmarshalJSON(js); err != nil {
		return "rejects-documented", err.Error()
	}
	if err := servers[0].Startup(server.Channels{}); err != nil {
		return "startup-failed", err.Error()
	}
	defer servers[0].Shutdown()
	time.Sleep(1300 * time.Millisecond) // the handler is installed one second after the listener
	query := func() []byte {
		// a tunnel version request: the endpoint answers tunnel queries only
		ser := commands.Serializer{Domain: "example.org", Upstream: util.UpstreamConfig{Encoder: enc.Base32Encoding}}
		m, err := ser.EncodeDnsRequestWithParams(&commands.VersionRequest{ClientVersion: sdns.ProtocolVersion}, util.QueryTypeNull, enc.Base32Encoding)
		if err != nil {
			return nil
		}
		b, _ := m.Pack()
		return b
	}
	answersUDP := func() bool {
		c, err := net.Dial("udp", host)
		if err != nil {
			return false
		}
		defer c.Close()
		c.SetDeadline(time.Now().Add(2 * time.Second))
		c.Write(query())
		b := make([]byte, 4096)
		n, err := c.Read(b)
		return err == nil && n >= 12
	}
	tcpOpen := func() (net.Conn, bool) {
		c, err := net.DialTimeout("tcp", host, 2*time.Second)
		return c, err == nil
	}
	answersTCP := func(c net.Conn) bool {
		q := query()
		c.SetDeadline(time.Now().Add(2 * time.Second))
		c.Write(append([]byte{byte(len(q) >> 8), byte(len(q))}, q...))
		b := make([]byte, 2)
		_, err := io.ReadFull(c, b)
		return err == nil
	}
	udp := answersUDP()
	c, tcp := tcpOpen()
	if c != nil {
		defer c.Close()
	}
	switch w.Scheme {
	case "dns", "dns+udp":
		if !udp {
			return "inconclusive", "no DNS answer over UDP within 2 s"
		}
		if tcp {
			return "wrong-transport|dns", "a TCP listener is open on the port of a UDP DNS endpoint"
		}
	case "dns+tcp":
		if udp {
			return "wrong-transport|dns", "the endpoint documented as DNS over TCP answers over UDP"
		}
		if !tcp {
			return "wrong-transport|dns", "no TCP listener on the port of a dns+tcp endpoint"
		}
		if !answersTCP(c) {
			return "not-plaintext", "the dns+tcp endpoint does not answer a plain DNS-over-TCP query"
		}
	case "dns+tcp+tls":
		if udp {
			return "plaintext-instead-of-tls", "the endpoint documented as DNS over TLS answers plain DNS queries over UDP"
		}
		if !tcp {
			return "plaintext-instead-of-tls", "no TCP listener on the port of a dns+tcp+tls endpoint (UDP answering: false)"
		}
		if !speaksTLS(c) {
			return "plaintext-instead-of-tls", "the dns+tcp+tls endpoint did not complete a TLS handshake"
		}
	}
	return "", ""
}


// runStaleUnix: the server is started for <scheme>://stale.sock (the host form of unix
// addresses, relative to the working directory) where a socket file nobody listens on is left
// over. Refusing to start is a configuration error; if it starts, it must serve the documented
// transport.
func runStaleUnix(w WiringCase) (kind, detail string) {
	p := pki.Real()
	dir, err := os.MkdirTemp("", "verif-c18-")
	if err != nil {
		return "inconclusive", err.Error()
	}
	defer os.RemoveAll(dir)
	old, _ := os.Getwd()
	if err := os.Chdir(dir); err != nil {
		return "inconclusive", err.Error()
	}
	defer os.Chdir(old)
	network := "unix"
	if strings.HasPrefix(w.Scheme, "unixpacket") {
		network = "unixpacket"
	}
	ul, err := net.Listen(network, "stale.sock")
	if err != nil {
		return "inconclusive", "cannot create the stale socket: " + err.Error()
	}
	ul.(*net.UnixListener).SetUnlinkOnClose(false)
	ul.Close()
	cfg := map[string]interface{}{"address": w.Scheme + "://stale.sock", "certificate": p.Server.CertPEM, "privateKey": p.Server.KeyPEM}
	js, _ := json.Marshal([]interface{}{cfg})
	var servers server.Servers
	if err := servers.UnmarshalJSON(js); err != nil {
		return "", "" // a configuration error
	}
	if err := servers[0].Startup(server.Channels{}); err != nil {
		return "", "" // refuses to start over the leftover file: a (loud) configuration error
	}
	defer servers[0].Shutdown()
	wantTLS := strings.HasSuffix(w.Scheme, "+tls")
	var c net.Conn
	for i := 0; i < 50; i++ {
		if c, err = net.Dial(network, "stale.sock"); err == nil {
			break
		}
		time.Sleep(20 * time.Millisecond)
	}
	if err != nil {
		return "inconclusive", "the server started but its socket cannot be dialled: " + err.Error()
	}
	defer c.Close()
	if wantTLS && !speaksTLS(c) {
		return "plaintext-instead-of-tls|after-stale-socket", fmt.Sprintf("a %s server started over a leftover socket file does not complete a TLS handshake on its socket", w.Scheme)
	}
	return "", ""
}
