package c17

// Real-channel pass (real sockets, real time): the server's own channel kinds - a network
// channel dialling a real TCP service, and the socks channel (in-process SOCKS5 proxy over an
// in-memory pipe, which then dials the service) - instead of the harness's fake targets. The
// whole program is wired as configured (server Command from JSON, client Command from flags);
// the local application talks to a client listener over loopback TCP.
//
// Per case one side writes n bytes and closes; the other side must receive exactly those bytes
// and then end-of-stream. "Bounded time" is judged against a control: the same history through
// the network channel runs first and its duration T is measured; the channel under test is in
// violation only if end-of-stream has not arrived after max(20 s, 20 x T) although the control
// completed (a machine too slow for the control makes the case inconclusive).

import (
	"encoding/json"
	"fmt"
	"io"
	"net"
	"os"
	"strings"
	"sync"
	"time"

	clientcmd "github.com/bokysan/socketace/v2/internal/commands/client"
	servercmd "github.com/bokysan/socketace/v2/internal/commands/server"
	"github.com/bokysan/socketace/v2/verifharness/bubble"
	"github.com/bokysan/socketace/v2/verifharness/mc"
	"github.com/bokysan/socketace/v2/verifharness/world"
)

// svc is a real TCP service: per connection it either writes n bytes and closes ("target"
// closes first) or reads until end-of-stream and records what it got.
type svc struct {
	ln     net.Listener
	mode   string // "write-then-close" | "read-all"
	slow   bool   // read-all: the service consumes 16 KiB per millisecond
	n      int
	mu     sync.Mutex
	got    [][]byte
	eof    []bool
	closed []time.Time
}

func (s *svc) serve() {
	for {
		c, err := s.ln.Accept()
		if err != nil {
			return
		}
		go func() {
			defer c.Close()
			if s.mode == "write-then-close" {
				c.Write(world.Payload(0x61, 0, s.n))
				return
			}
			var b []byte
			var err error
			if s.slow {
				buf := make([]byte, 16384)
				for {
					var n int
					n, err = c.Read(buf)
					b = append(b, buf[:n]...)
					if err != nil {
						if err == io.EOF {
							err = nil
						}
						break
					}
					time.Sleep(time.Millisecond)
				}
			} else {
				b, err = io.ReadAll(c)
			}
			s.mu.Lock()
			s.got = append(s.got, b)
			s.eof = append(s.eof, err == nil)
			s.mu.Unlock()
		}()
	}
}

func freeTCPPort() int {
	l, err := net.Listen("tcp", "127.0.0.1:0")
	if err != nil {
		return 0
	}
	defer l.Close()
	return l.Addr().(*net.TCPAddr).Port
}

func socksConnect(conn net.Conn, to string) error {
	host, portS, _ := net.SplitHostPort(to)
	var pn int
	fmt.Sscanf(portS, "%d", &pn)
	conn.SetDeadline(time.Now().Add(20 * time.Second))
	defer conn.SetDeadline(time.Time{})
	if _, err := conn.Write([]byte{5, 1, 0}); err != nil {
		return err
	}
	rep := make([]byte, 2)
	if _, err := io.ReadFull(conn, rep); err != nil {
		return err
	}
	if rep[0] != 5 || rep[1] != 0 {
		return fmt.Errorf("socks greeting answered %v", rep)
	}
	ip := net.ParseIP(host).To4()
	conn.Write(append(append([]byte{5, 1, 0, 1}, ip...), byte(pn>>8), byte(pn)))
	rep = make([]byte, 10)
	if _, err := io.ReadFull(conn, rep); err != nil {
		return err
	}
	if rep[1] != 0 {
		return fmt.Errorf("socks connect answered %v", rep)
	}
	return nil
}

// executeRealChannel: c.Carrier = "real-network-channel" | "real-socks-channel".
func executeRealChannel(c Case) (kind, detail string) {
	bubble.SetupLogging()
	defer func() {
		if p := recover(); p != nil {
			kind, detail = "panic", fmt.Sprint(p)
		}
	}()
	mode := "read-all"
	if c.Closer == "target" {
		mode = "write-then-close"
	}
	ln, err := net.Listen("tcp", "127.0.0.1:0")
	if err != nil {
		return "slow", err.Error()
	}
	defer ln.Close()
	s := &svc{ln: ln, mode: mode, n: c.N, slow: c.Pos == "slow-reader"}
	go s.serve()
	srvPort := freeTCPPort()
	sc := servercmd.NewCommand()
	chans, _ := json.Marshal([]interface{}{
		map[string]interface{}{"name": "direct", "address": "tcp://" + ln.Addr().String()},
		map[string]interface{}{"name": "sox", "address": "socks://"},
	})
	if err := sc.Channels.UnmarshalJSON(chans); err != nil {
		return "setup", err.Error()
	}
	srvs, _ := json.Marshal([]interface{}{map[string]interface{}{"address": fmt.Sprintf("tcp://127.0.0.1:%d", srvPort)}})
	if err := sc.Servers.UnmarshalJSON(srvs); err != nil {
		return "setup", err.Error()
	}
	interrupted := make(chan os.Signal, 1)
	if err := sc.Startup(interrupted); err != nil {
		return "slow", "server startup: " + err.Error()
	}
	defer sc.Shutdown()
	time.Sleep(200 * time.Millisecond)
	cc := clientcmd.NewCommand()
	if err := cc.Upstream.UnmarshalFlag(fmt.Sprintf("tcp://127.0.0.1:%d", srvPort)); err != nil {
		return "setup", err.Error()
	}
	ports := map[string]int{"direct": freeTCPPort(), "sox": freeTCPPort()}
	for n, p := range ports {
		if err := cc.ListenList.UnmarshalFlag(fmt.Sprintf("%s~tcp://127.0.0.1:%d", n, p)); err != nil {
			return "setup", err.Error()
		}
	}
	if err := cc.Startup(interrupted); err != nil {
		return "slow", "client startup: " + err.Error()
	}
	defer cc.Shutdown()
	time.Sleep(100 * time.Millisecond)

	// one history through the named channel; returns how long it took, or what went wrong
	run := func(channel string, limit time.Duration) (took time.Duration, problem, what string) {
		t0 := time.Now()
		conn, err := net.DialTimeout("tcp", fmt.Sprintf("127.0.0.1:%d", ports[channel]), 5*time.Second)
		if err != nil {
			return 0, "slow", "dial listener: " + err.Error()
		}
		defer conn.Close()
		if channel == "sox" {
			if err := socksConnect(conn, ln.Addr().String()); err != nil {
				return 0, "slow", "socks connect: " + err.Error()
			}
		}
		if c.Closer == "target" {
			want := world.Payload(0x61, 0, c.N)
			conn.SetReadDeadline(time.Now().Add(limit))
			got, err := io.ReadAll(conn)
			if ne, ok := err.(net.Error); ok && ne.Timeout() {
				if len(got) < len(want) {
					return 0, "data-missing", fmt.Sprintf("the service wrote %d bytes and closed; the application has %d of them and no end-of-stream after %v", c.N, len(got), limit)
				}
				return 0, "no-eof", fmt.Sprintf("the service wrote %d bytes and closed; the application received all of them but no end-of-stream within %v", c.N, limit)
			}
			if string(got) != string(want) {
				return 0, "corrupt", fmt.Sprintf("the application received %d bytes (err %v), the service wrote %d", len(got), err, c.N)
			}
			return time.Since(t0), "", ""
		}
		// the application writes n bytes and closes
		before := 0
		s.mu.Lock()
		before = len(s.got)
		s.mu.Unlock()
		want := world.Payload(0x62, 0, c.N)
		if _, err := conn.Write(want); err != nil {
			return 0, "slow", "write: " + err.Error()
		}
		conn.Close()
		deadline := time.Now().Add(limit)
		for time.Now().Before(deadline) {
			s.mu.Lock()
			n := len(s.got)
			var got []byte
			if n > before {
				got = s.got[n-1]
			}
			s.mu.Unlock()
			if n > before {
				if string(got) != string(want) {
					s.mu.Lock()
					clean := s.eof[n-1]
					s.mu.Unlock()
					if !clean && len(got) < len(want) {
						return 0, "data-lost-before-eof", fmt.Sprintf("the application wrote %d bytes and closed; the service's connection was reset after %d of them instead of delivering the rest and end-of-stream", c.N, len(got))
					}
					return 0, "corrupt", fmt.Sprintf("the service received %d bytes before end-of-stream, the application wrote %d", len(got), c.N)
				}
				return time.Since(t0), "", ""
			}
			time.Sleep(5 * time.Millisecond)
		}
		return 0, "no-eof", fmt.Sprintf("the application wrote %d bytes and closed; the service saw no end-of-stream within %v", c.N, limit)
	}
	took, p, what := run("direct", 30*time.Second)
	if p != "" {
		if c.Carrier == "real-network-channel" && p != "slow" && p != "no-eof" && p != "data-missing" {
			return p + "|real-channel", what
		}
		return "slow", "control (network channel): " + p + ": " + what
	}
	if c.Carrier == "real-network-channel" {
		return "", ""
	}
	limit := 20 * took
	if limit < 20*time.Second {
		limit = 20 * time.Second
	}
	_, p, what = run("sox", limit)
	switch p {
	case "":
		return "", ""
	case "slow":
		return "slow", what
	}
	return p + "|real-channel", fmt.Sprintf("socks channel: %s (the same history through a network channel completed in %v)", what, took.Round(time.Millisecond))
}

func realChannelCases(r *mc.Run, base int) {
	idx := base
	sizes := []int{0, 1, 70000}
	if r.Thorough() {
		sizes = []int{0, 1, 4096, 70000, 1 << 20}
	}
	// the application uploads megabytes and closes at once while the service reads slowly: data
	// is still queued towards the service when the end of the stream reaches the server
	for _, ch := range []string{"real-network-channel", "real-socks-channel"} {
		c := Case{Carrier: ch, Sec: "plain", Closer: "app", N: 8 << 20, Pos: "slow-reader", Other: "none"}
		if r.Mine(idx) && !r.OverBudget() {
			kind, detail := executeRealChannel(c)
			if kind == "slow" || kind == "setup" {
				r.Inconclusive(c.String() + ": " + detail)
				r.Eval(1)
			} else {
				record(r, c, kind, detail)
			}
		}
		idx++
	}
	for _, ch := range []string{"real-network-channel", "real-socks-channel"} {
		for _, closer := range []string{"target", "app"} {
			for _, n := range sizes {
				c := Case{Carrier: ch, Sec: "plain", Closer: closer, N: n, Pos: "race", Other: "none"}
				if r.Mine(idx) && !r.OverBudget() {
					kind, detail := executeRealChannel(c)
					for try := 0; try < 3 && kind == "slow" && strings.Contains(detail, "in use"); try++ {
						kind, detail = executeRealChannel(c)
					}
					if kind == "slow" || kind == "setup" {
						r.Inconclusive(c.String() + ": " + detail)
						r.Eval(1)
					} else {
						record(r, c, kind, detail)
					}
				}
				idx++
			}
		}
	}
}
