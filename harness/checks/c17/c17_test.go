// C17 — orderly close delivers all data, then end-of-stream, both ways.
//
// Engine B: carrier x security x closing side x bytes written before the close x position
// of the close relative to the data x other logical connections. Oracle at the closing
// quiescence (+5 s fake, +60 s for DNS): the other end consumed exactly the bytes, then
// saw end-of-stream; the logical connection's socketace-held ends are closed and the
// client's HandleConnection activity has returned.
package c17

import (
	"fmt"
	"github.com/bokysan/socketace/v2/verifharness/netsim"
	"strings"
	"testing"
	"time"

	"github.com/bokysan/socketace/v2/verifharness/bubble"
	"github.com/bokysan/socketace/v2/verifharness/mc"
	"github.com/bokysan/socketace/v2/verifharness/world"
)

type Case struct {
	Carrier string `json:"carrier"`
	Sec     string `json:"sec"`    // plain | tls | starttls
	Closer  string `json:"closer"` // app | target
	N       int    `json:"n"`      // bytes written by the closing side before it closes
	Pos     string `json:"pos"`    // consumed | paused | race
	Other   string `json:"other"`  // none | idle | busy
	Quiet   int    `json:"quiet"`  // fake seconds the established logical connection stays idle before the write
	UDP     bool   `json:"udp,omitempty"`
}

func (c Case) String() string {
	return fmt.Sprintf("%s/%s closer=%s n=%d pos=%s other=%s quiet=%ds", c.Carrier, c.Sec, c.Closer, c.N, c.Pos, c.Other, c.Quiet)
}

func sizeClass(n int) string {
	switch {
	case n == 0:
		return "n=0"
	case n <= 4096:
		return "n<=4096"
	case n <= 65536:
		return "n<=65536"
	}
	return "n>65536"
}

func execute(t *testing.T, c Case) (kind, detail string) {
	res := bubble.Run(t, func() {
		o := world.Options{Carrier: c.Carrier, Channels: []string{"x", "y", "z"}}
		switch c.Sec {
		case "tls":
			o.TLS, o.ServerCert, o.ClientKnowsCA = true, "good", true
		case "starttls":
			o.ServerCert, o.ClientKnowsCA = "good", true
			if c.Carrier == "stdio" {
				o.Insecure = true
			}
		}
		// other=at-once: the sibling is opened in the same instant as the connection under test, on a client
		// that has no session yet. Should that make the client dial a second physical connection, that dial's
		// first write returns only once the connection under test is established (releaseDial2).
		var releaseDial2 func()
		if c.Other == "at-once" {
			dials := 0
			o.OnDial = func(cl, sv *netsim.MemConn) {
				dials++
				if dials == 2 {
					releaseDial2 = cl.HoldWriteReturn(1)
				}
			}
		}
		w, err := world.New(o)
		if err != nil {
			kind, detail = "setup", err.Error()
			return
		}
		step := func() {
			bubble.Wait()
			if c.Carrier == "dns" {
				bubble.Advance(5 * time.Second)
			}
		}
		var otherApp, otherTgt *world.Endpoint
		if c.Other == "failed-dial-before" {
			// an EARLIER logical connection of this session asked for a channel whose target cannot be
			// reached: it ends; the session and every later connection must be unaffected
			w.Chan("z").Refuse = true
			fa := w.OpenApp("z", nil)
			step()
			bubble.Advance(2 * time.Second)
			fa.Close()
			step()
		}
		if c.Other == "failed-dial-before" || c.Other == "refused-attempt" || c.Other == "idle-later" || c.Other == "busy-later" || c.Other == "at-once" {
			// handled below: the sibling is a connection ATTEMPT for a channel the server does not offer,
			// made while the connection under test is open
		} else if c.Other != "none" {
			otherApp = w.OpenApp("y", func(off int) byte { return world.Pattern(0x55, off) })
			step()
			otherTgt = w.Chans[1].Target(0)
			if otherTgt == nil {
				kind, detail = "no-connection", fmt.Sprintf("the other logical connection was not established (front=%q)", w.Front.Err)
				return
			}
		}
		tagW := byte(0x21)
		expect := func(off int) byte { return world.Pattern(tagW, off) }
		var app, tg *world.Endpoint
		if c.Closer == "app" {
			w.Chans[0].Expect = func(int) func(int) byte { return expect }
			app = w.OpenApp("x", nil)
		} else {
			app = w.OpenApp("x", expect)
		}
		if c.Other == "at-once" {
			otherApp = w.OpenApp("y", func(off int) byte { return world.Pattern(0x55, off) })
		}
		step()
		tg = w.Chans[0].Target(0)
		if tg == nil {
			kind, detail = "no-connection", fmt.Sprintf("target never dialled (front=%q accept=%v logs=%q)", w.Front.Err, w.AcceptErrs, bubble.RecentLogs())
			return
		}
		closer, other := app, tg
		if c.Closer == "target" {
			closer, other = tg, app
		}
		if c.Other == "at-once" {
			if releaseDial2 != nil {
				releaseDial2()
				releaseDial2 = nil
				step()
				bubble.Advance(time.Second)
				step()
			}
			otherTgt = w.Chans[1].Target(0)
			if otherTgt == nil {
				kind, detail = "no-connection", fmt.Sprintf("the logical connection opened at the same instant was not established (front=%q)", w.Front.Err)
				return
			}
		}
		if c.Other == "idle-later" || c.Other == "busy-later" {
			// the sibling is opened AFTER the connection under test and outlives it
			otherApp = w.OpenApp("y", func(off int) byte { return world.Pattern(0x55, off) })
			step()
			otherTgt = w.Chans[1].Target(0)
			if otherTgt == nil {
				kind, detail = "no-connection", fmt.Sprintf("the other logical connection was not established (front=%q)", w.Front.Err)
				return
			}
		}
		if c.Other == "refused-attempt" {
			ra := w.OpenApp("no-such-channel", nil)
			step()
			bubble.Advance(2 * time.Second)
			ra.Close()
			step()
		}
		if c.Quiet > 0 {
			// a long-lived, idle logical connection: time passes before anything is written
			bubble.Advance(time.Duration(c.Quiet) * time.Second)
		}
		if c.Other == "busy" || c.Other == "busy-later" {
			otherApp.StartWrite(world.Payload(0x66, 0, 30000))
		}
		data := world.Payload(tagW, 0, c.N)
		switch c.Pos {
		case "consumed":
			if c.N > 0 {
				closer.StartWrite(data)
			}
			step()
			if c.Carrier == "dns" {
				for i := 0; i < 400 && other.Obs().Got < c.N; i++ {
					bubble.Advance(10 * time.Second)
				}
			}
			closer.Close()
		case "paused":
			other.Pause()
			if c.N > 0 {
				closer.StartWrite(data)
			}
			step()
			closer.Close()
			step()
			other.Resume()
		case "race":
			closer.WriteThenClose(data)
		case "halfclose-stalled":
			// the closing end has stopped reading while the other end's data towards it exceeds
			// every buffer; it writes its data and closes its sending direction only
			closer.Pause()
			big := 2 << 20
			if c.Carrier == "dns" {
				big = 96 << 10
			}
			other.StartWrite(world.Payload(0x31, 0, big))
			step()
			if c.N > 0 {
				closer.StartWrite(data)
			}
			step()
			if c.Carrier == "dns" {
				for i := 0; i < 400 && other.Obs().Got < c.N; i++ {
					bubble.Advance(10 * time.Second)
				}
			}
			closer.C.CloseWrite()
		}
		bubble.Wait()
		hz := 5 * time.Second
		if c.Carrier == "dns" {
			hz = 60 * time.Second
		}
		bubble.Advance(hz)
		if c.Carrier == "dns" {
			for i := 0; i < 400; i++ {
				g := other.Obs().Got
				bubble.Advance(hz)
				if other.Obs().Got == g {
					break
				}
			}
		}
		oo, co := other.Obs(), closer.Obs()
		ctx := fmt.Sprintf(" | closer=%v other=%v handled=%d open=%v logs=%q", co, oo, w.HandledCount(), w.OpenTracked(), bubble.RecentLogs())
		switch {
		case oo.BadAt >= 0:
			kind, detail = "corrupt", fmt.Sprintf("byte %d received before the end of stream differs from what was written", oo.BadAt)
		case oo.Got > c.N:
			kind, detail = "extra-bytes", fmt.Sprintf("other end received %d bytes, %d were written", oo.Got, c.N)
		case oo.Got < c.N && (oo.EOF || oo.Err != ""):
			kind, detail = "data-lost-before-eof", fmt.Sprintf("other end saw the end of the stream after only %d of %d bytes", oo.Got, c.N)
		case oo.Got < c.N:
			kind, detail = "data-not-delivered", fmt.Sprintf("other end received %d of %d bytes and no end of stream", oo.Got, c.N)
		case !oo.EOF && oo.Err == "":
			kind, detail = "no-eof", fmt.Sprintf("other end received all %d bytes but never the end of stream", c.N)
		}
		if kind == "" {
			// the other end now closes as any application would after EOF; nothing of this logical
			// connection may remain
			other.Close()
			bubble.Wait()
			bubble.Advance(hz)
			wantHandled := 1
			if left := w.OpenTracked(); len(left) > 0 {
				// ends belonging to the other (still open) logical connection and to the carrier are legitimate
				n := 0
				for _, l := range left {
					if l == "listener-side of app connection" || l == "server side of target connection" {
						n++
					}
				}
				allowed := 0
				if c.Other != "none" && c.Other != "refused-attempt" && c.Other != "failed-dial-before" {
					allowed = 2
				}
				if n > allowed {
					kind, detail = "never-terminates", fmt.Sprintf("connection ends of the finished logical connection are still open: %v", left)
				}
			}
			if kind == "" && w.HandledCount() < wantHandled {
				kind, detail = "never-terminates", "the client's handler for the finished logical connection never returned"
			}
		}
		if kind == "" && c.Other != "none" && c.Other != "refused-attempt" && c.Other != "failed-dial-before" {
			a, g := otherApp.Obs(), otherTgt.Obs()
			if a.EOF || a.Err != "" || g.EOF || g.Err != "" {
				kind, detail = "collateral-close", fmt.Sprintf("the other logical connection ended too: app=%v tgt=%v", a, g)
			}
		}
		if kind != "" {
			detail += ctx
		}
	})
	if res.Panic != "" {
		kind, detail = "panic", res.Panic
	}
	if kind == "" && res.SpinCount > 0 {
		kind, detail = "spin", res.SpinMsg
	}
	return
}

func cases(thorough bool) []Case {
	var out []Case
	type v struct{ carrier, sec string }
	vs := []v{{"stream", "plain"}, {"stream", "tls"}, {"stream", "starttls"}, {"ws", "plain"}, {"ws", "tls"}, {"stdio", "plain"}, {"stdio", "tls"}, {"dns", "plain"}}
	if thorough {
		vs = append(vs, v{"ws", "starttls"}, v{"stdio", "starttls"}, v{"dns", "starttls"})
	}
	sizes := []int{0, 1, 4096, 40000, 1024 * 1024}
	if thorough {
		sizes = append(sizes, 4097, 32768, 65537, 3*1024*1024+1)
	}
	for _, x := range vs {
		for _, closer := range []string{"app", "target"} {
			for _, n := range sizes {
				if x.carrier == "dns" && n > 40000 && !thorough {
					continue
				}
				for _, pos := range []string{"consumed", "paused", "race", "halfclose-stalled"} {
					if pos == "paused" && n > 40000 {
						continue // the Write would not return while the receiver is paused
					}
					if pos == "halfclose-stalled" && (n > 40000 || n == 4096) {
						continue
					}
					for _, other := range []string{"none", "idle", "busy", "refused-attempt", "idle-later", "busy-later", "failed-dial-before"} {
						if other == "failed-dial-before" && !thorough && (n > 4096 || pos == "paused") {
							continue
						}
						if other == "busy" && !thorough && x.sec != "plain" {
							continue
						}
						if strings.HasSuffix(other, "-later") && !thorough && (x.sec != "plain" || n > 4096 || (other == "busy-later" && pos != "consumed")) {
							continue
						}
						if other == "none" && (x.carrier == "stream" || x.carrier == "ws") && (thorough || x.sec == "plain") {
							out = append(out, Case{Carrier: x.carrier, Sec: x.sec, Closer: closer, N: n, Pos: pos, Other: "at-once"})
						}
						out = append(out, Case{Carrier: x.carrier, Sec: x.sec, Closer: closer, N: n, Pos: pos, Other: other})
						quiets := []int{20, 45} // 45 s: past every handshake-time deadline (30 s) a carrier may still have armed
						if thorough {
							quiets = []int{20, 45, 300, 3700}
						}
						for _, q := range quiets {
							if other == "none" || thorough {
								out = append(out, Case{Carrier: x.carrier, Sec: x.sec, Closer: closer, N: n, Pos: pos, Other: other, Quiet: q})
							}
						}
					}
				}
			}
		}
	}
	return out
}

func record(r *mc.Run, c Case, kind, detail string) {
	r.Eval(1)
	r.Transition(4)
	r.State(mc.Hash(c.Carrier, c.Sec, c.Closer, sizeClass(c.N), c.Pos, c.Other, c.Quiet, kind))
	if c.N > 0 || c.Other != "none" {
		r.Nontrivial(mc.Hash(c.String()))
	}
	if kind != "" {
		q := "fresh"
		if c.Quiet > 0 {
			q = "aged"
		}
		r.Fail(fmt.Sprintf("%s|%s/%s|closer=%s|%s|%s|%s", kind, c.Carrier, c.Sec, c.Closer, c.Pos, sizeClass(c.N), q), fmt.Sprintf("%s: %s", c, detail), c.N/1000+len(c.Other), c)
	}
}

func TestCheck(t *testing.T) {
	r := mc.New(t, "C17")
	defer r.Finish()
	r.CrashFails = true
	if r.Replay != nil {
		var c Case
		r.DecodeReplay(&c)
		var kind, detail string
		if strings.HasPrefix(c.Carrier, "real-") {
			kind, detail = executeRealChannel(c)
			if kind == "slow" || kind == "setup" {
				r.Inconclusive(c.String() + ": " + detail)
				return
			}
		} else if c.UDP {
			kind, detail = executeUDP(c)
		} else {
			kind, detail = execute(t, c)
		}
		record(r, c, kind, detail)
		return
	}
	all := cases(r.Thorough())
	for idx, c := range all {
		if !r.Mine(idx) {
			continue
		}
		if r.OverBudget() {
			r.Cap(fmt.Sprintf("time budget reached at case %d of %d", idx, len(all)))
			break
		}
		var kind, detail string
		r.Guard(idx, 60*time.Second, "hang|"+c.Carrier+"/"+c.Sec+"|closer="+c.Closer+"|"+c.Pos, c.String(), c, func() {
			kind, detail = execute(t, c)
		})
		record(r, c, kind, detail)
		if idx%101 == 0 {
			r.Sample(map[string]any{"case": c.String(), "outcome": kind})
		}
		r.Progress(idx + 1)
	}
	udpCases(r, len(all))
	realChannelCases(r, len(all)+200)
	r.Note("cases_total", len(all))
}
