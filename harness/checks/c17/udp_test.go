package c17

import (
	"fmt"
	"time"

	"github.com/bokysan/socketace/v2/verifharness/bubble"
	"github.com/bokysan/socketace/v2/verifharness/mc"
	"github.com/bokysan/socketace/v2/verifharness/world"
)

// executeUDP: real kcp-go in real time. Only value oracles can fail (end of stream seen
// before all bytes, wrong bytes); a missing end of stream within the real-time horizon is
// "slow" = inconclusive, never a violation.
func executeUDP(c Case) (kind, detail string) {
	bubble.SetupLogging()
	o := world.UDPOptions{Options: world.Options{Carrier: "udp", Channels: []string{"x"}}}
	if c.Sec == "starttls" {
		o.ServerCert, o.ClientKnowsCA, o.Insecure = "good", true, true
	}
	if c.Sec == "secret" {
		o.ServerSecret, o.ClientSecret = "s3cret", "s3cret"
	}
	u, err := world.NewUDP(o)
	if err != nil {
		return "setup", err.Error()
	}
	defer u.Shutdown()
	tagW := byte(0x21)
	expect := func(off int) byte { return world.Pattern(tagW, off) }
	var app *world.Endpoint
	if c.Closer == "app" {
		u.Chans[0].Expect = func(int) func(int) byte { return expect }
		app = u.OpenApp("x", nil)
	} else {
		app = u.OpenApp("x", expect)
	}
	deadline := time.Now().Add(45 * time.Second)
	for u.Chans[0].Target(0) == nil && time.Now().Before(deadline) {
		time.Sleep(5 * time.Millisecond)
	}
	tg := u.Chans[0].Target(0)
	if tg == nil {
		return "slow", "no logical connection within the real-time horizon: " + u.Front.Err
	}
	closer, other := app, tg
	if c.Closer == "target" {
		closer, other = tg, app
	}
	closer.WriteThenClose(world.Payload(tagW, 0, c.N))
	for time.Now().Before(deadline) {
		ob := other.Obs()
		if ob.EOF || ob.Err != "" {
			break
		}
		time.Sleep(5 * time.Millisecond)
	}
	oo := other.Obs()
	switch {
	case oo.BadAt >= 0:
		return "corrupt", fmt.Sprintf("byte %d differs: %v", oo.BadAt, oo)
	case oo.Got > c.N:
		return "extra-bytes", fmt.Sprintf("%v", oo)
	case oo.Got < c.N && (oo.EOF || oo.Err != ""):
		return "data-lost-before-eof", fmt.Sprintf("other end saw the end of the stream after only %d of %d bytes: %v", oo.Got, c.N, oo)
	case !oo.EOF && oo.Err == "":
		return "slow", fmt.Sprintf("no end of stream within the real-time horizon: %v", oo)
	}
	return "", ""
}

func udpCases(r *mc.Run, base int) {
	idx := base
	sizes := []int{0, 1, 4096, 40000}
	if r.Thorough() {
		sizes = append(sizes, 65537, 1024*1024)
	}
	for _, sec := range []string{"plain", "starttls", "secret"} {
		for _, closer := range []string{"app", "target"} {
			for _, n := range sizes {
				c := Case{Carrier: "udp", Sec: sec, Closer: closer, N: n, Pos: "race", Other: "none", UDP: true}
				if r.Mine(idx) && !r.OverBudget() {
					kind, detail := executeUDP(c)
					if kind == "slow" || kind == "setup" {
						r.Inconclusive(c.String() + ": " + detail)
						r.Eval(1)
					} else {
						record(r, c, kind, detail)
					}
				}
				idx++
			}
		}
	}
}
