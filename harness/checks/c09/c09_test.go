// C09 — DNS tunnel requests survive the wire for every command and size.
//
// Engine S: every request the client can form is pushed through the real
// EncodeDnsRequestWithParams -> dns.Msg.Pack -> Unpack -> ComposeRequest -> DecodeDnsRequest
// and compared field by field; the question is validated independently of miekg/dns.
package c09

import (
	"bytes"
	"fmt"
	"reflect"
	"strings"
	"testing"

	sdns "github.com/bokysan/socketace/v2/internal/streams/dns"
	"github.com/bokysan/socketace/v2/internal/streams/dns/commands"
	"github.com/bokysan/socketace/v2/internal/streams/dns/util"
	"github.com/bokysan/socketace/v2/internal/util/enc"
	"github.com/bokysan/socketace/v2/verifharness/mc"
	"github.com/miekg/dns"
	"golang.org/x/net/dns/dnsmessage"
)

var upstreamCodecs = []enc.Encoder{enc.Base32Encoding, enc.Base64Encoding, enc.Base64uEncoding, enc.Base85Encoding, enc.Base91Encoding, enc.Base128Encoding}

var domains = []string{
	"a.bc",
	"example.org",
	"tunnel-with-a-rather-long-name.some-department.example-corp.org", // 63 octets
	"a123456789b123456789c123456789d123456789e123456789.f123456789g123456789h123456789i123456789j123456789.k1234567.example.org", // 120 octets
}

var qtypes = []dnsmessage.Type{util.QueryTypeNull, util.QueryTypePrivate, util.QueryTypeTxt, util.QueryTypeSrv, util.QueryTypeMx, util.QueryTypeCname, util.QueryTypeAAAA, util.QueryTypeA}

type Case struct {
	Cmd     string `json:"cmd"`
	Codec   string `json:"codec"`
	Domain  string `json:"domain"`
	QType   uint16 `json:"qtype"`
	User    uint16 `json:"user"`
	Seq     uint16 `json:"seq"`
	Ack     uint16 `json:"ack"`
	Payload int    `json:"payload"` // -1: no packet
	Fill    string `json:"fill,omitempty"`
	Opt     []int  `json:"opt,omitempty"` // set-options: lazy, multi, closed (0 false,1 true,2 nil), down codec idx (8 = none), up codec idx, frag idx
	Pattern int    `json:"pattern,omitempty"`
	Version uint32 `json:"version,omitempty"`
	Frag    uint32 `json:"frag,omitempty"`
}

var allEnc = []enc.Encoder{enc.Base32Encoding, enc.Base64Encoding, enc.Base64uEncoding, enc.Base85Encoding, enc.Base91Encoding, enc.Base128Encoding, enc.Base192Encoding, enc.RawEncoding}
var fragVals = []uint32{0, 1, 1200, 0xFFFFFFFE}

func codecByName(n string) enc.Encoder {
	for _, e := range allEnc {
		if e.Name() == n {
			return e
		}
	}
	return nil
}

func triBool(v int) *bool {
	switch v {
	case 0:
		f := false
		return &f
	case 1:
		t := true
		return &t
	}
	return nil
}

func payload(n int, fill string) []byte {
	b := make([]byte, n)
	for i := range b {
		switch fill {
		case "zero":
		case "ff":
			b[i] = 0xFF
		default:
			b[i] = byte(i*131 + 7)
		}
	}
	return b
}

func build(c Case) (commands.Request, error) {
	e := codecByName(c.Codec)
	switch c.Cmd {
	case "version":
		return &commands.VersionRequest{ClientVersion: c.Version}, nil
	case "packet":
		r := &commands.PacketRequest{UserId: c.User, LastAckedSeqNo: c.Ack}
		if c.Payload >= 0 {
			r.Packet = &util.Packet{SeqNo: c.Seq, Data: payload(c.Payload, c.Fill)}
		}
		return r, nil
	case "options":
		r := &commands.SetOptionsRequest{UserId: c.User, LazyMode: triBool(c.Opt[0]), MultiQuery: triBool(c.Opt[1]), Closed: triBool(c.Opt[2])}
		if c.Opt[3] < len(allEnc) {
			r.DownstreamEncoder = allEnc[c.Opt[3]]
		}
		if c.Opt[4] < len(allEnc) {
			r.UpstreamEncoder = allEnc[c.Opt[4]]
		}
		if c.Opt[5] < len(fragVals) {
			f := fragVals[c.Opt[5]]
			r.DownstreamFragmentSize = &f
		}
		return r, nil
	case "downprobe":
		return &commands.TestDownstreamEncoderRequest{DownstreamEncoder: allEnc[c.Pattern]}, nil
	case "upprobe":
		pats := e.TestPatterns()
		p := pats[c.Pattern]
		if string(p[0:2]) != "aA" { // as EncodingTestUpstream does
			p = append([]byte("aA"), p...)
		}
		return &commands.TestUpstreamEncoderRequest{UserId: c.User, Pattern: p}, nil
	case "fragprobe":
		return &commands.TestDownstreamFragmentSizeRequest{UserId: c.User, FragmentSize: c.Frag}, nil
	}
	return nil, fmt.Errorf("unknown command %q", c.Cmd)
}

// validQuestion checks the DNS name limits independently of miekg: labels <= 63 octets,
// no empty label except the root, whole name <= 253 octets (presentation form without the
// trailing dot; wire form <= 255).
func validQuestion(wire []byte) (string, bool) {
	// parse the first question name from the wire format (offset 12), no compression in queries
	i := 12
	total := 0
	for {
		if i >= len(wire) {
			return "name runs past the message", false
		}
		l := int(wire[i])
		if l == 0 {
			break
		}
		if l > 63 {
			return fmt.Sprintf("label of %d octets", l), false
		}
		total += l + 1
		i += l + 1
	}
	if total+1 > 255 {
		return fmt.Sprintf("wire name of %d octets", total+1), false
	}
	if total-1 > 253 {
		return fmt.Sprintf("name of %d octets", total-1), false
	}
	return "", true
}

func eval(r *mc.Run, c Case) {
	r.Eval(1)
	r.Transition(4)
	e := codecByName(c.Codec)
	fail := func(sub, what string) {
		cls := c.Cmd + "|" + c.Codec
		if c.Cmd == "packet" {
			cls += fmt.Sprintf("|payload%%7==%d", (c.Payload+3)%7) // encoded body = ack(2)+flag(1)+seq(2)+data
		}
		r.Fail(sub+"|"+cls, fmt.Sprintf("%+v: %s", c, what), c.Payload+len(c.Domain), c)
	}
	outcome := "ok"
	defer func() {
		if p := recover(); p != nil {
			fail("panic", fmt.Sprint(p))
			outcome = "panic"
		}
		r.State(mc.Hash(c.Cmd, c.Codec, len(c.Domain), outcome))
	}()
	req, err := build(c)
	if err != nil {
		fail("harness", err.Error())
		return
	}
	client := commands.Serializer{Domain: c.Domain, Upstream: util.UpstreamConfig{Encoder: e}}
	server := commands.Serializer{Domain: c.Domain, Upstream: util.UpstreamConfig{Encoder: e}}
	msg, err := client.EncodeDnsRequestWithParams(req, dnsmessage.Type(c.QType), e)
	if err != nil {
		outcome = "encode-error"
		fail("encode-error", err.Error())
		return
	}
	wire, err := msg.Pack()
	if err != nil {
		outcome = "pack-error"
		fail("pack-error", fmt.Sprintf("%v (name %q)", err, msg.Question[0].Name))
		return
	}
	if why, ok := validQuestion(wire); !ok {
		outcome = "invalid-question"
		fail("invalid-question", why)
		return
	}
	var back dns.Msg
	if err := back.Unpack(wire); err != nil {
		outcome = "unpack-error"
		fail("unpack-error", err.Error())
		return
	}
	if len(back.Question) != 1 || back.Question[0].Qtype != c.QType {
		outcome = "question-changed"
		fail("question-changed", fmt.Sprintf("%v", back.Question))
		return
	}
	raw := commands.ComposeRequest(&back, c.Domain)
	var cmd *commands.Command
	for _, k := range commands.Commands {
		if k.IsOfType(raw) {
			kk := k
			cmd = &kk
			break
		}
	}
	if cmd == nil || cmd.Code != req.Command().Code {
		outcome = "command-not-recognised"
		fail("command-not-recognised", fmt.Sprintf("raw %q", raw))
		return
	}
	_, uid, err := commands.DecodeRequestHeader(*cmd, raw)
	if err != nil {
		outcome = "header-error"
		fail("header-error", err.Error())
		return
	}
	if cmd.NeedsUserId && uid != c.User {
		outcome = "user-id-changed"
		fail("user-id-changed", fmt.Sprintf("sent %d, server saw %d", c.User, uid))
		return
	}
	got, err := server.DecodeDnsRequest(raw)
	if err != nil {
		outcome = "decode-error"
		fail("decode-error", err.Error())
		return
	}
	if !sameRequest(req, got) {
		outcome = "fields-changed"
		fail("fields-changed", fmt.Sprintf("sent %s, server decoded %s", show(req), show(got)))
	}
}

func show(r commands.Request) string {
	switch v := r.(type) {
	case *commands.PacketRequest:
		if v.Packet == nil {
			return fmt.Sprintf("packet{user=%d ack=%d nopacket}", v.UserId, v.LastAckedSeqNo)
		}
		d := v.Packet.Data
		if len(d) > 12 {
			d = d[:12]
		}
		return fmt.Sprintf("packet{user=%d ack=%d seq=%d len=%d data=%x..}", v.UserId, v.LastAckedSeqNo, v.Packet.SeqNo, len(v.Packet.Data), d)
	case *commands.SetOptionsRequest:
		pb := func(b *bool) string {
			if b == nil {
				return "nil"
			}
			return fmt.Sprint(*b)
		}
		f := "nil"
		if v.DownstreamFragmentSize != nil {
			f = fmt.Sprint(*v.DownstreamFragmentSize)
		}
		return fmt.Sprintf("options{user=%d lazy=%s multi=%s closed=%s down=%v up=%v frag=%s}", v.UserId, pb(v.LazyMode), pb(v.MultiQuery), pb(v.Closed), v.DownstreamEncoder, v.UpstreamEncoder, f)
	}
	return fmt.Sprintf("%+v", r)
}

func sameRequest(a, b commands.Request) bool {
	switch x := a.(type) {
	case *commands.PacketRequest:
		y, ok := b.(*commands.PacketRequest)
		if !ok || x.UserId != y.UserId || x.LastAckedSeqNo != y.LastAckedSeqNo || (x.Packet == nil) != (y.Packet == nil) {
			return false
		}
		if x.Packet == nil {
			return true
		}
		return x.Packet.SeqNo == y.Packet.SeqNo && bytes.Equal(x.Packet.Data, y.Packet.Data)
	case *commands.TestUpstreamEncoderRequest:
		y, ok := b.(*commands.TestUpstreamEncoderRequest)
		return ok && x.UserId == y.UserId && bytes.Equal(x.Pattern, y.Pattern)
	}
	return reflect.DeepEqual(a, b)
}

// domainOfLength builds a valid domain name of exactly l characters (labels of at most 63).
func domainOfLength(l int) string {
	var b []byte
	for len(b) < l {
		if len(b) > 0 && (len(b)+1)%60 == 0 && len(b) < l-1 {
			b = append(b, '.')
			continue
		}
		b = append(b, byte('a'+len(b)%26))
	}
	return string(b)
}

func mtu(domain string, e enc.Encoder) int {
	dc, _ := sdns.NewClientDnsConnection(domain, nil)
	dc.Serializer.Upstream.Encoder = e
	return int(dc.VerifUpstreamMtu())
}

func TestCheck(t *testing.T) {
	r := mc.New(t, "C09")
	defer r.Finish()
	if r.Replay != nil {
		var c Case
		r.DecodeReplay(&c)
		eval(r, c)
		return
	}
	idx := 0
	do := func(c Case) {
		if r.Mine(idx) {
			eval(r, c)
			if c.Cmd != "version" {
				r.Nontrivial(mc.Hash(fmt.Sprintf("%+v", c)))
			}
			if idx%50021 == 0 {
				r.Sample(c)
			}
		}
		idx++
	}
	cname := uint16(util.QueryTypeCname)
	mtus := map[string]int{}
	for _, e := range upstreamCodecs {
		for _, d := range domains {
			m := mtu(d, e)
			mtus[e.Name()+"/"+fmt.Sprint(len(d))] = m
			// packet: every payload length 0..MTU, three contents; boundary seq/ack; every query type at the MTU
			for n := -1; n <= m; n++ {
				for _, fill := range []string{"ramp", "zero", "ff"} {
					if n < 1 && fill != "ramp" {
						continue
					}
					do(Case{Cmd: "packet", Codec: e.Name(), Domain: d, QType: cname, User: 35, Seq: 0x1234, Ack: 0xFFFF, Payload: n, Fill: fill})
				}
			}
			for _, qt := range qtypes {
				do(Case{Cmd: "packet", Codec: e.Name(), Domain: d, QType: uint16(qt), User: 1295, Seq: 65535, Ack: 0, Payload: m, Fill: "ff"})
			}
			// all 1- and 2-byte payloads
			if d == "example.org" {
				for a := 0; a < 256; a++ {
					do(Case{Cmd: "packet", Codec: e.Name(), Domain: d, QType: cname, User: 1, Seq: uint16(a), Ack: uint16(a) << 8, Payload: 1, Fill: "ramp"})
				}
			}
			// upstream codec probe with the codec's own patterns
			for pi := range e.TestPatterns() {
				do(Case{Cmd: "upprobe", Codec: e.Name(), Domain: d, QType: cname, User: 7, Pattern: pi})
			}
			for pi := range allEnc {
				do(Case{Cmd: "downprobe", Codec: e.Name(), Domain: d, QType: cname, Pattern: pi})
			}
			for _, f := range []uint32{0, 1, 2, 255, 256, 768, 1200, 8192, 65535, 65536, 0x7FFFFFFF, 0xFFFFFFFE, 0xFFFFFFFF} {
				do(Case{Cmd: "fragprobe", Codec: e.Name(), Domain: d, QType: cname, User: 36, Frag: f})
			}
			for _, v := range []uint32{0, 1, sdns.ProtocolVersion, 0xFFFFFFFF} {
				do(Case{Cmd: "version", Codec: e.Name(), Domain: d, QType: cname, Version: v})
			}
		}
		// every domain length: the fragment size the client computes for it (and the sizes just
		// below) must still make a name that fits - the size arithmetic depends on the length
		for l := 3; l <= 200; l++ {
			d := domainOfLength(l)
			m := mtu(d, e)
			for n := m - 2; n <= m; n++ {
				if n < 1 {
					continue
				}
				for _, fill := range []string{"ff", "ramp"} {
					do(Case{Cmd: "packet", Codec: e.Name(), Domain: d, QType: cname, User: 1295, Seq: 65535, Ack: 0xFFFF, Payload: n, Fill: fill})
				}
			}
		}
	}
	// user ids: all 0..1295 for every command that carries one
	for _, cmd := range []string{"packet", "options", "upprobe", "fragprobe"} {
		for u := 0; u < 1296; u++ {
			c := Case{Cmd: cmd, Codec: "Base32", Domain: "example.org", QType: cname, User: uint16(u), Seq: 1, Ack: 2, Payload: 3, Fill: "ramp", Opt: []int{2, 2, 2, 8, 8, 4}, Frag: 768}
			do(c)
		}
	}
	// sequence / ack numbers
	others := []uint16{0, 1, 255, 256, 65535}
	step := 1
	codecsForSeq := []enc.Encoder{enc.Base32Encoding, enc.Base128Encoding}
	if r.Thorough() {
		codecsForSeq = upstreamCodecs
	} else {
		step = 7
	}
	for _, e := range codecsForSeq {
		for v := 0; v < 65536; v += step {
			for _, o := range others {
				do(Case{Cmd: "packet", Codec: e.Name(), Domain: "a.bc", QType: cname, User: 5, Seq: uint16(v), Ack: o, Payload: 2, Fill: "ramp"})
				do(Case{Cmd: "packet", Codec: e.Name(), Domain: "a.bc", QType: cname, User: 5, Seq: o, Ack: uint16(v), Payload: 2, Fill: "ramp"})
			}
		}
	}
	// set-options: every flag / codec / fragment-size combination
	mc.Product([]int{3, 3, 3, 9, 9, 5}, func(_ int, d []int) bool {
		dom := domains[(d[3]+d[4])%len(domains)]
		do(Case{Cmd: "options", Codec: "Base32", Domain: dom, QType: cname, User: uint16(d[3]*144 + d[4]), Opt: append([]int{}, d...)})
		return true
	})
	var ms []string
	for k, v := range mtus {
		ms = append(ms, fmt.Sprintf("%s=%d", k, v))
	}
	r.Note("upstream_mtu_by_codec_and_domain_len", strings.Join(ms, " "))
	r.Note("cases_total", idx)
}
