package c04

// Part 5: the honest matrix through the REAL upstream objects (upstream.Socket, upstream.Http:
// they dial real sockets, the bubble worlds re-state the lines after the dial) - every accepted
// spelling of a socket or websocket upstream URL x server has a certificate x client requires
// security x insecure flag, real server objects on loopback, a recording relay on the carrier.
// Same oracles as part 1: with security required no application data crosses a session that is
// not TLS-protected; on a protected session the marker never appears in clear on the carrier.

import (
	"bytes"
	"fmt"
	"io"
	"net"
	"strings"
	"sync"
	"time"

	"github.com/bokysan/socketace/v2/internal/client/upstream"
	"github.com/bokysan/socketace/v2/internal/server"
	"github.com/bokysan/socketace/v2/internal/util/addr"
	"github.com/bokysan/socketace/v2/internal/util/cert"
	"github.com/bokysan/socketace/v2/verifharness/bubble"
	"github.com/bokysan/socketace/v2/verifharness/pki"
	"github.com/bokysan/socketace/v2/verifharness/world"
)

type cfgGetter struct{ m cert.TlsConfig }

func (c cfgGetter) CertManager() cert.TlsConfig { return c.m }

// spelling -> (server scheme, carrier is TLS)
var realSpellings = []struct {
	client, server string
	tls            bool
}{
	{"tcp", "tcp", false}, {"tcp+tls", "tcp+tls", true},
	{"http", "http", false}, {"ws", "http", false},
	{"https", "https", true}, {"wss", "https", true},
	{"dns", "dns", false},
}

// udpRelay forwards datagrams between clients and the server and records them.
type udpRelay struct {
	pc  net.PacketConn
	mu  sync.Mutex
	buf bytes.Buffer
}

func newUDPRelay(to string) (*udpRelay, error) {
	pc, err := net.ListenPacket("udp", "127.0.0.1:0")
	if err != nil {
		return nil, err
	}
	dst, err := net.ResolveUDPAddr("udp", to)
	if err != nil {
		return nil, err
	}
	r := &udpRelay{pc: pc}
	var mu sync.Mutex
	back := map[string]net.Conn{}
	go func() {
		b := make([]byte, 65536)
		for {
			n, from, err := pc.ReadFrom(b)
			if err != nil {
				return
			}
			r.mu.Lock()
			r.buf.Write(b[:n])
			r.mu.Unlock()
			mu.Lock()
			c := back[from.String()]
			if c == nil {
				if c, err = net.DialUDP("udp", nil, dst); err != nil {
					mu.Unlock()
					continue
				}
				back[from.String()] = c
				go func(c net.Conn, from net.Addr) {
					rb := make([]byte, 65536)
					for {
						m, err := c.Read(rb)
						if err != nil {
							return
						}
						r.mu.Lock()
						r.buf.Write(rb[:m])
						r.mu.Unlock()
						pc.WriteTo(rb[:m], from)
					}
				}(c, from)
			}
			mu.Unlock()
			c.Write(b[:n])
		}
	}()
	return r, nil
}

func (r *udpRelay) wire() []byte {
	r.mu.Lock()
	defer r.mu.Unlock()
	return append([]byte{}, r.buf.Bytes()...)
}

type relay struct {
	ln  net.Listener
	mu  sync.Mutex
	buf bytes.Buffer
}

func newRelay(to string) (*relay, error) {
	ln, err := net.Listen("tcp", "127.0.0.1:0")
	if err != nil {
		return nil, err
	}
	r := &relay{ln: ln}
	go func() {
		for {
			c, err := ln.Accept()
			if err != nil {
				return
			}
			s, err := net.Dial("tcp", to)
			if err != nil {
				c.Close()
				continue
			}
			cp := func(dst, src net.Conn) {
				b := make([]byte, 32768)
				for {
					n, err := src.Read(b)
					if n > 0 {
						r.mu.Lock()
						r.buf.Write(b[:n])
						r.mu.Unlock()
						dst.Write(b[:n])
					}
					if err != nil {
						dst.Close()
						return
					}
				}
			}
			go cp(s, c)
			go cp(c, s)
		}
	}()
	return r, nil
}

func (r *relay) wire() []byte {
	r.mu.Lock()
	defer r.mu.Unlock()
	return append([]byte{}, r.buf.Bytes()...)
}

func freeTCPPort() int {
	l, err := net.Listen("tcp", "127.0.0.1:0")
	if err != nil {
		return 0
	}
	defer l.Close()
	return l.Addr().(*net.TCPAddr).Port
}

func honestReal(c Case) (kind, detail string) {
	bubble.SetupLogging()
	defer func() {
		if p := recover(); p != nil {
			kind, detail = "panic", fmt.Sprint(p)
		}
	}()
	var sp *struct {
		client, server string
		tls            bool
	}
	for i := range realSpellings {
		if realSpellings[i].client == c.Carrier {
			sp = &realSpellings[i]
		}
	}
	if sp == nil {
		return "setup", "unknown spelling " + c.Carrier
	}
	p := pki.Real()
	fake := &world.FakeChannel{ChName: "x", Keep: true, BufLimit: 1 << 20}
	port := freeTCPPort()
	var srv server.Server
	var scfg cert.ServerConfig
	if c.ServerCert || sp.tls {
		scfg.Certificate, scfg.PrivateKey = p.Server.CertPEM, p.Server.KeyPEM
	}
	if sp.server == "dns" {
		pc, err := net.ListenPacket("udp", "127.0.0.1:0")
		if err != nil {
			return "inconclusive", err.Error()
		}
		port = pc.LocalAddr().(*net.UDPAddr).Port
		pc.Close()
	}
	switch {
	case sp.server == "dns":
		s := server.NewDnsServer()
		s.Address = addr.MustParseAddress(fmt.Sprintf("dns://127.0.0.1:%d", port))
		s.Domain = "server.test"
		s.ServerConfig = scfg
		srv = s
	case strings.HasPrefix(sp.server, "tcp"):
		s := server.NewSocketServer()
		s.Address = addr.MustParseAddress(fmt.Sprintf("%s://127.0.0.1:%d", sp.server, port))
		s.ServerConfig = scfg
		srv = s
	default:
		s := server.NewHttpServer()
		s.Address = addr.MustParseAddress(fmt.Sprintf("%s://127.0.0.1:%d", sp.server, port))
		s.ServerConfig = scfg
		s.Endpoints = []server.HttpEndpoint{{Endpoint: "/ws"}}
		srv = s
	}
	started := make(chan error, 1)
	go func() { started <- srv.Startup(server.Channels{fake}) }()
	select {
	case err := <-started:
		if err != nil {
			return "inconclusive", "server startup: " + err.Error()
		}
	case <-time.After(300 * time.Millisecond): // http Startup blocks while serving
	}
	defer srv.Shutdown()
	var wireOf func() []byte
	url := ""
	if sp.server == "dns" {
		time.Sleep(1500 * time.Millisecond) // the DNS server installs its handler one second after it starts listening
		ur, err := newUDPRelay(fmt.Sprintf("127.0.0.1:%d", port))
		if err != nil {
			return "inconclusive", err.Error()
		}
		defer ur.pc.Close()
		wireOf = ur.wire
		url = fmt.Sprintf("dns://server.test?direct=false&dns=%s", ur.pc.LocalAddr().String())
	} else {
		for i := 0; i < 100; i++ {
			if cc, err := net.Dial("tcp", fmt.Sprintf("127.0.0.1:%d", port)); err == nil {
				cc.Close()
				break
			}
			time.Sleep(20 * time.Millisecond)
		}
		rl, err := newRelay(fmt.Sprintf("127.0.0.1:%d", port))
		if err != nil {
			return "inconclusive", err.Error()
		}
		defer rl.ln.Close()
		wireOf = rl.wire
		url = fmt.Sprintf("%s://%s", sp.client, rl.ln.Addr().String())
		if !strings.HasPrefix(sp.client, "tcp") {
			url += "/ws"
		}
	}
	list := &upstream.Upstreams{}
	if err := list.UnmarshalFlag(url); err != nil {
		return "inconclusive", "upstream flag rejected: " + err.Error()
	}
	ups := world.ClientUpstreams(list.Data, c.MustSecure, c.Insecure)
	defer ups.Shutdown()
	ccfg := &cert.ClientConfig{}
	ccfg.CaCertificate = p.CA
	ccfg.InsecureSkipVerify = c.Insecure
	done := make(chan error, 1)
	var st io.ReadWriteCloser
	go func() {
		s, err := ups.Connect(cfgGetter{ccfg}, "x")
		if err == nil {
			st = s
			_, err = s.Write(marker)
		}
		done <- err
	}()
	var cerr error
	select {
	case cerr = <-done:
	case <-time.After(60 * time.Second):
		return "inconclusive", "Connect did not return within 60 s"
	}
	established := false
	if cerr == nil {
		deadline := time.Now().Add(10 * time.Second)
		for time.Now().Before(deadline) {
			if tg := fake.Target(0); tg != nil && tg.Obs().Got >= len(marker) {
				established = bytes.Equal(tg.Bytes(), marker)
				// the marker travels back too: websocket frames from the server are not masked
				tg.StartWrite(marker)
				back := make([]byte, len(marker))
				io.ReadFull(st, back)
				break
			}
			time.Sleep(5 * time.Millisecond)
		}
	}
	time.Sleep(50 * time.Millisecond)
	inClear := bytes.Contains(wireOf(), marker)
	protected := sp.tls || c.ServerCert
	switch {
	case c.MustSecure && established && !protected:
		return "secure-required-but-plaintext-session", fmt.Sprintf("upstream %s: the client was told to require security, the session is not TLS-protected (plain carrier, the server offers no StartTLS), yet application data was carried", url)
	case established && protected && inClear:
		return "payload-in-clear-on-secure-session", fmt.Sprintf("upstream %s: the session must be TLS-protected (carrier TLS or StartTLS offered) but the application payload is visible on the carrier", url)
	case !established && protected && cerr != nil && !strings.Contains(cerr.Error(), "secure"):
		return "inconclusive", fmt.Sprintf("upstream %s: no session: %v", url, cerr)
	}
	if established {
		sessions++
		realSessions++
	}
	return "", ""
}

var realSessions int
