// C04 — required or negotiated security never degrades to plaintext.
//
// Part 1 (honest peers): carrier already encrypted? x server has a certificate? x client
// requires security? x client insecure flag, on stream / websocket / stdio / DNS carriers in
// a bubble (UDP/KCP in real time), with every byte crossing the carrier captured and one
// logical connection carrying a marker payload.
// Part 2 (scripted server): the real client handshake against a peer whose behaviour is a
// choice at every step: announce answer x upgrade answer x post-upgrade behaviour x client
// flags.
// Part 3 (scripted client) against a TLS-configured endpoint.
package c04

import (
	"bufio"
	"bytes"
	"crypto/tls"
	"fmt"
	"strings"
	"testing"
	"time"

	"github.com/bokysan/socketace/v2/internal/server"
	"github.com/bokysan/socketace/v2/internal/socketace"
	"github.com/bokysan/socketace/v2/internal/util/cert"
	"github.com/bokysan/socketace/v2/verifharness/bubble"
	"github.com/bokysan/socketace/v2/verifharness/mc"
	"github.com/bokysan/socketace/v2/verifharness/netsim"
	"github.com/bokysan/socketace/v2/verifharness/pki"
	"github.com/bokysan/socketace/v2/verifharness/world"
)

var sessions int

var marker = []byte("MARKER-0f3c9a5e-PLAINTEXT-CANARY-7d1b4e2a-THIS-MUST-NOT-BE-SEEN-IN-CLEAR")

type Case struct {
	Part string `json:"part"` // honest | scripted-server | scripted-client
	// honest
	Carrier    string `json:"carrier,omitempty"`
	Encrypted  bool   `json:"encrypted,omitempty"`
	ServerCert bool   `json:"server_cert,omitempty"`
	MustSecure bool   `json:"must_secure,omitempty"`
	Insecure   bool   `json:"insecure,omitempty"`
	ClientTLS  string `json:"client_tls,omitempty"` // key-mismatch | cert-file-missing: the client cannot load its own TLS material
	// Reconnect: after the first (protected) session carried data the carrier is cut and the server comes back
	// WITHOUT a certificate; the next local connection makes the client establish a second session
	Reconnect bool `json:"reconnect,omitempty"`
	// scripted server
	Announce string `json:"announce,omitempty"`
	Upgrade  string `json:"upgrade,omitempty"`
	Post     string `json:"post,omitempty"`
	// scripted client
	Script string `json:"script,omitempty"`
}

func (c Case) String() string {
	switch c.Part {
	case "honest":
		if c.Reconnect {
			return fmt.Sprintf("honest %s serverCert=%v mustSecure=%v insecure=%v, then the session is lost and the server returns without a certificate", c.Carrier, c.ServerCert, c.MustSecure, c.Insecure)
		}
		if c.ClientTLS != "" {
			return fmt.Sprintf("honest %s encrypted=%v serverCert=%v mustSecure=%v insecure=%v clientTLS=%s", c.Carrier, c.Encrypted, c.ServerCert, c.MustSecure, c.Insecure, c.ClientTLS)
		}
		return fmt.Sprintf("honest %s encrypted=%v serverCert=%v mustSecure=%v insecure=%v", c.Carrier, c.Encrypted, c.ServerCert, c.MustSecure, c.Insecure)
	case "scripted-server":
		return fmt.Sprintf("scripted-server announce=%q upgrade=%q post=%q mustSecure=%v insecure=%v", c.Announce, c.Upgrade, c.Post, c.MustSecure, c.Insecure)
	}
	if c.Part == "honest-real-upstream" {
		return fmt.Sprintf("honest-real-upstream %s:// serverCert=%v mustSecure=%v insecure=%v", c.Carrier, c.ServerCert, c.MustSecure, c.Insecure)
	}
	if c.Part == "scripted-client-endpoint" {
		return fmt.Sprintf("scripted-client-endpoint %s+tls prefix=%s", c.Carrier, c.Script)
	}
	return fmt.Sprintf("scripted-client %s", c.Script)
}

// ---- part 1 -------------------------------------------------------------------------------

func honest(t *testing.T, c Case) (kind, detail string) {
	res := bubble.Run(t, func() {
		var caps []*netsim.MemConn
		o := world.Options{Carrier: c.Carrier, TLS: c.Encrypted, Channels: []string{"x"}, Keep: true, MustSecure: c.MustSecure, Insecure: c.Insecure, ClientKnowsCA: true, ClientTLSBroken: c.ClientTLS,
			OnDial: func(cl, sv *netsim.MemConn) {
				cl.CaptureOutgoing()
				sv.CaptureOutgoing()
				caps = append(caps, cl, sv)
			}}
		if c.ServerCert || c.Encrypted {
			o.ServerCert = "good"
		}
		w, err := world.New(o)
		if err != nil {
			kind, detail = "setup", err.Error()
			return
		}
		if a, b := w.StdioWriters(); a != nil {
			a.CaptureOutgoing()
			b.CaptureOutgoing()
			caps = append(caps, a, b)
		}
		var dg *world.DgramConn
		app := w.OpenApp("x", nil)
		app.StartWrite(marker)
		bubble.Wait()
		bubble.Advance(60 * time.Second)
		if tg := w.Chans[0].Target(0); tg != nil {
			// the same marker travels back: websocket frames from the client are masked, those from
			// the server are not
			tg.StartWrite(marker)
			bubble.Wait()
			bubble.Advance(30 * time.Second)
		}
		if w.Dns != nil && len(w.Dns.Conns) > 0 {
			dg = w.Dns.Conns[0]
		}
		established := w.Chans[0].NumTargets() > 0 && bytes.Equal(w.Chans[0].Target(0).Bytes(), marker)
		var wire []byte
		for _, cc := range caps {
			wire = append(wire, cc.Captured()...)
		}
		if dg != nil {
			wire = append(wire, dg.Wire()...)
		}
		inClear := bytes.Contains(wire, marker)
		protected := c.Encrypted || c.ServerCert // TLS carrier, or StartTLS offered by the server
		if c.Carrier == "stdio" && c.Encrypted {
			protected = true
		}
		switch {
		case c.MustSecure && established && !protected:
			kind, detail = "secure-required-but-plaintext-session", "the client was told to require security, the session is not TLS-protected, yet application data was carried"
		case established && protected && inClear:
			kind, detail = "payload-in-clear-on-secure-session", "the session is TLS-protected (carrier TLS or StartTLS) but the application payload is visible on the carrier"
		case established && !protected && !inClear && c.Carrier != "dns":
			kind, detail = "harness-capture-blind", "plain session but the marker was not seen on the carrier: the capture does not see the data path"
		}
		if established {
			sessions++
		}
		if kind == "" && c.Reconnect && established && w.Sock != nil {
			// second session of the same client: the required security must still be required
			w.Sock.ServerConfig.Certificate, w.Sock.ServerConfig.PrivateKey = "", ""
			w.Sock.ServerConfig.CertificateFile, w.Sock.ServerConfig.PrivateKeyFile = "", ""
			if cl := w.CarrierClientEnd(0); cl != nil {
				cl.Cut(false, false)
			}
			bubble.Wait()
			bubble.Advance(2 * time.Second)
			marker2 := append([]byte("second-session:"), marker...)
			before := w.Chans[0].NumTargets()
			app2 := w.OpenApp("x", nil)
			app2.StartWrite(marker2)
			bubble.Wait()
			bubble.Advance(60 * time.Second)
			for i := before; i < w.Chans[0].NumTargets(); i++ {
				if bytes.Equal(w.Chans[0].Target(i).Bytes(), marker2) && c.MustSecure {
					kind, detail = "secure-required-but-plaintext-session", "after the protected session was lost the server came back without a certificate (no StartTLS): the client, told to require security, established a second session and carried application data over it"
				}
			}
		}
	})
	if res.Panic != "" {
		kind, detail = "panic", res.Panic
	}
	return
}

func honestUDP(c Case) (kind, detail string) {
	bubble.SetupLogging()
	o := world.UDPOptions{Options: world.Options{Carrier: "udp", Channels: []string{"x"}, Keep: true, MustSecure: c.MustSecure, Insecure: true, ClientKnowsCA: true}}
	if c.ServerCert {
		o.ServerCert = "good"
	}
	if c.Encrypted {
		// "already encrypted" on the packet carrier = the KCP block cipher keyed by the password in
		// the URL: it is not TLS, so everything required of an unencrypted carrier still applies
		o.ServerSecret, o.ClientSecret = "s3cret-shared", "s3cret-shared"
	}
	u, err := world.NewUDP(o)
	if err != nil {
		return "setup", err.Error()
	}
	defer u.Shutdown()
	u.Net.Capture = true
	app := u.OpenApp("x", nil)
	app.StartWrite(marker)
	want := c.ServerCert || !c.MustSecure
	deadline := time.Now().Add(map[bool]time.Duration{true: 45 * time.Second, false: 6 * time.Second}[want])
	for time.Now().Before(deadline) {
		if tg := u.Chans[0].Target(0); tg != nil && tg.Obs().Got >= len(marker) {
			break
		}
		time.Sleep(10 * time.Millisecond)
	}
	established := u.Chans[0].NumTargets() > 0 && bytes.Equal(u.Chans[0].Target(0).Bytes(), marker)
	inClear := bytes.Contains(u.Net.Captured(), marker)
	switch {
	case c.MustSecure && established && !c.ServerCert:
		return "secure-required-but-plaintext-session", fmt.Sprintf("UDP (shared secret: %v): data carried although security is required and the server offers no StartTLS", c.Encrypted)
	case established && c.ServerCert && inClear && !c.Encrypted:
		return "payload-in-clear-on-secure-session", "UDP: StartTLS session but the payload is visible in the datagrams"
	case !established && want:
		return "inconclusive", "no session within the real-time horizon: " + u.Front.Err
	}
	return "", ""
}

// ---- part 2: scripted server -------------------------------------------------------------------

var announces = []string{"200+StartTLS", "200", "200+starttls", "200+ StartTLS ,x", "200+dup", "200+v9", "404", "503", "garbage", "close"}
var upgrades = []string{"101", "101+security-header", "101-then-close", "200", "503", "garbage"}
var posts = []string{"tls-trusted", "tls-untrusted", "plaintext"}

func scriptedServer(t *testing.T, c Case) (kind, detail string) {
	res := bubble.Run(t, func() {
		p := pki.Bubble()
		cl, sv := netsim.Pipe(netsim.Addr{Net: "mem", Str: "client"}, netsim.Addr{Net: "mem", Str: "scripted"}, 0)
		cl.CaptureOutgoing()
		advertised := false
		go func() {
			rd := bufio.NewReader(sv)
			readReq := func() (string, bool) {
				var all string
				for {
					l, err := rd.ReadString('\n')
					if err != nil {
						return all, false
					}
					all += l
					if l == "\r\n" {
						return all, true
					}
				}
			}
			if _, ok := readReq(); !ok {
				return
			}
			hdr := "Protocol-Version: v2.0.0\r\nServer: scripted\r\n"
			switch c.Announce {
			case "200+StartTLS":
				sv.Write([]byte("HTTP/1.1 200 OK\r\n" + hdr + "Capabilities: StartTLS\r\n\r\n"))
			case "200":
				sv.Write([]byte("HTTP/1.1 200 OK\r\n" + hdr + "\r\n"))
			case "200+starttls":
				sv.Write([]byte("HTTP/1.1 200 OK\r\n" + hdr + "Capabilities: starttls\r\n\r\n"))
			case "200+ StartTLS ,x":
				sv.Write([]byte("HTTP/1.1 200 OK\r\n" + hdr + "Capabilities:  StartTLS ,x\r\n\r\n"))
			case "200+dup":
				sv.Write([]byte("HTTP/1.1 200 OK\r\n" + hdr + "Capabilities: x\r\nCapabilities: StartTLS\r\n\r\n"))
			case "200+v9":
				sv.Write([]byte("HTTP/1.1 200 OK\r\nProtocol-Version: v9.0.0\r\nCapabilities: StartTLS\r\n\r\n"))
			case "404":
				sv.Write([]byte("HTTP/1.1 404 Not Found\r\n\r\n"))
			case "503":
				sv.Write([]byte("HTTP/1.1 503 Service Unavailable\r\n\r\n"))
			case "garbage":
				sv.Write([]byte("\x00\x01\x02 not a status line\r\n\r\n"))
			case "close":
				sv.Close()
				return
			}
			req, ok := readReq()
			if !ok {
				return
			}
			wantsTLS := strings.Contains(strings.ToLower(req), "security: starttls")
			switch c.Upgrade {
			case "101":
				sv.Write([]byte("HTTP/1.1 101 Switching Protocols\r\nConnection: upgrade\r\nUpgrade: socketace/v2.0.0\r\n\r\n"))
			case "101+security-header":
				sv.Write([]byte("HTTP/1.1 101 Switching Protocols\r\nConnection: upgrade\r\nUpgrade: socketace/v2.0.0\r\nSecurity: StartTLS\r\n\r\n"))
			case "101-then-close":
				sv.Write([]byte("HTTP/1.1 101 Switching Protocols\r\n\r\n"))
				sv.Close()
				return
			case "200":
				sv.Write([]byte("HTTP/1.1 200 OK\r\n\r\n"))
			case "503":
				sv.Write([]byte("HTTP/1.1 503 Service Unavailable\r\n\r\n"))
			case "garbage":
				sv.Write([]byte("garbage\r\n\r\n"))
			}
			_ = wantsTLS
			switch c.Post {
			case "tls-trusted", "tls-untrusted":
				pair := p.Server
				if c.Post == "tls-untrusted" {
					pair = p.Untrusted
				}
				crt, err := tls.X509KeyPair([]byte(pair.CertPEM), []byte(pair.KeyPEM))
				if err != nil {
					return
				}
				// the buffered reader may hold the first TLS bytes
				tc := tls.Server(&prefixConn{MemConn: sv, r: rd}, &tls.Config{Certificates: []tls.Certificate{crt}})
				if tc.Handshake() != nil {
					return
				}
				buf := make([]byte, 4096)
				for {
					if _, err := tc.Read(buf); err != nil {
						return
					}
				}
			case "plaintext":
				buf := make([]byte, 4096)
				for {
					if _, err := rd.Read(buf); err != nil {
						return
					}
				}
			}
		}()
		switch c.Announce {
		case "200+StartTLS", "200+starttls", "200+ StartTLS ,x", "200+v9":
			advertised = true // "200+dup" (a second, contradicting Capabilities header) is ambiguous: not counted as an offer
		}
		cfg := &cert.ClientConfig{InsecureSkipVerify: c.Insecure}
		cfg.CaCertificate = p.CA
		type result struct {
			cc  *socketace.ClientConnection
			err error
		}
		done := make(chan result, 1)
		go func() {
			// the lines after the dial in upstream.Socket.Connect
			cc, err := socketace.NewClientConnection(cl, cfg, false, "server.test")
			if err == nil && c.MustSecure && !cc.Secure() {
				err = fmt.Errorf("Could not establish a secure connection")
				cc = nil
			}
			done <- result{cc, err}
		}()
		bubble.Wait()
		bubble.Advance(45 * time.Second)
		var r result
		select {
		case r = <-done:
		default:
			return // still waiting: no session
		}
		if r.err != nil || r.cc == nil {
			return // no session: always acceptable here
		}
		// a session exists: application data (through a multiplexer in reality) is written
		go r.cc.Write(marker)
		bubble.Wait()
		bubble.Advance(5 * time.Second)
		wire := cl.Captured()
		inClear := bytes.Contains(wire, marker)
		secure := r.cc.Secure()
		switch {
		case c.MustSecure && !secure:
			kind, detail = "secure-required-but-plaintext-session", "Connect succeeded under mustSecure with Secure()=false"
		case secure && inClear:
			kind, detail = "payload-in-clear-on-secure-session", fmt.Sprintf("the client reports the session secure (%s) but wrote the payload in clear", r.cc.SecurityTech())
		case c.MustSecure && inClear:
			kind, detail = "secure-required-but-payload-in-clear", "application data in clear although security is required"
		case advertised && (!secure || r.cc.SecurityTech() != "tls"):
			kind, detail = "starttls-offered-but-plaintext-session", fmt.Sprintf("the server advertised StartTLS on an unencrypted carrier; the client established a session with Secure()=%v tech=%q instead of TLS or no session", secure, r.cc.SecurityTech())
		case secure && c.Post == "tls-untrusted" && !c.Insecure:
			kind, detail = "untrusted-certificate-accepted", "StartTLS completed with a certificate from a foreign CA without the insecure flag"
		}
	})
	if res.Panic != "" {
		kind, detail = "panic", res.Panic
	}
	return
}

type prefixConn struct {
	*netsim.MemConn
	r *bufio.Reader
}

func (p *prefixConn) Read(b []byte) (int, error) { return p.r.Read(b) }

// ---- part 3: scripted client against a TLS-configured endpoint ----------------------------------

var clientScripts = []string{"plaintext-announce", "plaintext-garbage", "tls-then-plain-announce-starttls", "tls-then-proper", "tls-hello-then-plaintext"}

func scriptedClient(t *testing.T, c Case) (kind, detail string) {
	res := bubble.Run(t, func() {
		p := pki.Bubble()
		var srvCfg cert.ServerConfig
		srvCfg.Certificate, srvCfg.PrivateKey = p.Server.CertPEM, p.Server.KeyPEM
		tc, err := srvCfg.GetTlsConfig()
		if err != nil {
			kind, detail = "setup", err.Error()
			return
		}
		cl, sv := netsim.Pipe(netsim.Addr{Net: "mem", Str: "client"}, netsim.Addr{Net: "mem", Str: "server"}, 0)
		// what tls.Listen + acceptConnection do for a +tls endpoint: secure=true over a TLS server conn
		done := make(chan error, 1)
		go func() {
			done <- server.AcceptConnection(tls.Server(sv, tc), &srvCfg, true, server.Channels{})
		}()
		announce := "X-SOCKETACE / HTTP/1.1\r\nAccepts-Protocol-Version: v2.0.0\r\n\r\n"
		upgrade := "GET / HTTP/1.1\r\nConnection: upgrade\r\nUpgrade: socketace/v2.0.0\r\n\r\n"
		tlsDone := false
		switch c.Script {
		case "plaintext-announce":
			cl.Write([]byte(announce + upgrade))
		case "plaintext-garbage":
			cl.Write([]byte("\x00\x01\x02\x03 garbage garbage garbage garbage\r\n\r\n"))
		case "tls-hello-then-plaintext":
			cl.Write([]byte("\x16\x03\x01\x00\x05hello"))
			bubble.Wait()
			cl.Write([]byte(announce + upgrade))
		case "tls-then-plain-announce-starttls", "tls-then-proper":
			tcl := tls.Client(cl, &tls.Config{InsecureSkipVerify: true})
			go func() {
				if tcl.Handshake() != nil {
					return
				}
				tlsDone = true
				if c.Script == "tls-then-proper" {
					tcl.Write([]byte(announce + upgrade))
				} else {
					tcl.Write([]byte(announce + "GET / HTTP/1.1\r\nConnection: upgrade\r\nUpgrade: socketace/v2.0.0\r\nSecurity: StartTLS\r\n\r\n"))
				}
			}()
		}
		bubble.Wait()
		bubble.Advance(45 * time.Second)
		var aerr error
		finished := false
		select {
		case aerr = <-done:
			finished = true
		default:
		}
		session := finished && aerr == nil
		switch c.Script {
		case "tls-then-proper":
			if !session {
				kind, detail = "no-session", fmt.Sprintf("a proper TLS client was not admitted by the TLS endpoint (tlsDone=%v err=%v)", tlsDone, aerr)
			}
		case "tls-then-plain-announce-starttls":
			// StartTLS requested on an already secure carrier: refused (503) - or accepted, both keep TLS
		default:
			if session {
				kind, detail = "tls-endpoint-completed-plaintext-session", fmt.Sprintf("script %s: an endpoint configured for TLS established a session from plaintext input", c.Script)
			}
		}
	})
	if res.Panic != "" {
		kind, detail = "panic", res.Panic
	}
	return
}

// ---- driver -----------------------------------------------------------------------------------

func cases() []Case {
	var out []Case
	for _, carrier := range []string{"stream", "ws", "stdio", "dns", "udp"} {
		for _, enc := range []bool{false, true} {
			if enc && carrier == "dns" {
				continue
			}
			for _, crt := range []bool{false, true} {
				for _, ms := range []bool{false, true} {
					for _, ins := range []bool{false, true} {
						out = append(out, Case{Part: "honest", Carrier: carrier, Encrypted: enc, ServerCert: crt, MustSecure: ms, Insecure: ins})
						if !enc && crt && carrier == "stream" {
							out = append(out, Case{Part: "honest", Carrier: carrier, ServerCert: true, MustSecure: ms, Insecure: ins, Reconnect: true})
						}
						if !enc && crt && carrier != "udp" {
							// a StartTLS-capable server and a client whose own certificate material cannot be loaded:
							// whatever the client does, it must not carry the payload in the clear
							for _, broken := range []string{"key-mismatch", "cert-file-missing"} {
								out = append(out, Case{Part: "honest", Carrier: carrier, ServerCert: true, MustSecure: ms, Insecure: ins, ClientTLS: broken})
							}
						}
					}
				}
			}
		}
	}
	for _, a := range announces {
		for _, u := range upgrades {
			for _, p := range posts {
				for _, ms := range []bool{false, true} {
					for _, ins := range []bool{false, true} {
						out = append(out, Case{Part: "scripted-server", Announce: a, Upgrade: u, Post: p, MustSecure: ms, Insecure: ins})
					}
				}
			}
		}
	}
	for _, s := range clientScripts {
		out = append(out, Case{Part: "scripted-client", Script: s})
	}
	for _, sp := range realSpellings {
		for _, crt := range []bool{false, true} {
			for _, ms := range []bool{false, true} {
				for _, ins := range []bool{false, true} {
					out = append(out, Case{Part: "honest-real-upstream", Carrier: sp.client, Encrypted: sp.tls, ServerCert: crt, MustSecure: ms, Insecure: ins})
				}
			}
		}
	}
	for _, carrier := range []string{"stdio", "stream", "ws"} {
		for _, s := range endpointScripts() {
			out = append(out, Case{Part: "scripted-client-endpoint", Carrier: carrier, Script: s})
		}
	}
	return out
}

func run(t *testing.T, c Case) (string, string) {
	switch c.Part {
	case "honest":
		if c.Carrier == "udp" {
			return honestUDP(c)
		}
		return honest(t, c)
	case "scripted-server":
		return scriptedServer(t, c)
	case "scripted-client-endpoint":
		return scriptedClientEndpoint(t, c)
	case "honest-real-upstream":
		return honestReal(c)
	}
	return scriptedClient(t, c)
}

func TestCheck(t *testing.T) {
	r := mc.New(t, "C04")
	defer r.Finish()
	r.CrashFails = true
	record := func(c Case, kind, detail string) {
		r.Eval(1)
		r.Transition(3)
		if kind == "inconclusive" || kind == "setup" {
			r.Inconclusive(c.String() + ": " + detail)
			return
		}
		r.State(mc.Hash(c.String(), kind))
		if c.Part != "honest" || c.MustSecure || c.ServerCert {
			r.Nontrivial(mc.Hash(c.String()))
		}
		if kind != "" {
			cls := c.Part
			if c.Part == "honest" || c.Part == "honest-real-upstream" {
				cls += "|" + c.Carrier
			}
			r.Fail(kind+"|"+cls, fmt.Sprintf("%s: %s", c, detail), len(c.String()), c)
		}
	}
	if r.Replay != nil {
		var c Case
		r.DecodeReplay(&c)
		k, d := run(t, c)
		record(c, k, d)
		return
	}
	all := cases()
	for idx, c := range all {
		if !r.Mine(idx) {
			continue
		}
		var k, d string
		r.Guard(idx, 120*time.Second, "hang|"+c.Part, c.String(), c, func() { k, d = run(t, c) })
		record(c, k, d)
		if idx%97 == 0 {
			r.Sample(map[string]any{"case": c.String(), "outcome": k})
		}
		r.Progress(idx + 1)
	}
	r.Note("cases_total", len(all))
	r.Note("sum_honest_sessions_established", sessions)
	r.Note("sum_real_upstream_sessions_established", realSessions)
}
