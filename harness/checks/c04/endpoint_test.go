package c04

// Part 4: a scripted peer against the REAL TLS-configured endpoints (IoServer.Startup for
// stdio+tls, the SocketServer accept loop behind a TLS listener for tcp+tls, the websocket
// handler behind a TLS listener for https). The peer first sends something that makes the TLS
// handshake fail (or nothing that is TLS at all), lets the server react, and then speaks the
// plaintext session handshake. Oracle: "an endpoint configured for TLS never completes a
// plaintext session" - the server never answers the upgrade with 101 in clear, and no
// application byte written afterwards reaches a target.

import (
	"bytes"
	"fmt"
	"io"
	"net"
	"strings"
	"testing"
	"time"

	"github.com/bokysan/socketace/v2/verifharness/bubble"
	"github.com/bokysan/socketace/v2/verifharness/world"
)

var endpointPrefixes = map[string]string{
	"none":              "",
	"ping":              "PING\n",
	"four-bytes":        "PING",
	"tls-header-only":   "\x16\x03\x01\x00\x05",
	"tls-bad-handshake": "\x16\x03\x01\x00\x05hello",
	"tls-alert":         "\x15\x03\x03\x00\x02\x02\x28",
	"ssl2-hello":        "\x80\x2e\x01\x00\x02",
	"http-get":          "GET / HTTP/1.1\r\n\r\n",
}

func endpointScripts() []string {
	return []string{"none", "ping", "four-bytes", "tls-header-only", "tls-bad-handshake", "tls-alert", "ssl2-hello", "http-get"}
}

func scriptedClientEndpoint(t *testing.T, c Case) (kind, detail string) {
	res := bubble.Run(t, func() {
		o := world.Options{Carrier: c.Carrier, TLS: true, ServerCert: "good", Channels: []string{"x"}, Keep: true}
		if c.Carrier == "stream" {
			o.RealLoop = "socket"
		}
		w, err := world.New(o)
		if err != nil {
			kind, detail = "setup", err.Error()
			return
		}
		var wr io.Writer
		var rd io.Reader
		switch c.Carrier {
		case "stdio":
			wr, rd = w.Front.IO.Output, w.Front.IO.Input
		default:
			conn, err := w.Listener.Dial()
			if err != nil {
				kind, detail = "setup", err.Error()
				return
			}
			wr, rd = conn, conn
			defer conn.Close()
		}
		var got bytes.Buffer
		gotCh := make(chan []byte, 1024)
		go func() {
			buf := make([]byte, 4096)
			for {
				n, err := rd.Read(buf)
				if n > 0 {
					gotCh <- append([]byte{}, buf[:n]...)
				}
				if err != nil {
					return
				}
			}
		}()
		drain := func() {
			for {
				select {
				case b := <-gotCh:
					got.Write(b)
				default:
					return
				}
			}
		}
		send := func(s string) {
			if s == "" {
				return
			}
			go wr.Write([]byte(s))
			bubble.Wait()
			bubble.Advance(time.Second)
			drain()
		}
		path := "/"
		if c.Carrier == "ws" {
			path = "/ws"
		}
		send(endpointPrefixes[c.Script])
		send("X-SOCKETACE " + path + " HTTP/1.1\r\nAccepts-Protocol-Version: v2.0.0\r\n\r\n")
		send("GET " + path + " HTTP/1.1\r\nConnection: upgrade\r\nUpgrade: socketace/v2.0.0\r\n\r\n")
		send(string(marker))
		bubble.Advance(45 * time.Second)
		bubble.Wait()
		drain()
		out := got.String()
		if strings.Contains(out, " 101 ") {
			kind, detail = "tls-endpoint-completed-plaintext-session", fmt.Sprintf("%s endpoint configured for TLS, peer sent %q and then the plaintext handshake: the server answered the upgrade with 101 in clear (%q)", c.Carrier, endpointPrefixes[c.Script], out)
			return
		}
		if strings.Contains(out, "HTTP/1.1 200") && strings.Contains(strings.ToLower(out), "socketace") {
			kind, detail = "tls-endpoint-spoke-plaintext-handshake", fmt.Sprintf("%s endpoint configured for TLS answered a plaintext announce with 200 (%q)", c.Carrier, out)
			return
		}
		if n := w.Chans[0].NumTargets(); n > 0 {
			kind, detail = "tls-endpoint-served-plaintext-peer", fmt.Sprintf("%d target connection(s) opened for a peer that never completed TLS", n)
		}
	})
	if kind == "" && res.Panic != "" {
		kind, detail = "panic", res.Panic
	}
	return
}

var _ net.Conn
