// C06 — the session handshake admits exactly well-formed, compatible peers.
//
// Engine S x B: byte strings sent in place of the two handshake messages are enumerated
// (grammar products, the complete single-edit neighbourhood of the valid exchange, all
// short strings over an "interesting bytes" set, oversized members) and fed to the real
// NewServerConnection / NewClientConnection over an in-memory connection inside a bubble
// under every enumerated segmentation of the byte stream into transport reads.
package c06

import (
	"bytes"
	"fmt"
	"regexp"
	"strings"
	"testing"
	"time"

	"github.com/bokysan/socketace/v2/internal/server"
	"github.com/bokysan/socketace/v2/internal/socketace"
	"github.com/bokysan/socketace/v2/verifharness/bubble"
	"github.com/bokysan/socketace/v2/verifharness/mc"
	"github.com/bokysan/socketace/v2/verifharness/netsim"
)

type Case struct {
	Role    string `json:"role"` // server | client
	Input   []byte `json:"input"`
	Seg     string `json:"seg"` // whole | bytes | split:<n> | lines
	Trail   []byte `json:"trail,omitempty"`
	Origin  string `json:"origin"`
	Verdict string `json:"verdict"` // must-accept | must-reject | dont-care (reference classification)
}

const (
	announce = "X-SOCKETACE / HTTP/1.1\r\nAccepts-Protocol-Version: v2.0.0\r\nUser-Agent: socketace/unknown\r\n\r\n"
	upgrade  = "GET / HTTP/1.1\r\nConnection: upgrade\r\nUpgrade: socketace/v2.0.0\r\nUser-Agent: socketace/unknown\r\n\r\n"
	resp200  = "HTTP/1.1 200 OK\r\nProtocol-Version: v2.0.0\r\nServer: socketace/unknown\r\n\r\n"
	resp101  = "HTTP/1.1 101 Switching Protocols\r\nConnection: upgrade\r\nProtocol-Version: v2.0.0\r\nServer: socketace/unknown\r\nUpgrade: socketace/v2.0.0\r\n\r\n"
)

type outcome struct {
	Class    string // accepted | rejected | pending | panic
	Statuses string // status codes the peer under test wrote, e.g. "200,101"
	TrailOK  bool
	Closed   bool // the peer under test closed its end after refusing
	Detail   string
}

var statusRe = regexp.MustCompile(`HTTP/1\.1 (\d{3})`)

func chunks(input []byte, seg string) [][]byte {
	switch {
	case seg == "whole" || len(input) == 0:
		return [][]byte{input}
	case seg == "bytes":
		var out [][]byte
		for i := range input {
			out = append(out, input[i:i+1])
		}
		return out
	case seg == "lines":
		var out [][]byte
		rest := input
		for len(rest) > 0 {
			i := bytes.IndexByte(rest, '\n')
			if i < 0 {
				out = append(out, rest)
				break
			}
			out = append(out, rest[:i+1])
			rest = rest[i+1:]
		}
		return out
	case strings.HasPrefix(seg, "split:"):
		var n int
		fmt.Sscanf(seg, "split:%d", &n)
		if n <= 0 || n >= len(input) {
			return [][]byte{input}
		}
		return [][]byte{input[:n], input[n:]}
	}
	return [][]byte{input}
}

// run executes one case in a bubble.
func run(t *testing.T, c Case) (o outcome) {
	res := bubble.Run(t, func() {
		h, p := netsim.Pipe(netsim.Addr{Net: "mem", Str: "harness"}, netsim.Addr{Net: "mem", Str: "peer"}, 0)
		p.CaptureOutgoing()
		type result struct {
			conn interface {
				Read([]byte) (int, error)
			}
			err error
			pan string
		}
		done := make(chan result, 1)
		go func() {
			var r result
			defer func() {
				if x := recover(); x != nil {
					r.pan = fmt.Sprint(x)
				}
				done <- r
			}()
			if c.Role == "server" && len(c.Trail) == 0 {
				// the real accept path: on refusal it is AcceptConnection that closes the connection
				err := server.AcceptConnection(p, nil, false, server.Channels{})
				if err == nil {
					r.conn = p
				}
				r.err = err
			} else if c.Role == "server" {
				conn, err := socketace.NewServerConnection(p, nil, false)
				if conn != nil && err == nil {
					r.conn = conn
				}
				r.err = err
			} else {
				conn, err := socketace.NewClientConnection(p, nil, false, "server.test")
				if conn != nil && err == nil {
					r.conn = conn
				}
				r.err = err
			}
		}()
		in := append(append([]byte{}, c.Input...), c.Trail...)
		var segs [][]byte
		if len(c.Trail) > 0 && c.Seg == "whole" {
			segs = [][]byte{in} // handshake and the first bytes of the next layer coalesced into one read
		} else {
			segs = append(chunks(c.Input, c.Seg), c.Trail)
		}
		bubble.Wait()
		for _, s := range segs {
			if len(s) > 0 {
				h.Write(s)
				bubble.Wait()
			}
		}
		var r result
		got := false
		select {
		case r = <-done:
			got = true
		default:
		}
		if !got {
			// the peer is still waiting for input: end of stream, then see
			o.Class = "pending"
			h.Close()
			bubble.Wait()
			select {
			case r = <-done:
				got = true
				if r.conn != nil {
					o.Class = "accepted-after-eof"
				}
			default:
				o.Detail = "still blocked after EOF"
			}
		} else if r.pan != "" {
			o.Class, o.Detail = "panic", r.pan
		} else if r.conn != nil {
			o.Class = "accepted"
			if len(c.Trail) > 0 {
				buf := make([]byte, len(c.Trail)+8)
				n := 0
				rd := make(chan struct{})
				go func() {
					for n < len(c.Trail) {
						m, err := r.conn.Read(buf[n:])
						n += m
						if err != nil {
							break
						}
					}
					close(rd)
				}()
				bubble.Wait()
				select {
				case <-rd:
				default:
				}
				o.TrailOK = bytes.Equal(buf[:n], c.Trail)
				if !o.TrailOK {
					o.Detail = fmt.Sprintf("next layer read %q, want %q", buf[:n], c.Trail)
				}
			}
		} else {
			o.Class = "rejected"
			o.Closed = p.Closed()
			if r.err != nil {
				o.Detail = r.err.Error()
				if len(o.Detail) > 120 {
					o.Detail = o.Detail[:120]
				}
			}
		}
		if got && r.pan != "" {
			o.Class, o.Detail = "panic", r.pan
		}
		var st []string
		for _, m := range statusRe.FindAllSubmatch(p.Captured(), -1) {
			st = append(st, string(m[1]))
		}
		if c.Role == "client" {
			st = nil // the client writes requests, not statuses; record how many requests it sent
			st = append(st, fmt.Sprintf("reqs=%d", bytes.Count(p.Captured(), []byte("\r\n\r\n"))))
		}
		o.Statuses = strings.Join(st, ",")
		h.Close()
		p.Close()
		bubble.Advance(time.Second)
	})
	if res.Panic != "" {
		o.Class, o.Detail = "panic", res.Panic
	}
	return
}

// ---- reference classification (three-valued) -----------------------------------------------

type msg struct {
	line    string
	headers map[string][]string // lower-cased names
	ok      bool                // syntactically plain: CRLF line ends, "Name: value" headers
}

func splitMsgs(in []byte) (msgs []msg, rest []byte, complete int) {
	rest = in
	for i := 0; i < 2; i++ {
		j := bytes.Index(rest, []byte("\r\n\r\n"))
		if j < 0 {
			return
		}
		raw := string(rest[:j])
		rest = rest[j+4:]
		lines := strings.Split(raw, "\r\n")
		m := msg{line: lines[0], headers: map[string][]string{}, ok: true}
		for _, l := range lines[1:] {
			k := strings.Index(l, ": ")
			if k <= 0 || strings.ContainsAny(l[:k], " \t\r\n\x00") || strings.ContainsAny(l, "\n\r\x00") {
				m.ok = false
				continue
			}
			name := strings.ToLower(l[:k])
			m.headers[name] = append(m.headers[name], l[k+2:])
		}
		if strings.ContainsAny(raw, "\x00\x80\xff") || strings.Contains(strings.ReplaceAll(raw, "\r\n", ""), "\n") || strings.Contains(strings.ReplaceAll(raw, "\r\n", ""), "\r") {
			m.ok = false
		}
		msgs = append(msgs, m)
		complete++
	}
	return
}

func plainTokens(v string) ([]string, bool) {
	// comma separated, optional blanks: plain if every token is printable without blanks inside
	parts := strings.Split(v, ",")
	var out []string
	for _, p := range parts {
		p = strings.Trim(p, " ")
		if strings.ContainsAny(p, " \t") {
			return nil, false
		}
		out = append(out, p)
	}
	return out, true
}

var canonicalServerInputs = map[string]bool{
	announce + upgrade: true,
	"X-SOCKETACE / HTTP/1.1\r\nAccepts-Protocol-Version: v1.0.0, v2.0.0\r\n\r\n" + upgrade:                  true,
	"X-SOCKETACE / HTTP/1.1\r\nAccepts-Protocol-Version: v2.0.0, v1.0.0\r\nUser-Agent: x\r\n\r\n" + upgrade: true,
	"X-SOCKETACE / HTTP/1.1\r\nAccepts-Protocol-Version: v2.0.0\r\nUser-Agent: x\r\n\r\n" + upgrade:         true,
}

// lenient re-reads the input the way a tolerant line reader would: bare LF ends a line.
func lenient(in []byte) []byte {
	s := strings.ReplaceAll(string(in), "\r\n", "\n")
	return []byte(strings.ReplaceAll(s, "\n", "\r\n"))
}

// classifyServer: what the property demands of a server for this client byte string.
// MUST-accept only for the canonical exchanges; MUST-reject only if the input is invalid
// both under a strict CRLF reading and under a lenient LF reading.
func classifyServer(in []byte) string {
	if canonicalServerInputs[string(in)] {
		return "must-accept"
	}
	a, b := classifyServer1(in), classifyServer1(lenient(in))
	if a == "must-reject" && b == "must-reject" {
		return "must-reject"
	}
	return "dont-care"
}

func classifyServer1(in []byte) string {
	msgs, _, complete := splitMsgs(in)
	if complete == 0 {
		return "must-reject" // no complete announce request at all: never a session
	}
	a := msgs[0]
	parts := strings.Split(a.line, " ")
	if len(parts) < 3 {
		return "must-reject" // request line without two separators
	}
	method := parts[0]
	if !strings.EqualFold(method, "X-SOCKETACE") {
		return "must-reject" // wrong or missing method
	}
	if method != "X-SOCKETACE" || !a.ok {
		return "dont-care"
	}
	vs := a.headers["accepts-protocol-version"]
	if len(vs) == 0 {
		return "must-reject" // offers no version
	}
	supported, plain := false, true
	for _, v := range vs {
		toks, ok := plainTokens(v)
		if !ok {
			plain = false
		}
		for _, tk := range toks {
			if tk == "v2.0.0" {
				supported = true
			} else if strings.EqualFold(tk, "v2.0.0") {
				plain = false
			}
		}
	}
	if !supported {
		if plain {
			return "must-reject" // no supported version token
		}
		return "dont-care"
	}
	if complete < 2 {
		return "must-reject" // no (complete) second message
	}
	u := msgs[1]
	up := strings.Split(u.line, " ")
	if len(up) < 3 {
		return "must-reject"
	}
	if !strings.EqualFold(up[0], "GET") {
		return "must-reject" // upgrade with wrong method
	}
	if up[0] != "GET" || !u.ok {
		return "dont-care"
	}
	conn := u.headers["connection"]
	if len(conn) == 0 || !strings.EqualFold(strings.TrimSpace(conn[0]), "upgrade") {
		if len(conn) > 0 && strings.Contains(strings.ToLower(conn[0]), "upgrade") {
			return "dont-care"
		}
		return "must-reject" // without Connection: upgrade
	}
	ug := u.headers["upgrade"]
	if len(ug) == 0 {
		return "must-reject"
	}
	if ug[0] != "socketace/v2.0.0" {
		if strings.EqualFold(strings.TrimSpace(ug[0]), "socketace/v2.0.0") {
			return "dont-care"
		}
		return "must-reject" // another product or version
	}
	return "dont-care"
}

func classifyClient(in []byte) string {
	if string(in) == resp200+resp101 {
		return "must-accept"
	}
	a, b := classifyClient1(in), classifyClient1(lenient(in))
	if a == "must-reject" && b == "must-reject" {
		return "must-reject"
	}
	return "dont-care"
}

func classifyClient1(in []byte) string {
	msgs, _, complete := splitMsgs(in)
	if complete == 0 {
		return "must-reject"
	}
	code := func(m msg) (string, bool) {
		p := strings.SplitN(m.line, " ", 3)
		if len(p) < 3 {
			return "", false
		}
		return p[1], true
	}
	c1, ok := code(msgs[0])
	if !ok || c1 != "200" {
		if ok && strings.TrimLeft(c1, "+0") == "200" {
			return "dont-care"
		}
		return "must-reject"
	}
	if complete < 2 {
		return "must-reject"
	}
	c2, ok := code(msgs[1])
	if !ok || c2 != "101" {
		if ok && strings.TrimLeft(c2, "+0") == "101" {
			return "dont-care"
		}
		return "must-reject"
	}
	return "dont-care"
}

// ---- enumeration ----------------------------------------------------------------------------

var interesting = []byte{' ', ':', '\r', '\n', ',', 'A', 0x00, 0x80, 0xFF}

type gen struct {
	role   string
	input  []byte
	origin string
}

func inputs(thorough bool) []gen {
	var out []gen
	add := func(role string, in string, origin string) {
		out = append(out, gen{role, []byte(in), origin})
	}
	// grammar products, server role
	methods := []string{"X-SOCKETACE", "GET", "x-socketace", ""}
	uris := []string{"/", ""}
	protos := []string{"HTTP/1.1", ""}
	versions := []string{"\x00absent", "v2.0.0", "v1.0.0", "v1.0.0, v2.0.0", "v2.0.0 ,v9", "V2.0.0", ""}
	hdrNames := []string{"Accepts-Protocol-Version", "accepts-protocol-version", "ACCEPTS-PROTOCOL-VERSION"}
	ends := []string{"\r\n", "\n"}
	for _, m := range methods {
		for _, u := range uris {
			for _, p := range protos {
				for _, v := range versions {
					for _, hn := range hdrNames {
						for _, e := range ends {
							line := m + " " + u + " " + p
							if u == "" && p == "" {
								line = m
							}
							a := line + e
							if v != "\x00absent" {
								a += hn + ": " + v + e
							}
							a += "User-Agent: x" + e + e
							add("server", a+upgrade, "grammar-announce")
						}
					}
				}
			}
		}
	}
	for _, m := range []string{"GET", "POST", "get", ""} {
		for _, c := range []string{"upgrade", "Upgrade", "keep-alive", "\x00absent"} {
			for _, u := range []string{"socketace/v2.0.0", "socketace/v1.0.0", "websocket", "\x00absent"} {
				for _, s := range []string{"\x00absent", "StartTLS", "starttls", "other"} {
					r := m + " / HTTP/1.1\r\n"
					if c != "\x00absent" {
						r += "Connection: " + c + "\r\n"
					}
					if u != "\x00absent" {
						r += "Upgrade: " + u + "\r\n"
					}
					if s != "\x00absent" {
						r += "Security: " + s + "\r\n"
					}
					r += "\r\n"
					add("server", announce+r, "grammar-upgrade")
				}
			}
		}
	}
	// a refused announce followed by an upgrade that tries to carry on (whatever version token
	// it names - the one it offered, none at all, the server's): never a session
	for _, v := range []string{"v9.9.9", "v1.0.0", "", "\x00absent", "v2.0.1", "v2", "2.0.0"} {
		for _, tok := range []string{"socketace/", "socketace", "socketace/" + v, "socketace/v2.0.0", "socketace/ ", "/", ""} {
			a := "X-SOCKETACE / HTTP/1.1\r\n"
			if v != "\x00absent" {
				a += "Accepts-Protocol-Version: " + v + "\r\n"
			}
			a += "User-Agent: x\r\n\r\n"
			u := "GET / HTTP/1.1\r\nConnection: upgrade\r\nUpgrade: " + tok + "\r\n\r\n"
			add("server", a+u, "refused-announce-then-upgrade")
		}
	}
	// header lines (no colon) whose text resembles the errors of a connection that went away
	for _, txt := range []string{"use of closed network connection", "EOF", "broken pipe", "connection reset by peer", "i/o timeout"} {
		add("server", announce+"GET / HTTP/1.1\r\n"+txt+"\r\n\r\n", "error-like-header-text")
		add("server", "X-SOCKETACE / HTTP/1.1\r\n"+txt+"\r\n\r\n"+upgrade, "error-like-header-text")
	}
	// request lines around the reader's buffer size: the line is the line whatever its length
	for _, L := range []int{4000, 4090, 4093, 4094, 4095, 4096, 4097, 4098, 4099, 4100, 4120, 6000, 8191, 8192, 8193} {
		pad := L - len("X-SOCKETACE / HTTP/1.1")
		target := "/" + strings.Repeat("a", pad)
		add("server", "X-SOCKETACE "+target+" HTTP/1.1\r\nAccepts-Protocol-Version: v2.0.0\r\n\r\n"+upgrade, "long-request-line")
		// the same length, but the version header is part of the LINE (no line end before it): no offer
		add("server", "X-SOCKETACE "+target+" HTTP/1.1Accepts-Protocol-Version: v2.0.0\r\n\r\n"+upgrade, "long-request-line-swallowing-header")
		ut := "/" + strings.Repeat("b", L-len("GET / HTTP/1.1"))
		add("server", announce+"GET "+ut+" HTTP/1.1\r\nConnection: upgrade\r\nUpgrade: socketace/v2.0.0\r\n\r\n", "long-upgrade-line")
	}
	add("server", announce, "announce-only")
	add("server", announce+upgrade, "canonical")
	add("server", "X-SOCKETACE / HTTP/1.1\r\nAccepts-Protocol-Version: v1.0.0, v2.0.0\r\n\r\n"+upgrade, "canonical-list")
	// missing blank line
	add("server", strings.TrimSuffix(announce, "\r\n")+upgrade, "missing-blank-line")
	// oversized members
	for _, n := range []int{4095, 4096, 4097, 65536} {
		add("server", "X-SOCKETACE / HTTP/1.1\r\nAccepts-Protocol-Version: v2.0.0\r\nX-Pad: "+strings.Repeat("a", n)+"\r\n\r\n"+upgrade, fmt.Sprintf("oversized-header-%d", n))
	}
	add("server", "X-SOCKETACE /"+strings.Repeat("a", 1<<20)+" HTTP/1.1\r\nAccepts-Protocol-Version: v2.0.0\r\n\r\n"+upgrade, "oversized-line-1MiB")
	// single-edit neighbourhood of the valid exchange
	seed := []byte(announce + upgrade)
	mc.Mutations(seed, interesting, func(_ int, e mc.Edit) bool {
		out = append(out, gen{"server", e.Apply(seed), fmt.Sprintf("edit %c@%d:%02x", e.Kind, e.Pos, e.B)})
		return true
	})
	if thorough {
		// all pairs of edits within the request line of the announce
		rl := len("X-SOCKETACE / HTTP/1.1\r\n")
		var singles []mc.Edit
		mc.Mutations(seed[:rl], interesting, func(_ int, e mc.Edit) bool { singles = append(singles, e); return true })
		for i, e1 := range singles {
			for _, e2 := range singles[i+1:] {
				if e2.Pos <= e1.Pos {
					continue
				}
				// apply the later edit first so positions stay valid
				b := e2.Apply(seed)
				b = e1.Apply(b)
				out = append(out, gen{"server", b, fmt.Sprintf("edit2 %c@%d:%02x %c@%d:%02x", e1.Kind, e1.Pos, e1.B, e2.Kind, e2.Pos, e2.B)})
			}
		}
	}
	// all strings of length <= 3 over the interesting bytes as the whole message
	mc.Strings(interesting, 3, func(_ int, s []byte) bool {
		out = append(out, gen{"server", append([]byte{}, s...), "short-string"})
		out = append(out, gen{"client", append([]byte{}, s...), "short-string"})
		return true
	})
	// client role: status lines / headers
	for _, sl := range []string{"HTTP/1.1 200 OK", "HTTP/1.1 200", "HTTP/1.1 abc OK", "HTTP/1.1 -200 OK", "HTTP/1.1 2000000000000000000000000000000000000000 OK", "HTTP/1.1 409 Conflict", "HTTP/1.1 503 x", "200 OK", "", "HTTP/1.1  200 OK"} {
		for _, pv := range []string{"Protocol-Version: v2.0.0\r\n", "", "Protocol-Version: v9\r\n"} {
			for _, cap := range []string{"", "Capabilities: StartTLS\r\n", "Capabilities: starttls\r\n", "Capabilities:  StartTLS ,x\r\n", "Capabilities: StartTLS\r\nCapabilities: StartTLS\r\n"} {
				add("client", sl+"\r\n"+pv+cap+"\r\n"+resp101, "grammar-response-200")
			}
		}
	}
	for _, sl := range []string{"HTTP/1.1 101 Switching Protocols", "HTTP/1.1 200 OK", "HTTP/1.1 503 Service Unavailable", "HTTP/1.1 101", "garbage", ""} {
		add("client", resp200+sl+"\r\nConnection: upgrade\r\n\r\n", "grammar-response-101")
	}
	add("client", resp200+resp101, "canonical")
	add("client", resp200, "first-only")
	cseed := []byte(resp200 + resp101)
	mc.Mutations(cseed, interesting, func(_ int, e mc.Edit) bool {
		out = append(out, gen{"client", e.Apply(cseed), fmt.Sprintf("edit %c@%d:%02x", e.Kind, e.Pos, e.B)})
		return true
	})
	for _, n := range []int{4095, 4096, 4097, 65536} {
		add("client", "HTTP/1.1 200 OK\r\nProtocol-Version: v2.0.0\r\nX-Pad: "+strings.Repeat("a", n)+"\r\n\r\n"+resp101, fmt.Sprintf("oversized-header-%d", n))
	}
	return out
}

func segsFor(in []byte, thorough bool) []string {
	s := []string{"whole", "bytes", "lines"}
	if len(in) > 70000 {
		return []string{"whole", "lines"}
	}
	if len(in) > 1 {
		s = append(s, fmt.Sprintf("split:%d", len(in)/2))
	}
	if thorough && len(in) < 300 {
		for i := 1; i < len(in); i++ {
			if i != len(in)/2 {
				s = append(s, fmt.Sprintf("split:%d", i))
			}
		}
	}
	return s
}

func evalInput(t *testing.T, r *mc.Run, g gen, thorough bool) {
	verdict := "dont-care"
	if g.role == "server" {
		verdict = classifyServer(g.input)
	} else {
		verdict = classifyClient(g.input)
	}
	short := func(b []byte) string {
		if len(b) > 160 {
			return fmt.Sprintf("%q...(%d bytes)", b[:160], len(b))
		}
		return fmt.Sprintf("%q", b)
	}
	var base outcome
	for i, seg := range segsFor(g.input, thorough) {
		c := Case{Role: g.role, Input: g.input, Seg: seg, Origin: g.origin, Verdict: verdict}
		if len(c.Input) > 4096 {
			// keep replay files small: oversized inputs are regenerated from their origin on replay
		}
		o := run(t, c)
		r.Eval(1)
		r.Transition(len(chunks(g.input, seg)))
		r.State(mc.Hash(g.role, verdict, o.Class, o.Statuses))
		size := len(g.input) + i
		if o.Class == "panic" {
			r.Fail("panic|"+g.role+"|"+originClass(g.origin), fmt.Sprintf("%s role panicked on %s (seg %s): %s", g.role, short(g.input), seg, o.Detail), size, c)
			continue
		}
		accepted := o.Class == "accepted" || o.Class == "accepted-after-eof"
		if verdict == "must-accept" && !accepted {
			r.Fail("rejects-valid|"+g.role+"|"+originClass(g.origin), fmt.Sprintf("%s role did not establish a session for the well-formed %s (seg %s): %s %s", g.role, short(g.input), seg, o.Class, o.Detail), size, c)
		}
		if verdict == "must-reject" && accepted {
			r.Fail("accepts-invalid|"+g.role+"|"+originClass(g.origin), fmt.Sprintf("%s role established a session for %s (seg %s); statuses written: %s", g.role, short(g.input), seg, o.Statuses), size, c)
		}
		if g.role == "server" && o.Class == "rejected" && o.Statuses == "" && !o.Closed {
			r.Fail("reject-without-error-status|server|"+originClass(g.origin), fmt.Sprintf("server refused %s silently: no status line and no close", short(g.input)), size, c)
		}
		if g.role == "server" && o.Class == "rejected" && o.Statuses != "" {
			// an error status must be among what it wrote
			last := o.Statuses[strings.LastIndex(o.Statuses, ",")+1:]
			if (last == "200" || last == "101") && !o.Closed {
				r.Fail("reject-without-error-status|server|"+originClass(g.origin), fmt.Sprintf("server refused %s but neither closed the connection nor wrote an error status (last status line %s)", short(g.input), last), size, c)
			}
		}
		if i == 0 {
			base = o
		} else if o.Class != base.Class || o.Statuses != base.Statuses {
			r.Fail("segmentation-dependent|"+g.role+"|"+originClass(g.origin), fmt.Sprintf("%s role: outcome for %s depends on segmentation: whole=%s/%s, %s=%s/%s", g.role, short(g.input), base.Class, base.Statuses, seg, o.Class, o.Statuses), size, c)
		}
	}
	if verdict != "dont-care" {
		r.Nontrivial(mc.Hash(g.role, g.input))
	}
	// read-ahead: the first bytes of the next layer arrive in the same read as the handshake
	if verdict == "must-accept" {
		trail := []byte("\x01\x02NEXT-LAYER-BYTES\x00\xff 0123456789abcdef")
		for _, seg := range []string{"whole", "bytes"} {
			c := Case{Role: g.role, Input: g.input, Seg: seg, Trail: trail, Origin: g.origin, Verdict: verdict}
			o := run(t, c)
			r.Eval(1)
			r.Transition(2)
			if o.Class == "panic" {
				r.Fail("panic|"+g.role+"|trail", o.Detail, len(g.input), c)
			} else if o.Class != "accepted" || !o.TrailOK {
				r.Fail("readahead-lost|"+g.role, fmt.Sprintf("%s role: bytes following the handshake in the same read were not delivered unchanged (seg %s): %s %s", g.role, seg, o.Class, o.Detail), len(g.input), c)
			}
		}
	}
}

func originClass(o string) string {
	if i := strings.IndexAny(o, " -"); i > 0 {
		return o[:i]
	}
	return o
}

func TestCheck(t *testing.T) {
	r := mc.New(t, "C06")
	defer r.Finish()
	if r.Replay != nil {
		var probe struct {
			Family string `json:"family"`
		}
		r.DecodeReplay(&probe)
		if probe.Family == "starttls-after-status" {
			var tc TlsCase
			r.DecodeReplay(&tc)
			evalTls(t, r, tc)
			return
		}
		if probe.Family == "history" {
			var hc HistCase
			r.DecodeReplay(&hc)
			evalHist(t, r, hc)
			return
		}
		if probe.Family == "ws-carrier" {
			var wc WsCase
			r.DecodeReplay(&wc)
			evalWs(t, r, wc)
			return
		}
		var c Case
		r.DecodeReplay(&c)
		g := gen{c.Role, c.Input, c.Origin}
		evalInput(t, r, g, r.Thorough())
		return
	}
	all := inputs(r.Thorough())
	counts := map[string]int{}
	for idx, g := range all {
		if !r.Mine(idx) {
			continue
		}
		if r.OverBudget() {
			r.Cap(fmt.Sprintf("time budget reached at input %d of %d", idx, len(all)))
			break
		}
		r.Guard(idx, 60*time.Second, "hang|"+g.role+"|"+originClass(g.origin), fmt.Sprintf("%s %q", g.role, g.input[:min(len(g.input), 200)]), Case{Role: g.role, Input: g.input[:min(len(g.input), 70000)], Origin: g.origin}, func() {
			evalInput(t, r, g, r.Thorough())
		})
		counts[g.role+"/"+originClass(g.origin)]++
		if idx%4001 == 0 {
			r.Sample(map[string]any{"role": g.role, "origin": g.origin, "input": fmt.Sprintf("%q", g.input[:min(len(g.input), 120)])})
		}
		r.Progress(idx + 1)
	}
	// a server that can do StartTLS: error statuses must stay refusals whatever the peer does next
	for i, tc := range tlsCases() {
		idx := len(all) + 100 + i
		if !r.Mine(idx) {
			continue
		}
		tc := tc
		r.Guard(idx, 60*time.Second, "hang|server|starttls", tc.String(), tc, func() { evalTls(t, r, tc) })
	}
	for i, wc := range wsCases(r.Thorough()) {
		idx := len(all) + 1000 + i
		if !r.Mine(idx) {
			continue
		}
		wc := wc
		r.Guard(idx, 60*time.Second, "hang|server|ws-carrier", wc.String(), wc, func() { evalWs(t, r, wc) })
	}
	for i, hc := range histCases() {
		idx := len(all) + 5000 + i
		if !r.Mine(idx) {
			continue
		}
		hc := hc
		r.Guard(idx, 60*time.Second, "hang|server|history", hc.String(), hc, func() { evalHist(t, r, hc) })
	}
	r.Note("ws_carrier_cases", len(wsCases(r.Thorough())))
	r.Note("inputs_total", len(all))
	r.Note("starttls_after_status_cases", len(tlsCases()))
}
