package c06

// History family: "the outcome depends only on the bytes exchanged" - on THIS connection. In
// one process, an earlier peer on its own connection sends one of the refused (or accepted)
// exchanges; then a second peer sends the canonical well-formed exchange on a new connection
// and must get 200, 101 and a session; then a third peer repeats the first peer's bytes and
// must get what the first got.

import (
	"fmt"
	"strings"
	"testing"

	"github.com/bokysan/socketace/v2/verifharness/mc"
)

type HistCase struct {
	Family string `json:"family"` // "history"
	First  string `json:"first"`
	Name   string `json:"name"`
	Key    string `json:"key"`
}

func (c HistCase) String() string { return "history: first peer sends " + c.Name + ", then a compatible peer" }

func histCases() []HistCase {
	bad := func(v string) string {
		return "X-SOCKETACE / HTTP/1.1\r\nAccepts-Protocol-Version: " + v + "\r\nUser-Agent: x\r\n\r\n"
	}
	return []HistCase{
		{"history", bad("v9.9.9") + upgrade, "an announce offering only an unsupported version (409)", "409"},
		{"history", bad("v9.9.9"), "an unsupported-version announce, then nothing", "409-only"},
		{"history", "X-SOCKETACE / HTTP/1.1\r\nUser-Agent: x\r\n\r\n" + upgrade, "an announce without a version header", "no-version"},
		{"history", "GET / HTTP/1.1\r\nAccepts-Protocol-Version: v2.0.0\r\n\r\n" + upgrade, "an announce with the wrong method (405)", "405"},
		{"history", "garbage\r\n\r\n", "a malformed request line (400)", "400"},
		{"history", "\x00\x01\x02\xff", "binary garbage", "binary"},
		{"history", announce + "POST / HTTP/1.1\r\nConnection: upgrade\r\nUpgrade: socketace/v2.0.0\r\n\r\n", "a valid announce and an upgrade with the wrong method", "upgrade-wrong-method"},
		{"history", announce + "GET / HTTP/1.1\r\nConnection: upgrade\r\nUpgrade: websocket\r\n\r\n", "a valid announce and an upgrade for another protocol", "upgrade-other-protocol"},
		{"history", announce + "GET / HTTP/1.1\r\nConnection: keep-alive\r\nUpgrade: socketace/v2.0.0\r\n\r\n", "a valid announce and an upgrade without Connection: upgrade", "upgrade-no-connection"},
		{"history", announce + "GET / HTTP/1.1\r\nConnection: upgrade\r\nUpgrade: socketace/v2.0.0\r\nSecurity: StartTLS\r\n\r\n", "a valid exchange asking for StartTLS the server cannot do (503)", "starttls-503"},
		{"history", announce, "a valid announce, then nothing", "announce-only"},
		{"history", announce + upgrade, "the canonical exchange", "canonical"},
	}
}

func evalHist(t *testing.T, r *mc.Run, c HistCase) {
	r.Eval(1)
	r.Transition(3)
	first := run(t, Case{Role: "server", Input: []byte(c.First), Seg: "whole"})
	second := run(t, Case{Role: "server", Input: []byte(announce + upgrade), Seg: "whole"})
	third := run(t, Case{Role: "server", Input: []byte(c.First), Seg: "whole"})
	r.State(mc.Hash("history", c.Name, first.Class, second.Class, third.Class))
	r.Nontrivial(mc.Hash(c.String()))
	switch {
	case first.Class == "panic" || second.Class == "panic" || third.Class == "panic":
		r.Fail("panic|server|history", fmt.Sprintf("%s: %s %s %s", c, first.Detail, second.Detail, third.Detail), len(c.First), c)
	case second.Class != "accepted" || second.Statuses != "200,101":
		r.Fail("outcome-depends-on-earlier-peer|compatible-peer-refused|after-"+c.Key, fmt.Sprintf("%s: the compatible peer on its own connection was answered [%s] (%s %s), not [200,101] and a session; the first peer had been answered [%s]", c, second.Statuses, second.Class, strings.TrimSpace(second.Detail), first.Statuses), len(c.First), c)
	case first.Class != third.Class || first.Statuses != third.Statuses:
		r.Fail("outcome-depends-on-earlier-peer|same-bytes-different-answer|"+c.Key, fmt.Sprintf("%s: the same bytes were answered [%s] (%s) the first time and [%s] (%s) after a compatible peer had connected", c, first.Statuses, first.Class, third.Statuses, third.Class), len(c.First), c)
	}
}
