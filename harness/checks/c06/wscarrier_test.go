package c06

// Websocket-carrier segmentation family. Over this carrier a "transport read" is one websocket
// message (the real server handler reads the handshake through streams.WebsocketTunnel-
// Connection). The same handshake bytes - well-formed ones padded with extra headers up to
// 20 KB, and refused ones - are delivered as messages of several sizes; oracle: the statuses
// the server writes (and whether a session results) are the same for every way of cutting the
// bytes into messages, and a well-formed compatible handshake gets 200 then 101.

import (
	"fmt"
	"net"
	"strings"
	"testing"
	"time"

	"github.com/bokysan/socketace/v2/verifharness/bubble"
	"github.com/bokysan/socketace/v2/verifharness/mc"
	"github.com/bokysan/socketace/v2/verifharness/world"
	"github.com/gorilla/websocket"
)

type WsCase struct {
	Family string `json:"family"` // "ws-carrier"
	Input  string `json:"input"`  // name of the input
	Pad    int    `json:"pad"`    // number of 1 KB padding headers in the announce
	Msg    int    `json:"msg"`    // message size (0 = everything in one message)
}

func (c WsCase) String() string {
	return fmt.Sprintf("ws-carrier input=%s pad=%d KB message-size=%d", c.Input, c.Pad, c.Msg)
}

func wsInput(name string, pad int) (in string, want string) {
	var p strings.Builder
	for i := 0; i < pad; i++ {
		p.WriteString(fmt.Sprintf("X-Padding-%02d: %s\r\n", i, strings.Repeat(string(rune('a'+i%26)), 1000)))
	}
	ann := "X-SOCKETACE /ws HTTP/1.1\r\nAccepts-Protocol-Version: v2.0.0\r\n" + p.String() + "User-Agent: socketace/unknown\r\n\r\n"
	upg := "GET /ws HTTP/1.1\r\nConnection: upgrade\r\nUpgrade: socketace/v2.0.0\r\n" + p.String() + "\r\n"
	switch name {
	case "valid":
		return ann + upg, "200,101"
	case "valid-padded-upgrade-only":
		return "X-SOCKETACE /ws HTTP/1.1\r\nAccepts-Protocol-Version: v2.0.0\r\n\r\n" + upg, "200,101"
	case "wrong-version":
		return strings.Replace(ann, "v2.0.0", "v9.9.9", 1) + upg, ""
	case "wrong-upgrade-token":
		return ann + strings.Replace(upg, "socketace/v2.0.0", "websocket", 1), ""
	}
	return "", ""
}

func wsCases(thorough bool) []WsCase {
	pads := []int{0, 3, 8, 12}
	sizes := []int{0, 700, 4096, 6000}
	if thorough {
		pads = []int{0, 1, 3, 4, 5, 7, 8, 9, 12, 16, 20}
		sizes = []int{0, 1, 700, 4095, 4096, 4097, 6000, 8191, 8192, 8193, 12000}
	}
	var out []WsCase
	for _, in := range []string{"valid", "valid-padded-upgrade-only", "wrong-version", "wrong-upgrade-token"} {
		for _, p := range pads {
			for _, s := range sizes {
				if s == 1 && p > 1 {
					continue
				}
				out = append(out, WsCase{"ws-carrier", in, p, s})
			}
		}
	}
	return out
}

// runWs returns the status codes the server wrote and whether a target connection could be
// opened afterwards is not checked here (the session layer above is C01/C02's business).
func runWs(t *testing.T, c WsCase) (statuses string, fail string) {
	res := bubble.Run(t, func() {
		w, err := world.New(world.Options{Carrier: "ws", Channels: []string{"x"}})
		if err != nil {
			fail = "setup: " + err.Error()
			return
		}
		d := &websocket.Dialer{NetDial: func(string, string) (net.Conn, error) { return w.Listener.Dial() }}
		cc, _, err := d.Dial("ws://server.test/ws", nil)
		if err != nil {
			fail = "setup: " + err.Error()
			return
		}
		var got strings.Builder
		msgs := make(chan []byte, 64)
		go func() {
			for {
				_, b, err := cc.ReadMessage()
				if err != nil {
					close(msgs)
					return
				}
				msgs <- b
			}
		}()
		in, _ := wsInput(c.Input, c.Pad)
		rest := []byte(in)
		for len(rest) > 0 {
			n := len(rest)
			if c.Msg > 0 && c.Msg < n {
				n = c.Msg
			}
			if err := cc.WriteMessage(websocket.BinaryMessage, rest[:n]); err != nil {
				break
			}
			rest = rest[n:]
			bubble.Wait()
		}
		bubble.Wait()
		bubble.Advance(30 * time.Second)
		bubble.Wait()
	drain:
		for {
			select {
			case b, ok := <-msgs:
				if !ok {
					break drain
				}
				got.Write(b)
			default:
				break drain
			}
		}
		var st []string
		for _, m := range statusRe.FindAllStringSubmatch(got.String(), -1) {
			st = append(st, m[1])
		}
		statuses = strings.Join(st, ",")
		cc.Close()
		bubble.Advance(time.Second)
	})
	if res.Panic != "" {
		fail = "panic: " + res.Panic
	}
	return
}

func evalWs(t *testing.T, r *mc.Run, c WsCase) {
	st, fail := runWs(t, c)
	r.Eval(1)
	r.Transition(3)
	r.State(mc.Hash("ws-carrier", c.Input, c.Pad, c.Msg, st))
	r.Nontrivial(mc.Hash(c.String()))
	if strings.HasPrefix(fail, "setup") {
		r.Inconclusive(c.String() + ": " + fail)
		return
	}
	if fail != "" {
		r.Fail("panic|ws-carrier", c.String()+": "+fail, c.Pad*100+c.Msg/100, c)
		return
	}
	_, want := wsInput(c.Input, c.Pad)
	if want != "" && st != want {
		r.Fail("well-formed-handshake-not-admitted|ws-carrier", fmt.Sprintf("%s: the server answered [%s], a well-formed compatible handshake gets [%s]", c, st, want), c.Pad*100+c.Msg/100, c)
		return
	}
	if want == "" && strings.Contains(st, "101") {
		r.Fail("admitted-incompatible-peer|ws-carrier", fmt.Sprintf("%s: the server answered [%s]", c, st), c.Pad*100+c.Msg/100, c)
		return
	}
	if c.Msg != 0 {
		ref := c
		ref.Msg = 0
		if prev, f := runWs(t, ref); f == "" && prev != st {
			r.Fail("outcome-depends-on-segmentation|ws-carrier", fmt.Sprintf("%s: the server answered [%s]; the same bytes in one message got [%s]", c, st, prev), c.Pad*100+c.Msg/100, c)
		}
	}
}
