package c06

// Server with a certificate (StartTLS possible): an upgrade request that the server answers
// with an error status must not become a session, even if the peer ignores the status and
// starts a TLS handshake right away.

import (
	"crypto/tls"
	"fmt"
	"io"
	"os"
	"strings"
	"testing"

	"github.com/bokysan/socketace/v2/internal/socketace"
	"github.com/bokysan/socketace/v2/internal/util/cert"
	"github.com/bokysan/socketace/v2/verifharness/bubble"
	"github.com/bokysan/socketace/v2/verifharness/mc"
	"github.com/bokysan/socketace/v2/verifharness/netsim"
	"github.com/bokysan/socketace/v2/verifharness/pki"
)

type TlsCase struct {
	Family  string `json:"family"` // "starttls-after-status"
	Upgrade string `json:"upgrade"`
	Origin  string `json:"origin"`
}

func (c TlsCase) String() string {
	return fmt.Sprintf("server with certificate, upgrade request %q [%s], then a TLS ClientHello", c.Upgrade, c.Origin)
}

func tlsCases() []TlsCase {
	var out []TlsCase
	methods := []string{"GET", "POST", "get", "X-SOCKETACE"}
	conns := []string{"Connection: upgrade\r\n", "Connection: Upgrade\r\n", "Connection: keep-alive\r\n", ""}
	ups := []string{"Upgrade: socketace/v2.0.0\r\n", "Upgrade: socketace/v1.0.0\r\n", "Upgrade: websocket\r\n", ""}
	secs := []string{"Security: StartTLS\r\n", "Security: starttls\r\n", "Security: None\r\n", ""}
	for _, m := range methods {
		for _, c := range conns {
			for _, u := range ups {
				for _, s := range secs {
					out = append(out, TlsCase{"starttls-after-status", m + " / HTTP/1.1\r\n" + c + u + s + "\r\n", "grammar"})
				}
			}
		}
	}
	return out
}

func evalTls(t *testing.T, r *mc.Run, c TlsCase) {
	r.Eval(1)
	r.Transition(3)
	var statuses []string
	var admitted, tlsDone bool
	var detail string
	res := bubble.Run(t, func() {
		p := pki.Bubble()
		cfg := &cert.ServerConfig{}
		cfg.Certificate, cfg.PrivateKey, cfg.CaCertificate = p.Server.CertPEM, p.Server.KeyPEM, p.CA
		h, srv := netsim.Pipe(netsim.Addr{Net: "mem", Str: "harness"}, netsim.Addr{Net: "mem", Str: "peer"}, 0)
		srv.CaptureOutgoing()
		type result struct {
			conn *socketace.ServerConnection
			err  error
		}
		done := make(chan result, 1)
		go func() {
			conn, err := socketace.NewServerConnection(srv, cfg, false)
			done <- result{conn, err}
		}()
		h.Write([]byte(announce))
		bubble.Wait()
		h.Write([]byte(c.Upgrade))
		bubble.Wait()
		for _, m := range statusRe.FindAllSubmatch(srv.Captured(), -1) {
			statuses = append(statuses, string(m[1]))
		}
		// the peer reads the answers ...
		if n := len(srv.Captured()); n > 0 {
			if _, err := io.ReadFull(h, make([]byte, n)); err != nil {
				detail = "reading the answers: " + err.Error()
			}
		}
		// ... and, whatever they were, now speaks TLS
		tc := tls.Client(h, &tls.Config{InsecureSkipVerify: true})
		hs := make(chan error, 1)
		go func() { hs <- tc.Handshake() }()
		bubble.Wait()
		select {
		case err := <-hs:
			tlsDone = err == nil
			if err != nil {
				detail = "client TLS handshake: " + err.Error()
			}
		default:
			detail = "client TLS handshake still in progress at quiescence"
		}
		if os.Getenv("VERIF_LOG") != "" {
			fmt.Fprintf(os.Stderr, "evalTls: statuses=%v tlsDone=%v detail=%q captured=%q\n", statuses, tlsDone, detail, srv.Captured())
		}
		select {
		case rr := <-done:
			admitted = rr.conn != nil && rr.err == nil
			if rr.err != nil {
				detail = rr.err.Error()
			}
		default:
			detail = "server still waiting"
		}
		h.Close()
		srv.Close()
		bubble.Wait()
	})
	if res.Panic != "" {
		r.Fail("panic|server|starttls", c.String()+": "+res.Panic, len(c.Upgrade), c)
		return
	}
	last := ""
	if len(statuses) > 0 {
		last = statuses[len(statuses)-1]
	}
	outcome := fmt.Sprintf("statuses=%s admitted=%v", strings.Join(statuses, ","), admitted)
	r.State(mc.Hash("starttls-after-status", len(statuses), last, admitted, tlsDone))
	r.Nontrivial(mc.Hash(c.String()))
	if admitted && last != "101" {
		r.Fail("admitted-after-error-status|server|starttls", fmt.Sprintf("%s: the server answered %v and still established a session (TLS handshake completed: %v)", c, statuses, tlsDone), len(c.Upgrade), c)
	}
	if admitted && len(statuses) >= 2 && last == "101" && classifyServer([]byte(announce+c.Upgrade)) == "must-reject" {
		r.Fail("admits-malformed|server|starttls", fmt.Sprintf("%s: %s although the reference classifier says the request must be rejected (%s)", c, outcome, detail), len(c.Upgrade), c)
	}
}
