// C12 — DNS endpoints withstand arbitrary messages with bounded work.
//
// Engine S. Server side: DNS messages are built at wire level (arbitrary label bytes),
// unpacked by miekg/dns as the real server would, and delivered through the REAL registered
// handler path (dns.DefaultServeMux.ServeDNS -> NetConnectionServerCommunicator.handleRequest
// -> ServerDnsListener.onMessage) with a fake ResponseWriter, so a panic that would escape
// ServeDNS in production is observed, and a fix in either layer is honoured. Client side:
// answer sections are fed to the real DecodeDnsResponseWithParams.
package c12

import (
	"os"
	"encoding/binary"
	"fmt"
	"net"
	"regexp"
	"runtime"
	"strings"
	"sync"
	"testing"
	"time"

	sdns "github.com/bokysan/socketace/v2/internal/streams/dns"
	"github.com/bokysan/socketace/v2/internal/streams/dns/commands"
	"github.com/bokysan/socketace/v2/internal/streams/dns/util"
	"github.com/bokysan/socketace/v2/internal/util/enc"
	"github.com/bokysan/socketace/v2/verifharness/bubble"
	"github.com/bokysan/socketace/v2/verifharness/mc"
	"github.com/bokysan/socketace/v2/verifharness/world"
	"github.com/miekg/dns"
	"golang.org/x/net/dns/dnsmessage"
)

const domain = "t.example.org"

type Case struct {
	Side   string   `json:"side"`   // server | client
	Labels [][]byte `json:"labels"` // question name, wire labels (server)
	QType  uint16   `json:"qtype"`
	QClass uint16   `json:"qclass"`
	Extra  [][]byte `json:"extra,omitempty"` // further questions: each a flattened name "label.label" (server)
	Origin string   `json:"origin"`
	From   string   `json:"from"`             // own | foreign
	Answer string   `json:"answer,omitempty"` // client: answer section description
	Codec  string   `json:"codec,omitempty"`
	// Additional: records in the additional section of the query (server): "" | tsig | edns0 | tsig+edns0
	Additional string `json:"additional,omitempty"`
}

type fakeWriter struct {
	remote net.Addr
	msgs   []*dns.Msg
}

func (f *fakeWriter) LocalAddr() net.Addr  { return &net.UDPAddr{IP: net.IPv4(127, 0, 0, 1), Port: 53} }
func (f *fakeWriter) RemoteAddr() net.Addr { return f.remote }
func (f *fakeWriter) WriteMsg(m *dns.Msg) error {
	f.msgs = append(f.msgs, m)
	_, err := m.Pack()
	return err
}
func (f *fakeWriter) Write(b []byte) (int, error) { return len(b), nil }
func (f *fakeWriter) Close() error                { return nil }
func (f *fakeWriter) TsigStatus() error           { return nil }
func (f *fakeWriter) TsigTimersOnly(bool)         {}
func (f *fakeWriter) Hijack()                     {}

var (
	setupOnce sync.Once
	listener  *sdns.ServerDnsListener
	setupErr  error
	ownAddr   = &net.UDPAddr{IP: net.IPv4(10, 1, 1, 1), Port: 4001}
	foreign   = &net.UDPAddr{IP: net.IPv4(10, 9, 9, 9), Port: 4999}
	liveID    uint16
	closedID  uint16
)

// deliver runs one message through the real handler path.
func deliver(m *dns.Msg, from net.Addr) (w *fakeWriter, pan string) {
	w = &fakeWriter{remote: from}
	defer func() {
		if p := recover(); p != nil {
			buf := make([]byte, 2048)
			buf = buf[:runtime.Stack(buf, false)]
			pan = fmt.Sprintf("%v\n%s", p, buf)
		}
	}()
	dns.DefaultServeMux.ServeDNS(w, m)
	return
}

func wire(labels [][]byte, qtype, qclass uint16, extra [][]byte) []byte {
	b := make([]byte, 12)
	binary.BigEndian.PutUint16(b[0:], 0x1234)
	binary.BigEndian.PutUint16(b[2:], 0x0100)
	binary.BigEndian.PutUint16(b[4:], uint16(1+len(extra)))
	name := func(ls [][]byte) {
		for _, l := range ls {
			if len(l) == 0 {
				continue
			}
			b = append(b, byte(len(l)))
			b = append(b, l...)
		}
		b = append(b, 0)
	}
	q := func(ls [][]byte) {
		name(ls)
		b = binary.BigEndian.AppendUint16(b, qtype)
		b = binary.BigEndian.AppendUint16(b, qclass)
	}
	q(labels)
	for _, e := range extra {
		var ls [][]byte
		for _, p := range strings.Split(string(e), ".") {
			ls = append(ls, []byte(p))
		}
		q(ls)
	}
	return b
}

func domainLabels(d string) [][]byte {
	var out [][]byte
	for _, p := range strings.Split(d, ".") {
		out = append(out, []byte(p))
	}
	return out
}

func hello(from net.Addr) (uint16, error) {
	ser := commands.Serializer{Domain: domain, Upstream: util.UpstreamConfig{Encoder: enc.Base32Encoding}}
	m, err := ser.EncodeDnsRequestWithParams(&commands.VersionRequest{ClientVersion: sdns.ProtocolVersion}, util.QueryTypeNull, enc.Base32Encoding)
	if err != nil {
		return 0, err
	}
	w, pan := deliver(m, from)
	if pan != "" || len(w.msgs) != 1 {
		return 0, fmt.Errorf("hello failed: %s", pan)
	}
	resp, err := ser.DecodeDnsResponseWithParams(w.msgs[0], enc.Base32Encoding)
	if err != nil {
		return 0, err
	}
	v, ok := resp.(*commands.VersionResponse)
	if !ok || v.Err != nil {
		return 0, fmt.Errorf("hello refused: %+v", resp)
	}
	return v.UserId, nil
}

func setup() {
	setupOnce.Do(func() {
		bubble.SetupLogging()
		comm, err := sdns.NewNetConnectionServerCommunicator(&dns.Server{Addr: "127.0.0.1:0", Net: "udp"})
		if err != nil {
			setupErr = err
			return
		}
		listener = sdns.NewServerDnsListener(domain, comm)
		go func() { // drain accepted connections
			for {
				if _, err := listener.Accept(); err != nil {
					return
				}
			}
		}()
		if liveID, setupErr = hello(ownAddr); setupErr != nil {
			return
		}
		if closedID, setupErr = hello(ownAddr); setupErr != nil {
			return
		}
		// close the second one through the protocol
		t := true
		ser := commands.Serializer{Domain: domain, Upstream: util.UpstreamConfig{Encoder: enc.Base32Encoding}}
		m, _ := ser.EncodeDnsRequestWithParams(&commands.SetOptionsRequest{UserId: closedID, Closed: &t}, util.QueryTypeNull, enc.Base32Encoding)
		deliver(m, ownAddr)
	})
}

var digits = regexp.MustCompile(`[0-9]+`)

func panicSite(p string) string {
	// first frame inside socketace after the panic machinery
	lines := strings.Split(p, "\n")
	for _, l := range lines[1:] {
		if strings.Contains(l, "github.com/bokysan/socketace/v2/internal") && !strings.HasPrefix(l, "\t") {
			l = strings.TrimPrefix(l, "github.com/bokysan/socketace/v2/internal/")
			if i := strings.Index(l, "("); i > 0 {
				for j := len(l) - 1; j > 0; j-- {
					if l[j] == '(' {
						l = l[:j]
						break
					}
				}
			}
			return l
		}
	}
	return digits.ReplaceAllString(lines[0], "#")
}

func evalServer(r *mc.Run, c Case) {
	r.Eval(1)
	r.Transition(1)
	setup()
	if setupErr != nil {
		r.Inconclusive("setup: " + setupErr.Error())
		return
	}
	w := wire(c.Labels, c.QType, c.QClass, c.Extra)
	var m dns.Msg
	if err := m.Unpack(w); err != nil {
		r.State(mc.Hash("server", "unpack-refused"))
		return // the real server answers FORMERR / drops it before the handler
	}
	if strings.Contains(c.Additional, "edns0") {
		m.SetEdns0(4096, false)
	}
	if strings.Contains(c.Additional, "tsig") {
		// a signed query (as `dig -y` or nsupdate send it); the server has no key configured
		m.SetTsig("axfr.", dns.HmacMD5, 300, time.Now().Unix())
	}
	from := net.Addr(foreign)
	if c.From == "own" {
		from = ownAddr
	}
	before := listener.VerifUser(liveID, false)
	var ms runtime.MemStats
	runtime.ReadMemStats(&ms)
	alloc0 := ms.TotalAlloc
	t0 := time.Now()
	fw, pan := deliver(&m, from)
	el := time.Since(t0)
	runtime.ReadMemStats(&ms)
	allocated := ms.TotalAlloc - alloc0
	after := listener.VerifUser(liveID, false)
	nameStr := fmt.Sprintf("%q", m.Question[0].Name)
	if len(nameStr) > 100 {
		nameStr = nameStr[:100] + "..."
	}
	desc := fmt.Sprintf("question %s type %d class %d (+%d questions) from %s address [%s]", nameStr, c.QType, c.QClass, len(c.Extra), c.From, c.Origin)
	if c.Additional != "" {
		desc += " additional section: " + c.Additional
	}
	outcome := "answered"
	switch {
	case pan != "":
		outcome = "panic"
		r.Fail("server-panic|"+panicSite(pan), fmt.Sprintf("%s: handler panicked (the panic escapes ServeDNS, miekg/dns has no recover): %s", desc, strings.SplitN(pan, "\n", 2)[0]), len(w), c)
	case allocated > 64<<20:
		outcome = "alloc"
		r.Fail("server-unbounded-allocation|"+c.Origin, fmt.Sprintf("%s: handling allocated %d MiB (in %v)", desc, allocated>>20, el), len(w), c)
	case len(fw.msgs) == 0:
		outcome = "ignored"
	}
	if c.From == "foreign" && before != after {
		outcome += "+disturbed"
		r.Fail("server-session-disturbed|"+c.Origin, fmt.Sprintf("%s: established session #%d changed from %s to %s", desc, liveID, before, after), len(w), c)
	}
	r.State(mc.Hash("server", outcome, c.Origin))
}

// ---- server side: options a session's own peer may set, then the server serves it ---------

type serveCase struct {
	Side     string `json:"side"` // "server-serve"
	FragSize uint32 `json:"frag_size"`
	Lazy     bool   `json:"lazy"`
	Multi    bool   `json:"multi"`
}

var serveFragSizes = []uint32{0, 1, 2, 3, 81, 82, 200, 1200, 65535, 1 << 31, 1<<32 - 1}

func serveCases() []serveCase {
	var out []serveCase
	for _, fs := range serveFragSizes {
		for _, lazy := range []bool{false, true} {
			for _, multi := range []bool{false, true} {
				out = append(out, serveCase{"server-serve", fs, lazy, multi})
			}
		}
	}
	return out
}

// evalServe: a peer opens a session, sets options through a well-formed set-options query (any
// field value), and then the server application writes three bytes into that session and the
// peer polls: whatever the options were, the server must neither loop nor allocate without
// bound, must answer the poll, and the other established session must stay untouched.
func evalServe(r *mc.Run, idx int, c serveCase) {
	r.Eval(1)
	r.Transition(4)
	setup()
	if setupErr != nil {
		r.Inconclusive("setup: " + setupErr.Error())
		return
	}
	desc := fmt.Sprintf("set-options downstream fragment size %d lazy=%v multi=%v, then the server writes 3 bytes", c.FragSize, c.Lazy, c.Multi)
	// (a fresh address per case: a version request is refused with BADCONN while slot 0 holds a
	// closed session of the SAME address, and the enumerated queries may have closed it)
	peer := &net.UDPAddr{IP: net.IPv4(10, 1, 2, byte(1+idx%200)), Port: 5000 + idx%50000}
	id, err := hello(peer)
	if err != nil {
		r.Inconclusive("hello: " + err.Error())
		return
	}
	before := listener.VerifUser(liveID, false)
	ser := commands.Serializer{Domain: domain, Upstream: util.UpstreamConfig{Encoder: enc.Base32Encoding}}
	fs := c.FragSize
	req := &commands.SetOptionsRequest{UserId: id, DownstreamFragmentSize: &fs}
	if c.Lazy {
		req.LazyMode = &c.Lazy
	}
	if c.Multi {
		req.MultiQuery = &c.Multi
	}
	m, err := ser.EncodeDnsRequestWithParams(req, util.QueryTypeNull, enc.Base32Encoding)
	if err != nil {
		r.State(mc.Hash("serve", "unencodable", c))
		return
	}
	_, pan := deliver(m, peer)
	if pan != "" {
		r.Fail("server-panic|"+panicSite(pan), desc+": set-options handler panicked: "+strings.SplitN(pan, "\n", 2)[0], int(c.FragSize%1000), c)
		return
	}
	conn := listener.VerifUserConn(id)
	outcome := "served"
	if conn != nil {
		var ms runtime.MemStats
		runtime.ReadMemStats(&ms)
		alloc0 := ms.TotalAlloc
		go conn.Write([]byte("abc"))
		for i := 0; i < 50; i++ {
			time.Sleep(time.Millisecond)
			runtime.ReadMemStats(&ms)
			if ms.TotalAlloc-alloc0 > 4<<20 { // queueing three bytes costs a few hundred bytes
				r.Fail("server-unbounded-allocation|serve-after-options", fmt.Sprintf("%s: the write allocated %d MiB within %d ms and is still going (OutQueue.Write never finishes cutting the data into fragments)", desc, (ms.TotalAlloc-alloc0)>>20, i+1), int(c.FragSize%1000), c)
				r.State(mc.Hash("serve", "runaway", c.FragSize))
				r.Bail(idx) // the looping goroutine cannot be stopped
			}
		}
		// the peer polls: the answer must exist and be packable
		poll, _ := ser.EncodeDnsRequestWithParams(&commands.PacketRequest{UserId: id, LastAckedSeqNo: 0xFFFF}, util.QueryTypeNull, enc.Base32Encoding)
		runtime.ReadMemStats(&ms)
		alloc1 := ms.TotalAlloc
		fw, pan := deliver(poll, peer)
		runtime.ReadMemStats(&ms)
		switch {
		case pan != "":
			outcome = "panic"
			r.Fail("server-panic|"+panicSite(pan), desc+": the poll after it panicked: "+strings.SplitN(pan, "\n", 2)[0], int(c.FragSize%1000), c)
		case ms.TotalAlloc-alloc1 > 64<<20:
			outcome = "alloc"
			r.Fail("server-unbounded-allocation|poll-after-options", fmt.Sprintf("%s: answering the poll allocated %d MiB", desc, (ms.TotalAlloc-alloc1)>>20), int(c.FragSize%1000), c)
		case len(fw.msgs) == 0:
			outcome = "poll-ignored"
		}
	} else {
		outcome = "no-session"
	}
	// (the enumerated queries may have closed the original bystander; then this case's own session
	// can sit in its slot, and is of course changed by its own traffic)
	if after := listener.VerifUser(liveID, false); after != before && id != liveID {
		r.Fail("server-session-disturbed|serve-after-options", fmt.Sprintf("%s: the OTHER established session #%d changed from %s to %s", desc, liveID, before, after), int(c.FragSize%1000), c)
	}
	// end the session through the protocol
	t := true
	cm, _ := ser.EncodeDnsRequestWithParams(&commands.SetOptionsRequest{UserId: id, Closed: &t}, util.QueryTypeNull, enc.Base32Encoding)
	deliver(cm, peer)
	r.State(mc.Hash("serve", outcome, c.FragSize))
	r.Nontrivial(mc.Hash(fmt.Sprintf("%+v", c)))
}

// ---- client side -------------------------------------------------------------------------

func rrHdr(name string, t uint16) dns.RR_Header {
	return dns.RR_Header{Name: name, Rrtype: t, Class: dns.ClassINET, Ttl: 1}
}

type answerSpec struct {
	name string
	rrs  func(q string) []dns.RR
}

func answerSpecs() []answerSpec {
	q := func(f func(q string) []dns.RR, n string) answerSpec { return answerSpec{n, f} }
	var out []answerSpec
	out = append(out, q(func(string) []dns.RR { return nil }, "zero-records"))
	for _, n := range []int{0, 1, 2, 3} {
		n := n
		data := strings.Repeat("v", n)
		out = append(out,
			q(func(qn string) []dns.RR { return []dns.RR{&dns.NULL{Hdr: rrHdr(qn, 10), Data: data}} }, fmt.Sprintf("NULL-rdata-%d", n)),
			q(func(qn string) []dns.RR { return []dns.RR{&dns.TXT{Hdr: rrHdr(qn, dns.TypeTXT), Txt: []string{data}}} }, fmt.Sprintf("TXT-%d", n)),
			q(func(qn string) []dns.RR {
				return []dns.RR{&dns.PrivateRR{Hdr: rrHdr(qn, util.TypeSocketAce), Data: &util.SocketAcePrivate{Data: []byte(data)}}}
			}, fmt.Sprintf("PRIVATE-%d", n)),
			q(func(qn string) []dns.RR {
				return []dns.RR{&dns.AAAA{Hdr: rrHdr(qn, dns.TypeAAAA), AAAA: net.IP(make([]byte, 16))}}
			}, fmt.Sprintf("AAAA-zero-%d", n)),
			q(func(qn string) []dns.RR {
				return []dns.RR{&dns.A{Hdr: rrHdr(qn, dns.TypeA), A: net.IPv4(byte(n), 1, 2, 3)}}
			}, fmt.Sprintf("A-%d", n)),
		)
	}
	out = append(out, q(func(qn string) []dns.RR { return []dns.RR{&dns.TXT{Hdr: rrHdr(qn, dns.TypeTXT), Txt: []string{}}} }, "TXT-no-strings"))
	for _, target := range []string{".", "a.", "ab.", "x.y.", "t.example.org.", "aaq.t.example.org.", "q.other.org.", "aa" + strings.Repeat("b", 50) + ".t.example.org."} {
		target := target
		out = append(out,
			q(func(qn string) []dns.RR { return []dns.RR{&dns.CNAME{Hdr: rrHdr(qn, dns.TypeCNAME), Target: target}} }, "CNAME->"+target),
			q(func(qn string) []dns.RR {
				return []dns.RR{&dns.MX{Hdr: rrHdr(qn, dns.TypeMX), Preference: 10, Mx: target}}
			}, "MX->"+target),
			q(func(qn string) []dns.RR {
				return []dns.RR{&dns.SRV{Hdr: rrHdr(qn, dns.TypeSRV), Priority: 1, Target: target}}
			}, "SRV->"+target),
		)
	}
	out = append(out, q(func(qn string) []dns.RR {
		return []dns.RR{&dns.A{Hdr: rrHdr(qn, dns.TypeA), A: net.IPv4(1, 'v', 'a', 'a')}, &dns.TXT{Hdr: rrHdr(qn, dns.TypeTXT), Txt: []string{"aavabc"}}, &dns.NULL{Hdr: rrHdr(qn, 10), Data: "\x01\x00v"}}
	}, "mixed-types"))
	out = append(out, q(func(qn string) []dns.RR {
		return []dns.RR{&dns.NS{Hdr: rrHdr(qn, dns.TypeNS), Ns: "ns.example.org."}, &dns.SOA{Hdr: rrHdr(qn, dns.TypeSOA), Ns: "a.", Mbox: "b."}}
	}, "unexpected-types"))
	// two-record answers: every ordered pair of short record shapes (the client sorts the records
	// of an answer by their order tag, so the tag of every record is looked at as soon as there
	// are two): TXT with its strings split in every way, records shorter than their tag, targets
	// outside the domain, unexpected types
	type shape struct {
		name string
		rr   func(qn string) dns.RR
	}
	var shapes []shape
	for _, txt := range [][]string{{}, {""}, {"a"}, {"ab"}, {"", "ab"}, {"a", "b"}, {"", "", "abcd"}, {"a", "bcdefgh"}, {"aavabc"}, {"aa", "vabc"}} {
		txt := txt
		shapes = append(shapes, shape{fmt.Sprintf("TXT%q", txt), func(qn string) dns.RR { return &dns.TXT{Hdr: rrHdr(qn, dns.TypeTXT), Txt: txt} }})
	}
	for _, n := range []int{0, 1, 2, 3} {
		data := strings.Repeat("v", n)
		shapes = append(shapes,
			shape{fmt.Sprintf("NULL%d", n), func(qn string) dns.RR { return &dns.NULL{Hdr: rrHdr(qn, 10), Data: data} }},
			shape{fmt.Sprintf("PRIVATE%d", n), func(qn string) dns.RR {
				return &dns.PrivateRR{Hdr: rrHdr(qn, util.TypeSocketAce), Data: &util.SocketAcePrivate{Data: []byte(data)}}
			}})
	}
	shapes = append(shapes,
		shape{"A", func(qn string) dns.RR { return &dns.A{Hdr: rrHdr(qn, dns.TypeA), A: net.IPv4(0, 1, 2, 3)} }},
		shape{"AAAA", func(qn string) dns.RR { return &dns.AAAA{Hdr: rrHdr(qn, dns.TypeAAAA), AAAA: net.IP(make([]byte, 16))} }},
		shape{"CNAME.", func(qn string) dns.RR { return &dns.CNAME{Hdr: rrHdr(qn, dns.TypeCNAME), Target: "."} }},
		shape{"CNAMEa", func(qn string) dns.RR { return &dns.CNAME{Hdr: rrHdr(qn, dns.TypeCNAME), Target: "a.t.example.org."} }},
		shape{"MXother", func(qn string) dns.RR { return &dns.MX{Hdr: rrHdr(qn, dns.TypeMX), Preference: 10, Mx: "q.other.org."} }},
		shape{"SRVab", func(qn string) dns.RR { return &dns.SRV{Hdr: rrHdr(qn, dns.TypeSRV), Priority: 1, Target: "ab."} }},
		shape{"NS", func(qn string) dns.RR { return &dns.NS{Hdr: rrHdr(qn, dns.TypeNS), Ns: "ns.example.org."} }},
	)
	for _, a := range shapes {
		for _, b := range shapes {
			a, b := a, b
			out = append(out, q(func(qn string) []dns.RR { return []dns.RR{a.rr(qn), b.rr(qn)} }, "pair:"+a.name+"+"+b.name))
		}
	}
	// every 1- and 2-byte payload in a NULL record after a valid order tag
	for a := 0; a < 256; a++ {
		a := a
		out = append(out, q(func(qn string) []dns.RR {
			return []dns.RR{&dns.NULL{Hdr: rrHdr(qn, 10), Data: "\x01\x00" + string([]byte{byte(a)})}}
		}, fmt.Sprintf("NULL-payload-%02x", a)))
	}
	for _, a := range []byte{'c', 'v', 'o', 'r', 'y', 'z', 'e', 'l', 'm', 'C', 0x00, 0xFF} {
		for b := 0; b < 256; b++ {
			a, b := a, b
			out = append(out, q(func(qn string) []dns.RR {
				return []dns.RR{&dns.NULL{Hdr: rrHdr(qn, 10), Data: "\x01\x00" + string([]byte{a, byte(b)})}}
			}, fmt.Sprintf("NULL-payload-%02x%02x", a, b)))
		}
	}
	return out
}

var clientCodecs = []enc.Encoder{enc.Base32Encoding, enc.Base64Encoding, enc.Base85Encoding, enc.Base91Encoding, enc.Base128Encoding, enc.RawEncoding}

func evalClient(r *mc.Run, spec answerSpec, e enc.Encoder) {
	r.Eval(1)
	r.Transition(1)
	qn := "cabc01." + domain + "."
	m := &dns.Msg{}
	m.SetQuestion(qn, dns.TypeNULL)
	resp := &dns.Msg{}
	resp.SetReply(m)
	resp.Answer = spec.rrs(qn)
	outcome := "decoded"
	func() {
		defer func() {
			if p := recover(); p != nil {
				buf := make([]byte, 2048)
				buf = buf[:runtime.Stack(buf, false)]
				pan := fmt.Sprintf("%v\n%s", p, buf)
				outcome = "panic"
				cls := spec.name
				if strings.HasPrefix(cls, "NULL-payload-") {
					cls = "NULL-payload"
				}
				r.Fail("client-panic|"+panicSite(pan), fmt.Sprintf("answer section %s (codec %s): the client's response decoder panicked: %s", spec.name, e.Name(), strings.SplitN(pan, "\n", 2)[0]), len(spec.name), Case{Side: "client", Answer: spec.name, Codec: e.Name()})
			}
		}()
		// what the wire would deliver
		b, err := resp.Pack()
		if err != nil {
			outcome = "unpackable"
			return
		}
		var back dns.Msg
		if err := back.Unpack(b); err != nil {
			outcome = "unpackable"
			return
		}
		ser := commands.Serializer{Domain: domain, Downstream: util.DownstreamConfig{Encoder: e}}
		if _, err := ser.DecodeDnsResponseWithParams(&back, e); err != nil {
			outcome = "error"
		}
	}()
	r.State(mc.Hash("client", outcome))
}

// evalClientLive feeds the malformed answer to a live, real ClientDnsConnection (real
// communicator, miekg/dns exchange) as the answer to its next data exchange.
func evalClientLive(t *testing.T, r *mc.Run, spec answerSpec, e enc.Encoder) {
	r.Eval(1)
	r.Transition(2)
	outcome := "ok"
	res := bubble.Run(t, func() {
		w, err := world.New(world.Options{Carrier: "dns", Channels: []string{"x"}, DnsRaw: true})
		if err != nil {
			outcome = "setup"
			return
		}
		cl, _, err := w.Dns.NewClientConn()
		if err != nil {
			outcome = "setup"
			return
		}
		qt := util.QueryTypeNull
		cl.Serializer.Upstream.QueryType = &qt
		cl.Serializer.Upstream.Encoder = enc.Base32Encoding
		cl.Serializer.Downstream.Encoder = e
		cl.Serializer.Upstream.FragmentSize = 60
		if err := cl.VersionHandshake(); err != nil {
			outcome = "setup"
			return
		}
		w.Dns.Path.Answer = func(exch int, q, a *dns.Msg) bool {
			a.Answer = spec.rrs(q.Question[0].Name)
			return true
		}
		if err := cl.SendAndReceive(nil); err != nil {
			outcome = "error"
		}
		if err := cl.SendAndReceive(&util.Packet{SeqNo: 0, Data: []byte("x")}); err != nil {
			outcome = "error"
		}
	})
	if res.Panic != "" {
		outcome = "panic"
		r.Fail("client-panic|live|"+panicSite(res.Panic), fmt.Sprintf("live client, answer section %s (codec %s): %s", spec.name, e.Name(), strings.SplitN(res.Panic, "\n", 2)[0]), len(spec.name), Case{Side: "client-live", Answer: spec.name, Codec: e.Name()})
	}
	r.State(mc.Hash("client-live", outcome))
}

// ---- client side, staged: ONE answer of the real handshake is replaced --------------------

type stagedCase struct {
	Side string `json:"side"` // "client-staged"
	At   int    `json:"at"`   // the exchange whose answer is replaced (1 = the version request)
	Mut  string `json:"mut"`
}

var stagedMuts = []string{"badip", "trunc0", "trunc1", "trunc2", "trunc3", "no-records", "refused", "error-nul", "error-empty", "error-unknown-text", "error-nul-first"}

// errorPayloads: the body of an error answer ('e' + Base32 of the error text) with unusual texts
var errorPayloads = map[string]string{"error-nul": "x\x00y", "error-empty": "", "error-unknown-text": "NOSUCHERROR", "error-nul-first": "\x00BADUSER"}

func stagedCases(thorough bool) []stagedCase {
	n := 40
	if thorough {
		n = 120
	}
	var out []stagedCase
	for at := 1; at <= n; at++ {
		for _, m := range stagedMuts {
			out = append(out, stagedCase{"client-staged", at, m})
		}
	}
	return out
}

// evalClientStaged runs the client's whole Handshake() against the real server over a
// transparent path, except that the answer to exchange number At is a different one: the
// server's own answer to a peer whose address changed (BADIP in the shape of whatever command
// that exchange carries), the genuine answer cut down to k payload octets, an answer without
// records, or REFUSED. Whatever stage of the handshake that hits, the client must not crash
// and the handshake must end (either way).
func evalClientStaged(t *testing.T, r *mc.Run, c stagedCase) {
	r.Eval(1)
	r.Transition(c.At)
	outcome := "ended"
	hsPanic := ""
	res := bubble.Run(t, func() {
		path := world.DnsPath{}
		path.From = func(exch int) net.Addr {
			if exch == c.At && c.Mut == "badip" {
				return &net.UDPAddr{IP: net.IPv4(10, 77, 77, 77), Port: 7777}
			}
			return nil
		}
		path.Answer = func(exch int, q, a *dns.Msg) bool {
			if exch != c.At {
				return true
			}
			switch {
			case strings.HasPrefix(c.Mut, "trunc"):
				k := int(c.Mut[5] - '0')
				for _, rr := range a.Answer {
					switch v := rr.(type) {
					case *dns.NULL:
						if len(v.Data) > 2+k {
							v.Data = v.Data[:2+k]
						}
					case *dns.TXT:
						if len(v.Txt) > 0 && len(v.Txt[0]) > 2+k {
							v.Txt = []string{v.Txt[0][:2+k]}
						}
					}
				}
			case strings.HasPrefix(c.Mut, "error-"):
				body := append([]byte{'e'}, enc.Base32Encoding.Encode([]byte(errorPayloads[c.Mut]))...)
				for _, rr := range a.Answer {
					switch v := rr.(type) {
					case *dns.NULL:
						if len(v.Data) >= 2 {
							v.Data = string(append([]byte(v.Data[:2]), body...))
						}
					case *dns.TXT:
						if len(v.Txt) > 0 && len(v.Txt[0]) >= 2 {
							v.Txt = []string{v.Txt[0][:2] + string(body)}
						}
					}
				}
			case c.Mut == "no-records":
				a.Answer = nil
			case c.Mut == "refused":
				a.Answer = nil
				a.Rcode = dns.RcodeRefused
			}
			return true
		}
		w, err := world.New(world.Options{Carrier: "dns", Channels: []string{"x"}, DnsRaw: true, DnsPath: path})
		if err != nil {
			outcome = "setup"
			return
		}
		cl, dg, err := w.Dns.NewClientConn()
		if err != nil {
			outcome = "setup"
			return
		}
		dg.OnExchange = func(n int) {
			if n > 5000 {
				outcome = "runaway"
				runtime.Goexit()
			}
		}
		done := make(chan error, 1)
		go func() {
			defer func() {
				if p := recover(); p != nil {
					buf := make([]byte, 8192)
					buf = buf[:runtime.Stack(buf, false)]
					hsPanic = fmt.Sprintf("%v\n%s", p, buf)
					done <- fmt.Errorf("panic")
				}
			}()
			done <- cl.Handshake()
		}()
		finished := false
		for m := 0; m < 30 && !finished && outcome != "runaway"; m++ {
			bubble.Wait()
			select {
			case err := <-done:
				finished = true
				if err != nil {
					outcome = "failed"
				}
			default:
				bubble.Advance(time.Minute)
			}
		}
		if !finished && outcome != "runaway" {
			outcome = "does-not-end"
		}
		if outcome == "ended" && hsPanic == "" {
			cl.Close()
		} else {
			// nothing closes a connection object whose handshake failed (upstream.Dns.Connect drops
			// it): only let go of what the harness holds
			func() { defer func() { recover() }(); cl.Communicator.Close() }()
		}
	})
	if hsPanic != "" && res.Panic == "" {
		res.Panic = hsPanic
	}
	if res.Panic != "" && os.Getenv("VERIF_DBG") != "" {
		fmt.Fprintln(os.Stderr, res.Panic)
	}
	switch {
	case res.Panic != "":
		outcome = "panic"
		r.Fail("client-panic|staged|"+panicSite(res.Panic), fmt.Sprintf("real handshake with the answer to exchange %d replaced (%s): the client panicked: %s", c.At, c.Mut, strings.SplitN(res.Panic, "\n", 2)[0]), c.At, c)
	case outcome == "does-not-end" || outcome == "runaway":
		r.Fail("client-handshake-"+outcome+"|staged|"+c.Mut, fmt.Sprintf("real handshake with the answer to exchange %d replaced (%s): Handshake() %s within 30 fake minutes / 5000 exchanges", c.At, c.Mut, outcome), c.At, c)
	}
	r.State(mc.Hash("client-staged", outcome, c.Mut))
	r.Nontrivial(mc.Hash(fmt.Sprintf("%+v", c)))
}

// ---- enumeration ----------------------------------------------------------------------------

func serverCases(thorough bool) []Case {
	var out []Case
	body := []byte{'a', '0', 'z', 'Z', '-', 0xC8, '.', '\\'}
	dl := domainLabels(domain)
	other := domainLabels("other.example.net")
	add := func(first []byte, origin string, qt uint16) {
		lab := append([]byte{}, first...)
		for _, place := range []string{"under-domain", "other-domain", "bare"} {
			var ls [][]byte
			switch place {
			case "under-domain":
				ls = append([][]byte{lab}, dl...)
			case "other-domain":
				ls = append([][]byte{lab}, other...)
			case "bare":
				ls = [][]byte{lab}
			}
			for _, from := range []string{"foreign", "own"} {
				if from == "own" && place != "under-domain" {
					continue
				}
				out = append(out, Case{Side: "server", Labels: ls, QType: qt, QClass: 1, Origin: origin + "/" + place, From: from})
			}
		}
	}
	// every first byte x short bodies
	for fb := 0; fb < 256; fb++ {
		// all bodies of length 0..2 over the alphabet, uniform bodies up to 7
		add([]byte{byte(fb)}, "short-name", 10)
		for _, x := range body {
			add([]byte{byte(fb), x}, "short-name", 10)
			for _, y := range body {
				add([]byte{byte(fb), x, y}, "short-name", 10)
				if thorough {
					for _, z := range body {
						add([]byte{byte(fb), x, y, z}, "short-name", 10)
					}
				}
			}
			for n := 3; n <= 7; n++ {
				l := []byte{byte(fb)}
				for i := 0; i < n; i++ {
					l = append(l, x)
				}
				add(l, "short-name", 10)
			}
		}
	}
	// labels that contain a dot or a backslash byte next to the domain: in presentation form
	// they end in an escape right where the domain is cut off
	for _, pre := range []string{"", "a", "ab", "cab0", "vabc", "yabcT", "zz00"} {
		for _, tail := range []string{".", "\\", ".\\", "\\.", "\\1", "\\12", "\\123", "\\999", "..", "\\\\"} {
			for _, from := range []string{"foreign", "own"} {
				// one label "<pre><tail><first domain label>" followed by the rest of the domain
				l1 := append([]byte(pre+tail), dl[0]...)
				out = append(out, Case{Side: "server", Labels: append([][]byte{l1}, dl[1:]...), QType: 10, QClass: 1, Origin: "escape-at-domain-boundary", From: from})
				out = append(out, Case{Side: "server", Labels: append([][]byte{[]byte(pre + tail)}, dl...), QType: 10, QClass: 1, Origin: "escape-at-domain-boundary", From: from})
			}
		}
	}
	// the domain itself, the root, a label that is the domain's first label
	for _, from := range []string{"foreign", "own"} {
		out = append(out, Case{Side: "server", Labels: dl, QType: 10, QClass: 1, Origin: "bare-domain", From: from})
		out = append(out, Case{Side: "server", Labels: nil, QType: 10, QClass: 1, Origin: "root", From: from})
		out = append(out, Case{Side: "server", Labels: append([][]byte{[]byte("mail")}, dl...), QType: 15, QClass: 1, Origin: "ordinary-hostname", From: from})
		out = append(out, Case{Side: "server", Labels: append([][]byte{[]byte("www")}, dl...), QType: 1, QClass: 1, Origin: "ordinary-hostname", From: from})
	}
	// well-formed requests of every command with boundary fields, through the real encoder
	ser := commands.Serializer{Domain: domain, Upstream: util.UpstreamConfig{Encoder: enc.Base32Encoding}}
	addReq := func(req commands.Request, origin string) {
		for _, qt := range []dnsmessage.Type{util.QueryTypeNull, util.QueryTypeCname, util.QueryTypeTxt} {
			m, err := ser.EncodeDnsRequestWithParams(req, qt, enc.Base32Encoding)
			if err != nil {
				continue
			}
			name := strings.TrimSuffix(m.Question[0].Name, ".")
			var ls [][]byte
			for _, p := range strings.Split(name, ".") {
				ls = append(ls, []byte(p))
			}
			for _, from := range []string{"foreign", "own"} {
				out = append(out, Case{Side: "server", Labels: ls, QType: uint16(qt), QClass: 1, Origin: origin, From: from})
			}
		}
	}
	t, f := true, false
	ids := []uint16{0, 1, 35, 36, 1295, 1296, 1297, 65535} // live/closed ids are substituted at run time via 0 and 1 as well
	for _, id := range ids {
		for _, frag := range []uint32{0, 1, 2, 255, 768, 65536, 1<<26 + 1} {
			addReq(&commands.TestDownstreamFragmentSizeRequest{UserId: id, FragmentSize: frag}, fmt.Sprintf("fragprobe-size-%d", frag))
		}
		zero, one, big := uint32(0), uint32(1), uint32(0xFFFFFFFE)
		for _, fs := range []*uint32{nil, &zero, &one, &big} {
			for _, cl := range []*bool{nil, &t, &f} {
				addReq(&commands.SetOptionsRequest{UserId: id, Closed: cl, DownstreamFragmentSize: fs, LazyMode: &t, UpstreamEncoder: enc.Base128Encoding, DownstreamEncoder: enc.RawEncoding}, "options")
			}
		}
		for _, seq := range []uint16{0, 1, 127, 128, 129, 32768, 65535} {
			addReq(&commands.PacketRequest{UserId: id, LastAckedSeqNo: seq, Packet: &util.Packet{SeqNo: seq, Data: []byte("hello")}}, "packet")
			addReq(&commands.PacketRequest{UserId: id, LastAckedSeqNo: seq}, "packet")
		}
		addReq(&commands.TestUpstreamEncoderRequest{UserId: id, Pattern: []byte("aA-xyz")}, "upprobe")
	}
	for _, v := range []uint32{0, 1, sdns.ProtocolVersion, 0xFFFFFFFF} {
		_ = v
	}
	addReq(&commands.VersionRequest{ClientVersion: 0}, "version-wrong")
	for _, e := range []enc.Encoder{enc.Base32Encoding, enc.RawEncoding, enc.Base192Encoding} {
		addReq(&commands.TestDownstreamEncoderRequest{DownstreamEncoder: e}, "downprobe")
	}
	// multi-question messages
	for _, extra := range [][][]byte{
		{[]byte("ab" + "cabc" + "." + domain)},
		{[]byte("a")},
		{[]byte("")},
		{[]byte("bacde." + domain), []byte("aaxyz." + domain)},
		{[]byte("z"), []byte("zz." + domain)},
	} {
		for _, first := range [][]byte{[]byte("aacabc0101"), []byte("a"), []byte("zz"), []byte("vabc")} {
			for _, from := range []string{"foreign", "own"} {
				out = append(out, Case{Side: "server", Labels: append([][]byte{first}, dl...), QType: 10, QClass: 1, Extra: extra, Origin: "multi-question", From: from})
			}
		}
	}
	// every query type and class on a plausible tunnel name and on a foreign name
	types := []uint16{}
	for t := 0; t <= 260; t++ {
		types = append(types, uint16(t))
	}
	types = append(types, 65000, 65440, 65535)
	for _, qt := range types {
		for _, cl := range []uint16{1, 3, 255} {
			out = append(out, Case{Side: "server", Labels: append([][]byte{[]byte("cabc00aaaaaaaa")}, dl...), QType: qt, QClass: cl, Origin: "qtype-sweep", From: "foreign"})
			out = append(out, Case{Side: "server", Labels: append([][]byte{[]byte("yabcT")}, dl...), QType: qt, QClass: cl, Origin: "qtype-sweep", From: "own"})
		}
	}
	// the same messages with records in the additional section (a TSIG signature, an EDNS0 OPT
	// record): every case whose question is short (the malformed and the boundary headers), and a
	// sample of the others
	n := len(out)
	for i := 0; i < n; i++ {
		c := out[i]
		total := 0
		for _, l := range c.Labels {
			total += len(l)
		}
		if total > 40 && i%17 != 0 {
			continue
		}
		for _, a := range []string{"tsig", "edns0", "tsig+edns0"} {
			if a != "tsig" && i%5 != 0 {
				continue
			}
			d := c
			d.Additional = a
			d.Origin = c.Origin + "+" + a
			out = append(out, d)
		}
	}
	return out
}

func TestCheck(t *testing.T) {
	r := mc.New(t, "C12")
	defer r.Finish()
	if r.Replay != nil {
		var c Case
		r.DecodeReplay(&c)
		if c.Side == "client" || c.Side == "client-live" {
			for _, s := range answerSpecs() {
				if s.name == c.Answer {
					for _, e := range clientCodecs {
						if e.Name() == c.Codec && c.Side == "client" {
							evalClient(r, s, e)
						} else if e.Name() == c.Codec {
							evalClientLive(t, r, s, e)
						}
					}
				}
			}
			return
		}
		if c.Side == "client-staged" {
			var sc stagedCase
			r.DecodeReplay(&sc)
			evalClientStaged(t, r, sc)
			return
		}
		if c.Side == "server-serve" {
			var sc serveCase
			r.DecodeReplay(&sc)
			evalServe(r, 0, sc)
			return
		}
		evalServer(r, c)
		return
	}
	all := serverCases(r.Thorough())
	idx := 0
	for _, c := range all {
		if r.Mine(idx) {
			evalServer(r, c)
			if c.Origin != "short-name/other-domain" {
				r.Nontrivial(mc.Hash(fmt.Sprintf("%v", c)))
			}
			if idx%20011 == 0 {
				r.Sample(map[string]any{"side": "server", "origin": c.Origin, "name": fmt.Sprintf("%q", c.Labels), "qtype": c.QType, "from": c.From})
			}
		}
		idx++
	}
	specs := answerSpecs()
	for _, s := range specs {
		for _, e := range clientCodecs {
			if r.Mine(idx) {
				evalClient(r, s, e)
				r.Nontrivial(mc.Hash("client", s.name, e.Name()))
				if idx%1501 == 0 {
					r.Sample(map[string]any{"side": "client", "answer": s.name, "codec": e.Name()})
				}
			}
			idx++
		}
	}
	for si, s := range specs {
		if strings.HasPrefix(s.name, "NULL-payload-") && len(s.name) > len("NULL-payload-00") && si%16 != 0 && !r.Thorough() {
			continue // quick: every 16th of the 2-byte payloads on the live path
		}
		for _, e := range []enc.Encoder{enc.Base32Encoding, enc.RawEncoding} {
			if r.Mine(idx) {
				evalClientLive(t, r, s, e)
				r.Nontrivial(mc.Hash("client-live", s.name, e.Name()))
			}
			idx++
		}
	}
	for _, sc := range stagedCases(r.Thorough()) {
		if r.Mine(idx) {
			evalClientStaged(t, r, sc)
		}
		idx++
	}
	for _, sc := range serveCases() {
		if r.Mine(idx) {
			evalServe(r, idx, sc)
		}
		idx++
	}
	r.Note("server_messages", len(all))
	r.Note("client_answer_sections", len(specs)*len(clientCodecs))
}
