// C14 — resources are reclaimed when connections end.
//
// Engine B. A case = (carrier, connection pattern, session ending). For each case the real
// client+server are run in a bubble for N in {1, 4, 8[,16]} logical connections; the oracle
// compares, at quiescence, (i) the goroutine census after the N connections finished with
// the census after 1 connection (constant vs. linear growth), (ii) the census and the set
// of un-closed socketace-held connections after the session ended with the pre-session idle
// baseline, and (iii) that no goroutine services a dead session in a busy loop.
package c14

import (
	"fmt"
	"sort"
	"strings"
	"testing"
	"time"

	"github.com/bokysan/socketace/v2/verifharness/bubble"
	"github.com/bokysan/socketace/v2/verifharness/mc"
	"github.com/bokysan/socketace/v2/verifharness/netsim"
	"github.com/bokysan/socketace/v2/verifharness/world"
)

type Case struct {
	Carrier string `json:"carrier"`
	Overlap bool   `json:"overlap"` // two logical connections open at the same time
	Closer  string `json:"closer"`  // app | target
	Data    int    `json:"data"`    // bytes moved each way per connection before the close
	Ending  string `json:"ending"`  // client-shutdown | server-close | cut-eof | cut-reset | garbage | silence
}

func (c Case) String() string {
	return fmt.Sprintf("%s overlap=%v closer=%s data=%d ending=%s", c.Carrier, c.Overlap, c.Closer, c.Data, c.Ending)
}

type snap struct {
	census []string
	open   []string
}

func diff(a, b []string) (extra []string) {
	cnt := map[string]int{}
	for _, x := range b {
		cnt[x]++
	}
	for _, x := range a {
		if cnt[x] > 0 {
			cnt[x]--
		} else {
			extra = append(extra, x)
		}
	}
	return
}

type runResult struct {
	baseline, afterConns, afterEnd snap
	fail                           string
	detail                         string
	spins                          int
	spinMsg                        string
}

func horizon(c Case) time.Duration {
	if c.Carrier == "dns" {
		return 45 * time.Minute
	}
	return 2 * time.Minute
}

// census is bubble.Census; where the scenario itself leaves harness endpoints open for good
// (the stalled end of a half-closed connection never closes), their reader goroutines are
// the harness's, not socketace's, and are left out.
func census(c Case) []string {
	all := bubble.Census()
	if !strings.HasSuffix(c.Closer, "-stalled") {
		return all
	}
	var out []string
	for _, e := range all {
		if !strings.HasPrefix(e, "github.com/bokysan/socketace/v2/verifharness/world.NewEndpoint @") {
			out = append(out, e)
		}
	}
	return out
}

func execute(t *testing.T, c Case, n int) (rr runResult) {
	res := bubble.Run(t, func() {
		w, err := world.New(world.Options{Carrier: c.Carrier, Channels: []string{"x"}})
		if err != nil {
			rr.fail, rr.detail = "setup", err.Error()
			return
		}
		bubble.Wait()
		rr.baseline = snap{census(c), nil}
		refusedSoFar := 0
		one := func(i int) (*world.Endpoint, *world.Endpoint, bool) {
			if c.Closer == "refused" {
				// a logical connection for a channel the server does not have: it must be refused and
				// leave nothing behind, on either side
				app := w.OpenApp("no-such-channel", nil)
				bubble.Wait()
				if c.Carrier == "dns" {
					bubble.Advance(10 * time.Second)
				}
				refusedSoFar++
				if o := app.Obs(); !o.EOF && o.Err == "" {
					rr.fail, rr.detail = "refused-connection-stays-open", fmt.Sprintf("logical connection %d for an unknown channel was not ended: %v", i, o)
					return nil, nil, false
				}
				app.Close()
				bubble.Wait()
				return app, app, true
			}
			app := w.OpenApp("x", nil)
			bubble.Wait()
			if c.Carrier == "dns" {
				bubble.Advance(5 * time.Second)
			}
			tg := w.Chans[0].Target(i)
			if tg == nil {
				rr.fail, rr.detail = "no-connection", fmt.Sprintf("logical connection %d: target never dialled (front=%q logs=%q)", i, w.Front.Err, bubble.RecentLogs())
				return nil, nil, false
			}
			if c.Data > 0 {
				app.StartWrite(world.Payload(1, 0, c.Data))
				tg.StartWrite(world.Payload(2, 0, c.Data))
				bubble.Wait()
				if c.Carrier == "dns" {
					bubble.Advance(10 * time.Second)
				}
			}
			return app, tg, true
		}
		finish := func(app, tg *world.Endpoint) {
			if c.Closer == "refused" {
				return
			}
			if c.Closer == "target-halfclose-stalled" || c.Closer == "app-halfclose-stalled" {
				// one end stops reading while the other end's data towards it exceeds every buffer,
				// then half-closes its own sending direction; the peer sees the end of stream and
				// closes. The stalled end never reads again and never closes: what socketace holds
				// for this connection must be reclaimed all the same.
				stalled, other := tg, app
				if c.Closer == "app-halfclose-stalled" {
					stalled, other = app, tg
				}
				stalled.Pause()
				big := 2 << 20
				if c.Carrier == "dns" {
					big = 128 << 10
				}
				other.StartWrite(world.Payload(3, 0, big))
				bubble.Wait()
				if c.Carrier == "dns" {
					bubble.Advance(30 * time.Second)
				}
				stalled.C.CloseWrite()
				bubble.Wait()
				if c.Carrier == "dns" {
					bubble.Advance(30 * time.Second)
				}
				other.Close()
				bubble.Wait()
				if c.Carrier == "dns" {
					bubble.Advance(30 * time.Second)
				}
				return
			}
			if c.Closer == "app" {
				app.Close()
			} else {
				tg.Close()
			}
			bubble.Wait()
			if c.Carrier == "dns" {
				bubble.Advance(10 * time.Second)
			}
			// the other side sees the end of stream and closes too, as any application would
			if c.Closer == "app" {
				tg.Close()
			} else {
				app.Close()
			}
			bubble.Wait()
		}
		for i := 0; i < n; {
			if c.Overlap && i+1 < n {
				a1, t1, ok := one(i)
				if !ok {
					return
				}
				a2, t2, ok := one(i + 1)
				if !ok {
					return
				}
				finish(a1, t1)
				finish(a2, t2)
				i += 2
			} else {
				a, tg, ok := one(i)
				if !ok {
					return
				}
				finish(a, tg)
				i++
			}
		}
		bubble.Advance(5 * time.Second)
		rr.afterConns = snap{census(c), nil}
		// end the physical session
		bubble.ResetStep()
		cl := w.CarrierClientEnd(0)
		switch c.Ending {
		case "client-shutdown":
			w.Ups.Shutdown()
		case "server-close":
			if cl != nil {
				cl.Peer.Close()
			}
			if w.Dns != nil {
				// the server ends its side of every tunnel session (what it does when its multiplexer
				// session ends): the client learns of it from the answer to its next poll
				for _, sc := range w.Dns.ServerConns {
					sc.Close()
				}
			}
		case "cut-eof":
			if cl != nil {
				cl.Cut(true, false)
			}
		case "cut-reset":
			if cl != nil {
				cl.Cut(false, false)
			}
		case "cut-timeout":
			// the path dies the way the kernel reports ETIMEDOUT: reads and writes fail with a
			// net.Error whose Timeout() is true, and keep failing
			if cl != nil {
				cl.CutWith(netsim.ErrTimeout, false)
			}
		case "garbage":
			if cl != nil {
				cl.Peer.Inject([]byte("\xde\xad\xbe\xef\x00\x01\x02\x03garbage!"))
			}
		case "silence-writer-blocked":
			// the path goes silent while a download is in progress: the server's carrier write is stuck in the
			// kernel (held for good - only closing that socket ends it), nothing arrives in either direction, the
			// application and the target give up. Keep-alive time-outs end the session on both sides.
			if cl != nil {
				cl.HoldEndsAtClose, cl.Peer.HoldEndsAtClose = true, true
				a, tg, ok := one(n)
				if !ok {
					return
				}
				cl.Peer.HoldNextWriteReturn()
				tg.StartWrite(world.Payload(5, 0, 1<<20))
				bubble.Wait()
				cl.StallIncoming(true)
				cl.Peer.StallIncoming(true)
				a.Close()
				tg.Close()
			}
		case "silence":
			if cl != nil {
				cl.StallIncoming(true)
				cl.Peer.StallIncoming(true)
			}
			if w.Dns != nil {
				w.Dns.Path.Fate = func(int) world.Fate { return world.QueryLost }
			}
		}
		bubble.Wait()
		bubble.Advance(horizon(c))
		rr.afterEnd = snap{census(c), w.OpenTracked()}
	})
	if res.Panic != "" {
		rr.fail, rr.detail = "panic", res.Panic
	}
	rr.spins, rr.spinMsg = res.SpinCount, res.SpinMsg
	return
}

func topFunc(entries []string) string {
	if len(entries) == 0 {
		return ""
	}
	s := entries[0]
	if i := strings.Index(s, " @ "); i > 0 {
		s = s[:i]
	}
	if i := strings.LastIndex(s, "/"); i >= 0 {
		s = s[i+1:]
	}
	return s
}

func evalCase(t *testing.T, r *mc.Run, c Case, ns []int) {
	var first runResult
	for i, n := range ns {
		rr := execute(t, c, n)
		r.Eval(1)
		r.Transition(n*4 + 2)
		size := n
		if rr.fail != "" {
			r.Fail(rr.fail+"|"+c.Carrier+"|"+c.Ending, fmt.Sprintf("%s N=%d: %s", c, n, rr.detail), size, c)
			r.State(mc.Hash(c.String(), n, rr.fail))
			return
		}
		ok := true
		if rr.spins > 0 {
			ok = false
			r.Fail("busy-loop|"+c.Carrier+"|"+c.Ending, fmt.Sprintf("%s N=%d: a goroutine kept repeating %q (more than 2000 times within one step) after the session ended", c, n, rr.spinMsg), size, c)
		}
		if extra := diff(rr.afterEnd.census, rr.baseline.census); len(extra) > 0 {
			ok = false
			sort.Strings(extra)
			r.Fail("not-idle-after-end|"+c.Carrier+"|"+c.Ending+"|"+topFunc(extra), fmt.Sprintf("%s N=%d: %d goroutine(s) beyond the idle baseline remain %v after the session ended: %v", c, n, len(extra), horizon(c), extra), size*10+len(extra), c)
		}
		if len(rr.afterEnd.open) > 0 {
			ok = false
			r.Fail("connection-left-open|"+c.Carrier+"|"+c.Ending+"|"+rr.afterEnd.open[0], fmt.Sprintf("%s N=%d: connection ends held by socketace were never closed: %v", c, n, rr.afterEnd.open), size*10+len(rr.afterEnd.open), c)
		}
		if i == 0 {
			first = rr
		} else {
			if extra := diff(rr.afterConns.census, first.afterConns.census); len(extra) > 0 {
				ok = false
				sort.Strings(extra)
				r.Fail("goroutines-grow-with-N|"+c.Carrier+"|"+topFunc(extra), fmt.Sprintf("%s: after N=%d finished logical connections %d more goroutine(s) exist than after N=%d: %v", c, n, len(extra), ns[0], extra), size*10+len(extra), c)
			}
		}
		r.State(mc.Hash(c.String(), n, ok))
	}
	r.Nontrivial(mc.Hash(c.String()))
}

func cases(_ bool) []Case {
	var out []Case
	for _, carrier := range []string{"stream", "ws", "stdio", "dns"} {
		endings := []string{"client-shutdown", "server-close", "cut-eof", "cut-reset", "cut-timeout", "garbage", "silence"}
		if carrier == "dns" {
			endings = []string{"client-shutdown", "silence", "server-close"}
		}
		if carrier == "stdio" {
			endings = []string{"client-shutdown"}
		}
		for _, ending := range endings {
			for _, overlap := range []bool{false, true} {
				for _, closer := range []string{"app", "target", "refused", "target-halfclose-stalled", "app-halfclose-stalled"} {
					for _, data := range []int{0, 3000} {
						if closer == "refused" && (data != 0 || overlap) {
							continue
						}
						if strings.HasSuffix(closer, "-stalled") && (data != 0 || ending != "client-shutdown") {
							continue
						}
						out = append(out, Case{carrier, overlap, closer, data, ending})
					}
				}
			}
		}
		if carrier == "stream" || carrier == "ws" {
			for _, closer := range []string{"app", "target"} {
				for _, data := range []int{0, 3000} {
					out = append(out, Case{carrier, false, closer, data, "silence-writer-blocked"})
				}
			}
		}
	}
	return out
}

func TestCheck(t *testing.T) {
	r := mc.New(t, "C14")
	defer r.Finish()
	r.CrashFails = true
	ns := []int{1, 4, 8}
	if r.Thorough() {
		ns = []int{1, 2, 4, 8, 16, 32}
	}
	r.SpinFails = true // "a dead session is never serviced in a busy loop"
	if r.Replay != nil {
		var c Case
		r.DecodeReplay(&c)
		r.Guard(0, 120*time.Second, "hang|"+c.Carrier+"|"+c.Ending, c.String(), c, func() { evalCase(t, r, c, ns) })
		return
	}
	all := cases(r.Thorough())
	for idx, c := range all {
		if !r.Mine(idx) {
			continue
		}
		if r.OverBudget() {
			r.Cap(fmt.Sprintf("time budget reached at case %d of %d", idx, len(all)))
			break
		}
		r.Guard(idx, 120*time.Second, "hang|"+c.Carrier+"|"+c.Ending, c.String(), c, func() {
			evalCase(t, r, c, ns)
		})
		if idx%17 == 0 {
			r.Sample(map[string]any{"case": c.String(), "N": ns})
		}
		r.Progress(idx + 1)
	}
	r.Note("cases_total", len(all))
	r.Note("N_values", ns)
}
