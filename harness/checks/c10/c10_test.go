// C10 — DNS tunnel responses survive the wire for every record type.
//
// Engine S: every response the server can form x record type x downstream codec x domain x
// payload length goes through the real EncodeDnsResponseWithParams -> dns.Msg.Pack ->
// Unpack -> DecodeDnsResponseWithParams. Oracle (a): the outcome is either "decoded equals
// original" or a reported failure, never a silently different response; (b) for payloads up
// to the fragment size the client's own probe sequence would settle on for that (record
// type, codec, domain), the response must round-trip.
package c10

import (
	"bytes"
	"fmt"
	"regexp"
	"strings"
	"testing"

	sdns "github.com/bokysan/socketace/v2/internal/streams/dns"
	"github.com/bokysan/socketace/v2/internal/streams/dns/commands"
	"github.com/bokysan/socketace/v2/internal/streams/dns/util"
	"github.com/bokysan/socketace/v2/internal/util/enc"
	"github.com/bokysan/socketace/v2/verifharness/mc"
	"github.com/miekg/dns"
	"golang.org/x/net/dns/dnsmessage"
)

var rtypes = []dnsmessage.Type{util.QueryTypeNull, util.QueryTypePrivate, util.QueryTypeTxt, util.QueryTypeSrv, util.QueryTypeMx, util.QueryTypeCname, util.QueryTypeAAAA, util.QueryTypeA}
var rnames = map[dnsmessage.Type]string{util.QueryTypeNull: "NULL", util.QueryTypePrivate: "PRIVATE", util.QueryTypeTxt: "TXT", util.QueryTypeSrv: "SRV", util.QueryTypeMx: "MX", util.QueryTypeCname: "CNAME", util.QueryTypeAAAA: "AAAA", util.QueryTypeA: "A"}
var codecs = []enc.Encoder{enc.Base32Encoding, enc.Base64Encoding, enc.Base64uEncoding, enc.Base85Encoding, enc.Base91Encoding, enc.Base128Encoding, enc.RawEncoding}
var domains = []string{"a.bc", "example.org", "tunnel-with-a-rather-long-name.some-department.example-corp.org"}

type Case struct {
	Kind   string `json:"kind"` // packet-data | packet-empty | packet-err | fragprobe | downprobe | downprobe-err | upprobe | version | version-err | options | options-err | error
	RType  uint16 `json:"rtype"`
	Codec  string `json:"codec"`
	Domain string `json:"domain"`
	Len    int    `json:"len"`
	Fill   string `json:"fill"`
	ErrIdx int    `json:"err"`
	A, B   uint16
}

func codecByName(n string) enc.Encoder {
	for _, e := range append(codecs, enc.Base192Encoding) {
		if e.Name() == n {
			return e
		}
	}
	return nil
}

func content(n int, fill string) []byte {
	b := make([]byte, n)
	for i := range b {
		switch fill {
		case "zero":
		case "ff":
			b[i] = 0xFF
		case "printable":
			b[i] = 'a' + byte(i%26)
		default:
			b[i] = byte(i*131 + 7)
		}
	}
	return b
}

func fragPattern(n int) []byte {
	b := make([]byte, n)
	v := byte(107)
	for i := range b {
		b[i] = v
		v = (v + 107) & 0xff
	}
	return b
}

func build(c Case) commands.Response {
	e := commands.BadErrors[c.ErrIdx%len(commands.BadErrors)]
	switch c.Kind {
	case "packet-data":
		return &commands.PacketResponse{LastAckedSeqNo: c.A, Packet: &util.Packet{SeqNo: c.B, Data: content(c.Len, c.Fill)}}
	case "packet-empty":
		return &commands.PacketResponse{LastAckedSeqNo: c.A}
	case "packet-err":
		return &commands.PacketResponse{Err: e}
	case "fragprobe":
		return &commands.TestDownstreamFragmentSizeResponse{FragmentSize: uint32(c.Len), Data: fragPattern(c.Len)}
	case "fragprobe-err":
		return &commands.TestDownstreamFragmentSizeResponse{Err: e}
	case "downprobe":
		return &commands.TestDownstreamEncoderResponse{Data: util.DownloadCodecCheck}
	case "downprobe-err":
		return &commands.TestDownstreamEncoderResponse{Err: e}
	case "upprobe":
		return &commands.TestUpstreamEncoderResponse{Data: content(c.Len, c.Fill)}
	case "upprobe-err":
		return &commands.TestUpstreamEncoderResponse{Err: e}
	case "version":
		return &commands.VersionResponse{ServerVersion: sdns.ProtocolVersion, UserId: c.A % 1296}
	case "version-err":
		return &commands.VersionResponse{ServerVersion: sdns.ProtocolVersion, Err: e}
	case "options":
		return &commands.SetOptionsResponse{}
	case "options-err":
		return &commands.SetOptionsResponse{Err: e}
	case "error":
		return &commands.ErrorResponse{Err: e}
	}
	return nil
}

func errEq(a, b error) bool {
	if a == nil || b == nil {
		return a == nil && b == nil
	}
	return a.Error() == b.Error()
}

func same(a, b commands.Response) (bool, string) {
	switch x := a.(type) {
	case *commands.PacketResponse:
		y, ok := b.(*commands.PacketResponse)
		if !ok {
			return false, fmt.Sprintf("type %T", b)
		}
		if !errEq(x.Err, y.Err) {
			return false, fmt.Sprintf("err %v vs %v", x.Err, y.Err)
		}
		if x.Err != nil {
			return true, ""
		}
		if x.LastAckedSeqNo != y.LastAckedSeqNo || (x.Packet == nil) != (y.Packet == nil) {
			return false, fmt.Sprintf("ack %d vs %d, packet %v vs %v", x.LastAckedSeqNo, y.LastAckedSeqNo, x.Packet != nil, y.Packet != nil)
		}
		if x.Packet != nil && (x.Packet.SeqNo != y.Packet.SeqNo || !bytes.Equal(x.Packet.Data, y.Packet.Data)) {
			return false, fmt.Sprintf("seq %d vs %d, data %d vs %d bytes%s", x.Packet.SeqNo, y.Packet.SeqNo, len(x.Packet.Data), len(y.Packet.Data), firstDiff(x.Packet.Data, y.Packet.Data))
		}
		return true, ""
	case *commands.TestDownstreamFragmentSizeResponse:
		y, ok := b.(*commands.TestDownstreamFragmentSizeResponse)
		if !ok {
			return false, fmt.Sprintf("type %T", b)
		}
		if !errEq(x.Err, y.Err) {
			return false, fmt.Sprintf("err %v vs %v", x.Err, y.Err)
		}
		if x.Err == nil && (x.FragmentSize != y.FragmentSize || !bytes.Equal(x.Data, y.Data)) {
			return false, fmt.Sprintf("size %d vs %d, data %d vs %d bytes%s", x.FragmentSize, y.FragmentSize, len(x.Data), len(y.Data), firstDiff(x.Data, y.Data))
		}
		return true, ""
	case *commands.TestDownstreamEncoderResponse:
		y, ok := b.(*commands.TestDownstreamEncoderResponse)
		if !ok {
			return false, fmt.Sprintf("type %T", b)
		}
		if !errEq(x.Err, y.Err) || (x.Err == nil && !bytes.Equal(x.Data, y.Data)) {
			return false, fmt.Sprintf("err %v vs %v, data %d vs %d bytes%s", x.Err, y.Err, len(x.Data), len(y.Data), firstDiff(x.Data, y.Data))
		}
		return true, ""
	case *commands.TestUpstreamEncoderResponse:
		y, ok := b.(*commands.TestUpstreamEncoderResponse)
		if !ok {
			return false, fmt.Sprintf("type %T", b)
		}
		if !errEq(x.Err, y.Err) || (x.Err == nil && !bytes.Equal(x.Data, y.Data)) {
			return false, fmt.Sprintf("err %v vs %v, data %d vs %d bytes%s", x.Err, y.Err, len(x.Data), len(y.Data), firstDiff(x.Data, y.Data))
		}
		return true, ""
	case *commands.VersionResponse:
		y, ok := b.(*commands.VersionResponse)
		if !ok {
			return false, fmt.Sprintf("type %T", b)
		}
		if x.ServerVersion != y.ServerVersion || !errEq(x.Err, y.Err) || (x.Err == nil && x.UserId != y.UserId) {
			return false, fmt.Sprintf("%+v vs %+v", x, y)
		}
		return true, ""
	case *commands.SetOptionsResponse:
		y, ok := b.(*commands.SetOptionsResponse)
		return ok && errEq(x.Err, y.Err), fmt.Sprintf("%+v vs %+v", a, b)
	case *commands.ErrorResponse:
		y, ok := b.(*commands.ErrorResponse)
		return ok && errEq(x.Err, y.Err), fmt.Sprintf("%+v vs %+v", a, b)
	}
	return false, "unknown type"
}

func firstDiff(a, b []byte) string {
	n := len(a)
	if len(b) < n {
		n = len(b)
	}
	for i := 0; i < n; i++ {
		if a[i] != b[i] {
			return fmt.Sprintf(", first difference at byte %d (%02x vs %02x)", i, a[i], b[i])
		}
	}
	return ""
}

// roundtrip returns "ok", a reported failure class ("encode-error", "pack-error", ...), or
// "silently-different" / "panic".
func roundtrip(c Case) (outcome, detail string) {
	defer func() {
		if p := recover(); p != nil {
			outcome, detail = "panic", fmt.Sprint(p)
		}
	}()
	e := codecByName(c.Codec)
	resp := build(c)
	ser := commands.Serializer{Domain: c.Domain, Downstream: util.DownstreamConfig{Encoder: e}}
	q := &dns.Msg{}
	q.SetQuestion("cabc01"+"."+c.Domain+".", c.RType)
	msg, err := ser.EncodeDnsResponseWithParams(resp, q, dnsmessage.Type(c.RType), e)
	if err != nil {
		return "encode-error", err.Error()
	}
	wire, err := msg.Pack()
	if err != nil {
		return "pack-error", err.Error()
	}
	var back dns.Msg
	if err := back.Unpack(wire); err != nil {
		return "unpack-error", err.Error()
	}
	got, err := ser.DecodeDnsResponseWithParams(&back, e)
	if err != nil {
		return "decode-error", err.Error()
	}
	if ok, why := same(resp, got); !ok {
		return "silently-different", why
	}
	// DNS does not keep the order of the records of an answer (round-robin rotation, shuffling resolvers); the
	// records carry order tags for that reason. Whatever order arrives, the client must recover the same response
	// or report a failure - never a different one.
	if n := len(back.Answer); n > 1 {
		orig := append([]dns.RR{}, back.Answer...)
		perms := map[string]func(i int) int{
			"rotated":  func(i int) int { return (i + 1) % n },
			"reversed": func(i int) int { return n - 1 - i },
			"rest-rotated": func(i int) int {
				if i == 0 {
					return 0
				}
				return 1 + i%(n-1)
			},
			"stride": func(i int) int { return (i*7 + 3) % n },
		}
		for _, name := range []string{"rotated", "reversed", "rest-rotated", "stride"} {
			if name == "stride" && (n%7 == 0 || n < 4) {
				continue
			}
			m := back
			m.Answer = make([]dns.RR, n)
			for i := range m.Answer {
				m.Answer[i] = orig[perms[name](i)]
			}
			got2, err := ser.DecodeDnsResponseWithParams(&m, e)
			if err != nil {
				continue // reported
			}
			if ok, why := same(resp, got2); !ok {
				return "silently-different", "answer records " + name + ": " + why
			}
		}
	}
	return "ok", ""
}

func lenClass(c Case) string {
	switch dnsmessage.Type(c.RType) {
	case util.QueryTypeA:
		return "any"
	case util.QueryTypeAAAA:
		return "any"
	}
	if c.Len == 0 {
		return "len==0"
	}
	if c.Fill == "printable" {
		return "printable"
	}
	return "binary"
}

// selectable: the client's own selection test for a downstream codec (the DownloadCodecCheck
// probe response must come back intact) passes for this record type / codec / domain on a
// transparent path. Oracles (a) and (b) apply to selectable combinations only; for the
// others nothing but "no crash" is required (the client would never choose them).

// The selectable pairs are a frozen table (what the downstream-codec probe carries on the
// pinned tree), not computed with the code under test: a change that breaks a carrier for a
// codec must not silently move that pair out of the oracle's scope. TestCheck verifies that
// every pair of the table still carries the probe.
var frozenSelectable = map[string]bool{
	"NULL/Base32": true, "NULL/Base64": true, "NULL/Base64u": true, "NULL/Base85": true, "NULL/Base91": true, "NULL/Base128": true, "NULL/Raw": true,
	"TXT/Base32": true, "TXT/Base64": true, "TXT/Base64u": true,
	"MX/Base32": true, "MX/Base64": true, "MX/Base64u": true,
	"CNAME/Base32": true, "CNAME/Base64": true, "CNAME/Base64u": true,
	"A/Base64": true, "A/Base64u": true, "A/Base128": true,
}

func selectable(rt uint16, codec, domain string) bool {
	return frozenSelectable[rnames[dnsmessage.Type(rt)]+"/"+codec]
}

var probeCache = map[string]string{}

func probeOutcome(rt uint16, codec, domain string) string {
	k := fmt.Sprintf("%d/%s/%s", rt, codec, domain)
	if v, ok := probeCache[k]; ok {
		return v
	}
	out, _ := roundtrip(Case{Kind: "downprobe", RType: rt, Codec: codec, Domain: domain})
	probeCache[k] = out
	return out
}

func binarySafe(rt uint16) bool {
	switch dnsmessage.Type(rt) {
	case util.QueryTypeNull, util.QueryTypePrivate, util.QueryTypeAAAA, util.QueryTypeA:
		return true
	}
	return false
}

func panicClass(detail string) string {
	if i := strings.Index(detail, "\n"); i > 0 {
		detail = detail[:i]
	}
	return digits.ReplaceAllString(detail, "#")
}

var digits = regexp.MustCompile(`[0-9]+`)

func eval(r *mc.Run, c Case, mustWork bool) string {
	r.Eval(1)
	r.Transition(4)
	out, detail := roundtrip(c)
	sel := selectable(c.RType, c.Codec, c.Domain)
	r.State(mc.Hash(c.Kind, c.RType, c.Codec, out, sel))
	name := rnames[dnsmessage.Type(c.RType)]
	switch {
	case out == "panic":
		r.Fail(fmt.Sprintf("panic|%s|%s", name, panicClass(detail)), fmt.Sprintf("%+v: %s", c, detail), c.Len+len(c.Domain), c)
	case out == "silently-different" && !sel && (binarySafe(c.RType) || c.Codec == "Base32"):
		// oracle (a) also covers combinations the codec probe does not vouch for but the client can
		// still end up with: record types that carry arbitrary octets (NULL, PRIVATE, AAAA, A: no
		// name/text escaping is involved, so every codec is transparent there; when only sizes that
		// fill the last A/AAAA record can be packed, whatever does get through must be intact) and
		// Base32, the downstream codec the client falls back to WITHOUT probing it. Host-name and
		// text record types with other codecs are exempt unless their probe passes: the probe is
		// what detects that the record type escapes part of the codec's alphabet.
		r.Fail(fmt.Sprintf("silently-different|%s|%s|%s|%s", c.Kind, name, c.Codec, lenClass(c)), fmt.Sprintf("%+v: %s", c, detail), c.Len+len(c.Domain), c)
	case !sel:
	case out == "silently-different":
		r.Fail(fmt.Sprintf("silently-different|%s|%s|%s|%s", c.Kind, name, c.Codec, lenClass(c)), fmt.Sprintf("%+v: %s", c, detail), c.Len+len(c.Domain), c)
	case out != "ok" && mustWork:
		r.Fail(fmt.Sprintf("cannot-carry-within-fragment-size|%s|%s|%s|%s", c.Kind, name, c.Codec, out), fmt.Sprintf("%+v: payload is within the fragment size the client's own probes settle on for this record type/codec/domain, but %s: %s", c, out, detail), c.Len+len(c.Domain), c)
	}
	return out
}

// probeSize re-enacts AutodetectFragmentSize's proposal sequence with the real probe
// response round trip as the path; returns the max working size (0 if none).
func probeSize(rt uint16, codec, domain string) int {
	proposed, rng, max := 768, 8192-768, 0
	for rng >= 8 || max < 300 {
		out, _ := roundtrip(Case{Kind: "fragprobe", RType: rt, Codec: codec, Domain: domain, Len: proposed})
		if out == "ok" {
			max = proposed
		}
		rng >>= 1
		if max == proposed {
			proposed += rng
		} else {
			proposed -= rng
		}
		if rng == 0 {
			break
		}
	}
	return max
}

func lengths(thorough bool) []int {
	set := map[int]bool{}
	limit := 300
	if thorough {
		limit = 8192
	}
	for i := 0; i <= limit; i++ {
		set[i] = true
	}
	for _, k := range []int{253, 255, 3, 14, 57, 235, 1024, 4096} {
		for m := 1; m*k <= 8192+k; m++ {
			if !thorough && m > 12 && m*k < 8000 {
				continue
			}
			for d := -3; d <= 3; d++ {
				if v := m*k + d; v >= 0 && v <= 8192 {
					set[v] = true
				}
			}
		}
	}
	// far beyond any fragment size in force (the oracle there is "reported failure or the same payload, never a
	// silently different one"): encodings that need a second TXT answer (> 250 strings) with each codec, and the
	// 16-bit limits of a DNS message
	for _, v := range []int{16384, 32768, 39500, 39600, 40500, 47400, 47500, 48500, 50700, 51500, 52000, 55400, 56000, 60000, 65527, 65528, 65529, 65530, 65531, 65532, 65533, 65535, 65536} {
		set[v] = true
	}
	var out []int
	for v := range set {
		out = append(out, v)
	}
	// sort
	for i := 1; i < len(out); i++ {
		for j := i; j > 0 && out[j] < out[j-1]; j-- {
			out[j], out[j-1] = out[j-1], out[j]
		}
	}
	return out
}

func TestCheck(t *testing.T) {
	r := mc.New(t, "C10")
	defer r.Finish()
	if r.Replay != nil {
		var probe struct {
			Family string `json:"family"`
		}
		r.DecodeReplay(&probe)
		if probe.Family == "through-handler" {
			var hc HandlerCase
			r.DecodeReplay(&hc)
			evalHandler(r, hc)
			return
		}
		var c Case
		r.DecodeReplay(&c)
		f := probeSize(c.RType, c.Codec, c.Domain)
		eval(r, c, c.Kind == "packet-data" && f > 2 && c.Len <= f-2)
		return
	}
	if r.Mine(9999999) {
		for _, rt := range rtypes {
			for _, e := range codecs {
				if !frozenSelectable[rnames[rt]+"/"+e.Name()] {
					continue
				}
				for _, d := range append(append([]string{}, domains...), hDomain) {
					r.Eval(1)
					if out := probeOutcome(uint16(rt), e.Name(), d); out != "ok" {
						c := Case{Kind: "downprobe", RType: uint16(rt), Codec: e.Name(), Domain: d}
						r.Fail(fmt.Sprintf("%s|downprobe|%s|%s|selectable-pair", out, rnames[rt], e.Name()), fmt.Sprintf("the downstream-codec probe over %s records with %s (domain %q), which the client selects on the pinned tree, now ends as: %s", rnames[rt], e.Name(), d, out), 1, c)
					}
				}
			}
		}
	}
	for i, hc := range handlerCases(r.Thorough()) {
		if r.Mine(10000000 + i) {
			evalHandler(r, hc)
		}
	}
	idx := 0
	lens := lengths(r.Thorough())
	fsizes := map[string]int{}
	for _, rt := range rtypes {
		for _, e := range codecs {
			for _, d := range domains {
				key := fmt.Sprintf("%s/%s/%d", rnames[rt], e.Name(), len(d))
				F := -1
				getF := func() int {
					if F < 0 {
						F = probeSize(uint16(rt), e.Name(), d)
						fsizes[key] = F
					}
					return F
				}
				one := func(c Case, must func() bool) {
					if r.Mine(idx) {
						eval(r, c, must != nil && must())
						if c.Len > 0 {
							r.Nontrivial(mc.Hash(fmt.Sprintf("%+v", c)))
						}
						if idx%30011 == 0 {
							r.Sample(c)
						}
					}
					idx++
				}
				base := Case{RType: uint16(rt), Codec: e.Name(), Domain: d}
				for _, n := range lens {
					c := base
					c.Kind, c.Len, c.Fill, c.A, c.B = "packet-data", n, "ramp", uint16(n*7), uint16(65535-n)
					n := n
					one(c, func() bool { f := getF(); return f > 2 && n <= f-2 })
					if n <= 2 || n%64 == 0 {
						for _, fill := range []string{"zero", "ff", "printable"} {
							c.Fill = fill
							one(c, func() bool { f := getF(); return f > 2 && n <= f-2 })
						}
					}
					if n%97 == 0 || n < 4 {
						c2 := base
						c2.Kind, c2.Len = "fragprobe", n
						one(c2, nil)
					}
				}
				for ei := range commands.BadErrors {
					for _, k := range []string{"packet-err", "fragprobe-err", "downprobe-err", "upprobe-err", "version-err", "options-err", "error"} {
						c := base
						c.Kind, c.ErrIdx = k, ei
						one(c, nil)
					}
				}
				for _, k := range []string{"packet-empty", "downprobe", "version", "options"} {
					for _, a := range []uint16{0, 1, 255, 256, 1295, 65535} {
						c := base
						c.Kind, c.A = k, a
						one(c, nil)
					}
				}
				for _, n := range []int{0, 1, 2, 40, 59} {
					c := base
					c.Kind, c.Len, c.Fill = "upprobe", n, "ramp"
					one(c, nil)
				}
			}
		}
	}
	var sel []string
	for _, rt := range rtypes {
		for _, e := range codecs {
			if selectable(uint16(rt), e.Name(), "example.org") {
				sel = append(sel, rnames[rt]+"/"+e.Name())
			}
		}
	}
	r.Note("selectable_on_example.org", sel)
	r.Note("probed_fragment_size", fsizes)
	r.Note("cases_total", idx)
}
