package c10

// Through-handler family: the answer is produced by the REAL server path - miekg's ServeMux ->
// NetConnectionServerCommunicator.handleRequest -> ServerDnsListener.onMessage -> the server's
// own serializer - for fragment-size probe requests of every size on every record type and
// downstream codec, written to a recording ResponseWriter, packed, unpacked and decoded the way
// the client decodes it. Oracle: whatever reaches the client either decodes to exactly the
// probe pattern of the requested size (or to the server's error answer), or does not decode -
// never to a different payload. "Nothing sent" is a reported failure (the client times out).

import (
	"bytes"
	"fmt"
	"net"
	"sync"

	sdns "github.com/bokysan/socketace/v2/internal/streams/dns"
	"github.com/bokysan/socketace/v2/internal/streams/dns/commands"
	"github.com/bokysan/socketace/v2/internal/streams/dns/util"
	"github.com/bokysan/socketace/v2/internal/util/enc"
	"github.com/bokysan/socketace/v2/verifharness/bubble"
	"github.com/bokysan/socketace/v2/verifharness/mc"
	"github.com/miekg/dns"
	"golang.org/x/net/dns/dnsmessage"
)

const hDomain = "t.example.org"

type HandlerCase struct {
	Family string `json:"family"` // "through-handler"
	QType  uint16 `json:"qtype"`
	Codec  string `json:"codec"`
	From   int    `json:"from"` // sizes From..To (inclusive)
	To     int    `json:"to"`
}

func (c HandlerCase) String() string {
	return fmt.Sprintf("through-handler type=%d codec=%s probe sizes %d..%d", c.QType, c.Codec, c.From, c.To)
}

type recWriter struct {
	remote net.Addr
	msgs   []*dns.Msg
}

func (f *recWriter) LocalAddr() net.Addr         { return &net.UDPAddr{IP: net.IPv4(127, 0, 0, 1), Port: 53} }
func (f *recWriter) RemoteAddr() net.Addr        { return f.remote }
func (f *recWriter) WriteMsg(m *dns.Msg) error   { f.msgs = append(f.msgs, m); return nil }
func (f *recWriter) Write(b []byte) (int, error) { return len(b), nil }
func (f *recWriter) Close() error                { return nil }
func (f *recWriter) TsigStatus() error           { return nil }
func (f *recWriter) TsigTimersOnly(bool)         {}
func (f *recWriter) Hijack()                     {}

var (
	hOnce sync.Once
	hErr  error
	hAddr = &net.UDPAddr{IP: net.IPv4(10, 1, 1, 1), Port: 4001}
)

func hDeliver(m *dns.Msg) (w *recWriter, pan string) {
	w = &recWriter{remote: hAddr}
	defer func() {
		if p := recover(); p != nil {
			pan = fmt.Sprint(p)
		}
	}()
	dns.DefaultServeMux.ServeDNS(w, m)
	return
}

func hSetup() {
	hOnce.Do(func() {
		bubble.SetupLogging()
		comm, err := sdns.NewNetConnectionServerCommunicator(&dns.Server{Addr: "127.0.0.1:0", Net: "udp"})
		if err != nil {
			hErr = err
			return
		}
		l := sdns.NewServerDnsListener(hDomain, comm)
		go func() {
			for {
				if _, err := l.Accept(); err != nil {
					return
				}
			}
		}()
	})
}

// hSession opens a session and sets its downstream codec.
func hSession(codec enc.Encoder) (uint16, error) {
	ser := commands.Serializer{Domain: hDomain, Upstream: util.UpstreamConfig{Encoder: enc.Base32Encoding}}
	m, err := ser.EncodeDnsRequestWithParams(&commands.VersionRequest{ClientVersion: sdns.ProtocolVersion}, util.QueryTypeNull, enc.Base32Encoding)
	if err != nil {
		return 0, err
	}
	w, pan := hDeliver(m)
	if pan != "" || len(w.msgs) != 1 {
		return 0, fmt.Errorf("version request failed: %s", pan)
	}
	resp, err := ser.DecodeDnsResponseWithParams(w.msgs[0], enc.Base32Encoding)
	if err != nil {
		return 0, err
	}
	v, ok := resp.(*commands.VersionResponse)
	if !ok || v.Err != nil {
		return 0, fmt.Errorf("version request refused: %+v", resp)
	}
	m, err = ser.EncodeDnsRequestWithParams(&commands.SetOptionsRequest{UserId: v.UserId, DownstreamEncoder: codec}, util.QueryTypeNull, enc.Base32Encoding)
	if err != nil {
		return 0, err
	}
	w, pan = hDeliver(m)
	if pan != "" || len(w.msgs) != 1 {
		return 0, fmt.Errorf("set-options failed: %s", pan)
	}
	return v.UserId, nil
}

func handlerCases(thorough bool) []HandlerCase {
	var out []HandlerCase
	codecs := []string{"Base32", "Base64", "Base64u", "Base128", "Raw"}
	if thorough {
		codecs = []string{"Base32", "Base64", "Base64u", "Base85", "Base91", "Base128", "Raw"}
	}
	for _, qt := range []dnsmessage.Type{util.QueryTypeNull, util.QueryTypePrivate, util.QueryTypeTxt, util.QueryTypeSrv, util.QueryTypeMx, util.QueryTypeCname, util.QueryTypeAAAA, util.QueryTypeA} {
		for _, cd := range codecs {
			for from := 0; from < 1500; from += 250 {
				out = append(out, HandlerCase{"through-handler", uint16(qt), cd, from, from + 249})
			}
			if thorough {
				out = append(out, HandlerCase{"through-handler", uint16(qt), cd, 1500, 2100}, HandlerCase{"through-handler", uint16(qt), cd, 4000, 4200})
			}
		}
	}
	return out
}

func evalHandler(r *mc.Run, c HandlerCase) {
	hSetup()
	if hErr != nil {
		r.Inconclusive("setup: " + hErr.Error())
		return
	}
	if !selectable(c.QType, c.Codec, hDomain) {
		// a (record type, codec) pair whose downstream-codec probe does not round-trip: the client
		// never selects it, nothing but "no crash" is required of it (see 9.4)
		r.Eval(1)
		r.State(mc.Hash("through-handler", c.QType, c.Codec, "not-selectable"))
		return
	}
	codec := codecByName(c.Codec)
	id, err := hSession(codec)
	if err != nil {
		r.Inconclusive(c.String() + ": " + err.Error())
		return
	}
	ser := commands.Serializer{Domain: hDomain, Upstream: util.UpstreamConfig{Encoder: enc.Base32Encoding}}
	outcomes := map[string]int{}
	if c.From == 0 {
		// error answers: a request for a session the server does not know (restart, expiry) and a
		// request that is no command at all are answered with an error code; the client, which
		// decodes with the codec IT negotiated, must read that very code (or fail to decode)
		for _, probe := range []struct {
			what string
			req  commands.Request
			want error
		}{
			{"unknown session", &commands.TestDownstreamFragmentSizeRequest{UserId: 1111, FragmentSize: 10}, commands.BadUser},
			{"unknown session (packet)", &commands.PacketRequest{UserId: 1112, LastAckedSeqNo: 7}, commands.BadUser},
		} {
			r.Eval(1)
			m, err := ser.EncodeDnsRequestWithParams(probe.req, dnsmessage.Type(c.QType), enc.Base32Encoding)
			if err != nil {
				continue
			}
			w, pan := hDeliver(m)
			if pan != "" {
				r.Fail("panic|through-handler", fmt.Sprintf("%s %s: %s", c, probe.what, pan), 0, c)
				return
			}
			if len(w.msgs) == 0 {
				continue
			}
			packed, err := w.msgs[0].Pack()
			if err != nil {
				continue
			}
			a := new(dns.Msg)
			if a.Unpack(packed) != nil {
				continue
			}
			resp, err := ser.DecodeDnsResponseWithParams(a, codec)
			if err != nil {
				continue // reported failure
			}
			got := fmt.Sprintf("%T", resp)
			switch v := resp.(type) {
			case *commands.ErrorResponse:
				got = fmt.Sprint(v.Err)
			case *commands.TestDownstreamFragmentSizeResponse:
				got = fmt.Sprint(v.Err)
			case *commands.PacketResponse:
				got = fmt.Sprint(v.Err)
			}
			if got != probe.want.Error() {
				r.Fail(fmt.Sprintf("silently-different|through-handler|error-answer|%s", c.Codec), fmt.Sprintf("%s: request for an %s: the server answers %v; the client, decoding with its negotiated codec %s, reads %q", c, probe.what, probe.want, c.Codec, got), 0, c)
				return
			}
			outcomes["error-code-carried"]++
		}
	}
	for n := c.From; n <= c.To; n++ {
		r.Eval(1)
		r.Transition(2)
		m, err := ser.EncodeDnsRequestWithParams(&commands.TestDownstreamFragmentSizeRequest{UserId: id, FragmentSize: uint32(n)}, dnsmessage.Type(c.QType), enc.Base32Encoding)
		if err != nil {
			outcomes["request-not-encodable"]++
			continue
		}
		w, pan := hDeliver(m)
		if pan != "" {
			r.Fail("panic|through-handler", fmt.Sprintf("%s size %d: %s", c, n, pan), n, HandlerCase{c.Family, c.QType, c.Codec, n, n})
			return
		}
		if len(w.msgs) == 0 {
			outcomes["nothing-sent"]++ // the client's query times out: a reported failure
			continue
		}
		packed, err := w.msgs[0].Pack()
		if err != nil {
			outcomes["unpackable-answer"]++ // miekg's writer fails the same way: nothing reaches the client
			continue
		}
		a := new(dns.Msg)
		if err := a.Unpack(packed); err != nil {
			outcomes["client-cannot-unpack"]++
			continue
		}
		resp, err := ser.DecodeDnsResponseWithParams(a, codec)
		if err != nil {
			outcomes["client-decode-error"]++
			continue
		}
		fr, ok := resp.(*commands.TestDownstreamFragmentSizeResponse)
		if !ok {
			if er, isErr := resp.(*commands.ErrorResponse); isErr && er != nil {
				outcomes["error-answer"]++
				continue
			}
			r.Fail("silently-different|through-handler|other-command", fmt.Sprintf("%s size %d: the client decoded a %T", c, n, resp), n, HandlerCase{c.Family, c.QType, c.Codec, n, n})
			return
		}
		if fr.Err != nil {
			outcomes["error-answer"]++
			continue
		}
		if int(fr.FragmentSize) != n || !bytes.Equal(fr.Data, fragPattern(n)) {
			r.Fail(fmt.Sprintf("silently-different|through-handler|type=%d|%s", c.QType, c.Codec), fmt.Sprintf("%s size %d: the server's answer reached the client, decoded without error, and carries size field %d with %d bytes of data (first difference %s) instead of the %d-byte probe pattern", c, n, fr.FragmentSize, len(fr.Data), firstDiff(fr.Data, fragPattern(n)), n), n, HandlerCase{c.Family, c.QType, c.Codec, n, n})
			return
		}
		outcomes["carried"]++
	}
	for k := range outcomes {
		r.State(mc.Hash("through-handler", c.QType, c.Codec, k))
	}
	if outcomes["carried"] > 0 {
		r.Nontrivial(mc.Hash(c.String()))
	}
}
