package c01

// Real-carrier pass (real sockets, real time): the whole program - server Command from JSON
// (real server objects, a real network channel to an echoing TCP service), client Command
// from flags (real upstream object of the carrier, real SocketListener) - and a local
// application on loopback TCP. Per carrier the application writes payloads of the boundary
// sizes in several write partitions and reads the echo: byte-exact both ways. Value oracle
// only; a transfer that does not finish within the generous real-time horizon is inconclusive.

import (
	"bytes"
	"encoding/json"
	"fmt"
	"io"
	"net"
	"os"
	"strings"
	"time"

	clientcmd "github.com/bokysan/socketace/v2/internal/commands/client"
	servercmd "github.com/bokysan/socketace/v2/internal/commands/server"
	"github.com/bokysan/socketace/v2/verifharness/bubble"
	"github.com/bokysan/socketace/v2/verifharness/mc"
	"github.com/bokysan/socketace/v2/verifharness/pki"
	"github.com/bokysan/socketace/v2/verifharness/world"
)

type RealCase struct {
	Family  string `json:"family"` // "real-program"
	Carrier string `json:"carrier"`
	Sizes   []int  `json:"sizes"`
	Chunk   int    `json:"chunk"` // the application writes in pieces of this size (0 = one Write per payload)
}

func (c RealCase) String() string {
	return fmt.Sprintf("real-program carrier=%s sizes=%v write-size=%d", c.Carrier, c.Sizes, c.Chunk)
}

func freeTCP() int {
	l, err := net.Listen("tcp", "127.0.0.1:0")
	if err != nil {
		return 0
	}
	defer l.Close()
	return l.Addr().(*net.TCPAddr).Port
}

func freeUDP() int {
	c, err := net.ListenPacket("udp", "127.0.0.1:0")
	if err != nil {
		return 0
	}
	defer c.Close()
	return c.LocalAddr().(*net.UDPAddr).Port
}

func realCases(thorough bool) []RealCase {
	var out []RealCase
	sizes := []int{1, 4096, 32640, 65537}
	big := []int{300000}
	for _, ca := range []string{"tcp", "tcp+tls", "http", "https", "udp", "udp+secret", "dns"} {
		for _, chunk := range []int{0, 1000} {
			s := append([]int{}, sizes...)
			if ca != "dns" || thorough {
				s = append(s, big...)
			}
			if thorough && ca != "dns" {
				s = append(s, 3<<20)
			}
			out = append(out, RealCase{"real-program", ca, s, chunk})
		}
	}
	return out
}

func executeReal(c RealCase) (kind, detail string) {
	bubble.SetupLogging()
	defer func() {
		if p := recover(); p != nil {
			kind, detail = "panic|real-program", fmt.Sprint(p)
		}
	}()
	p := pki.Real()
	// echo service behind a real network channel
	ln, err := net.Listen("tcp", "127.0.0.1:0")
	if err != nil {
		return "inconclusive", err.Error()
	}
	defer ln.Close()
	go func() {
		for {
			cn, err := ln.Accept()
			if err != nil {
				return
			}
			go func() { defer cn.Close(); io.Copy(cn, cn) }()
		}
	}()
	entry := map[string]interface{}{}
	url := ""
	switch c.Carrier {
	case "tcp", "tcp+tls":
		pt := freeTCP()
		entry["address"] = fmt.Sprintf("%s://127.0.0.1:%d", c.Carrier, pt)
		url = fmt.Sprintf("%s://127.0.0.1:%d", c.Carrier, pt)
	case "http", "https":
		pt := freeTCP()
		entry["address"] = fmt.Sprintf("%s://127.0.0.1:%d", c.Carrier, pt)
		entry["endpoints"] = []interface{}{map[string]interface{}{"endpoint": "/ws"}}
		url = fmt.Sprintf("%s://127.0.0.1:%d/ws", c.Carrier, pt)
	case "udp":
		pt := freeUDP()
		entry["address"] = fmt.Sprintf("udp://127.0.0.1:%d", pt)
		url = fmt.Sprintf("udp://127.0.0.1:%d", pt)
	case "udp+secret":
		pt := freeUDP()
		entry["address"] = fmt.Sprintf("udp://:s3cret@127.0.0.1:%d", pt)
		url = fmt.Sprintf("udp://:s3cret@127.0.0.1:%d", pt)
	case "dns":
		pt := freeUDP()
		entry["address"], entry["domain"] = fmt.Sprintf("dns://127.0.0.1:%d", pt), "example.org"
		url = fmt.Sprintf("dns://example.org?direct=false&dns=127.0.0.1:%d", pt)
	}
	if strings.HasSuffix(c.Carrier, "tls") || c.Carrier == "https" {
		entry["certificate"], entry["privateKey"] = p.Server.CertPEM, p.Server.KeyPEM
	}
	sc := servercmd.NewCommand()
	chans, _ := json.Marshal([]interface{}{map[string]interface{}{"name": "echo", "address": "tcp://" + ln.Addr().String()}})
	if err := sc.Channels.UnmarshalJSON(chans); err != nil {
		return "inconclusive", "channels: " + err.Error()
	}
	srvs, _ := json.Marshal([]interface{}{entry})
	if err := sc.Servers.UnmarshalJSON(srvs); err != nil {
		return "inconclusive", "servers: " + err.Error()
	}
	interrupted := make(chan os.Signal, 1)
	started := make(chan error, 1)
	go func() { started <- sc.Startup(interrupted) }()
	select {
	case err := <-started:
		if err != nil {
			return "inconclusive", "server startup: " + err.Error()
		}
	case <-time.After(400 * time.Millisecond): // the http server's Startup blocks while it serves
	}
	defer sc.Shutdown()
	time.Sleep(300 * time.Millisecond)
	if c.Carrier == "dns" {
		time.Sleep(1200 * time.Millisecond) // the DNS server installs its handler one second after it starts listening
	}
	cc := clientcmd.NewCommand()
	cc.ClientConfig.CaCertificate = p.CA
	if err := cc.Upstream.UnmarshalFlag(url); err != nil {
		return "inconclusive", "upstream: " + err.Error()
	}
	lp := freeTCP()
	if err := cc.ListenList.UnmarshalFlag(fmt.Sprintf("echo~tcp://127.0.0.1:%d", lp)); err != nil {
		return "inconclusive", "listener: " + err.Error()
	}
	if err := cc.Startup(interrupted); err != nil {
		return "inconclusive", "client startup: " + err.Error()
	}
	defer cc.Shutdown()
	time.Sleep(100 * time.Millisecond)
	conn, err := net.DialTimeout("tcp", fmt.Sprintf("127.0.0.1:%d", lp), 5*time.Second)
	if err != nil {
		return "inconclusive", "dial listener: " + err.Error()
	}
	defer conn.Close()
	off := 0
	for _, n := range c.Sizes {
		data := world.Payload(0x5a, off, n)
		off += n
		go func() {
			rest := data
			for len(rest) > 0 {
				k := len(rest)
				if c.Chunk > 0 && c.Chunk < k {
					k = c.Chunk
				}
				if _, err := conn.Write(rest[:k]); err != nil {
					return
				}
				rest = rest[k:]
			}
		}()
		horizon := 60*time.Second + time.Duration(n/2000)*time.Second
		conn.SetReadDeadline(time.Now().Add(horizon))
		back := make([]byte, n)
		m, err := io.ReadFull(conn, back)
		if !bytes.Equal(back[:m], data[:m]) {
			i := 0
			for i < m && back[i] == data[i] {
				i++
			}
			return "corrupt|real-program", fmt.Sprintf("payload of %d bytes: the echo differs from what was written at offset %d (of %d received)", n, i, m)
		}
		if err != nil {
			if ne, ok := err.(net.Error); ok && ne.Timeout() {
				return "inconclusive", fmt.Sprintf("payload of %d bytes: %d bytes echoed within %v", n, m, horizon)
			}
			return "connection-ended|real-program", fmt.Sprintf("payload of %d bytes: the connection ended after %d echoed bytes: %v", n, m, err)
		}
	}
	return "", ""
}

func realProgramCases(r *mc.Run, base int) {
	for i, c := range realCases(r.Thorough()) {
		idx := base + i
		if !r.Mine(idx) || r.OverBudget() {
			continue
		}
		k, d := executeReal(c)
		for try := 0; try < 3 && k == "inconclusive" && strings.Contains(d, "in use"); try++ {
			k, d = executeReal(c)
		}
		r.Eval(1)
		r.Transition(len(c.Sizes) + 2)
		if k == "inconclusive" {
			r.Inconclusive(c.String() + ": " + d)
			continue
		}
		r.State(mc.Hash("real-program", c.Carrier, c.Chunk, k))
		r.Nontrivial(mc.Hash(c.String()))
		if k != "" {
			r.Fail(k+"|"+c.Carrier, fmt.Sprintf("%s: %s", c, d), len(c.Sizes), c)
		}
	}
}
