// C01 — end-to-end byte-stream fidelity over every transport.
//
// Engine B: the real client (AbstractListener.HandleConnection -> Upstreams -> handshake
// -> smux) and the real server (AcceptConnection -> ConnectionHandler -> channel) run in
// one synctest bubble over an in-memory carrier. Enumerated: carrier x security x
// direction x write-size sequence x carrier segmentation plan x content. Oracle at the
// closing quiescence: each side consumed exactly the bytes the other wrote.
package c01

import (
	"fmt"
	"testing"
	"time"

	"github.com/bokysan/socketace/v2/verifharness/bubble"
	"github.com/bokysan/socketace/v2/verifharness/mc"
	"github.com/bokysan/socketace/v2/verifharness/netsim"
	"github.com/bokysan/socketace/v2/verifharness/world"
)

type Case struct {
	Carrier string `json:"carrier"`
	Sec     string `json:"sec"` // plain | tls | starttls
	Dir     string `json:"dir"` // up | down | both
	Sizes   []int  `json:"sizes"`
	Plan    string `json:"plan"` // default | preserve | byte600 | cap1024 | cap4095 | cap4096
	Fill    string `json:"fill"` // pattern | zero | ff
	UDP     bool   `json:"udp,omitempty"`
	IOList  bool   `json:"stdio_listener,omitempty"` // local application attached through the real InputOutputListener
	Quiet   int    `json:"quiet,omitempty"`          // fake seconds the logical connection stays idle before the first write
	// Paced: every write is issued only after the previous one has crossed (each application write
	// reaches the carrier as a message of its own; Sizes is then From..To, every length in turn)
	Paced bool `json:"paced,omitempty"`
}

func (c Case) String() string {
	l := ""
	if c.IOList {
		l = " listener=stdio"
	}
	if c.Quiet > 0 {
		l += fmt.Sprintf(" idle-first=%ds", c.Quiet)
	}
	if c.Paced {
		return fmt.Sprintf("%s/%s dir=%s paced writes of every length %d..%d%s", c.Carrier, c.Sec, c.Dir, c.Sizes[0], c.Sizes[len(c.Sizes)-1], l)
	}
	return fmt.Sprintf("%s/%s dir=%s sizes=%v plan=%s fill=%s%s", c.Carrier, c.Sec, c.Dir, c.Sizes, c.Plan, c.Fill, l)
}

func fillFn(fill string, tag byte) func(off int) byte {
	switch fill {
	case "zero":
		return func(int) byte { return 0 }
	case "ff":
		return func(int) byte { return 0xFF }
	}
	return func(off int) byte { return world.Pattern(tag, off) }
}

func makeWrites(sizes []int, f func(int) byte) [][]byte {
	var out [][]byte
	off := 0
	for _, n := range sizes {
		b := make([]byte, n)
		for i := range b {
			b[i] = f(off + i)
		}
		off += n
		out = append(out, b)
	}
	return out
}

func sum(s []int) int {
	t := 0
	for _, x := range s {
		t += x
	}
	return t
}

func bucket(sizes []int) string {
	m := 0
	for _, s := range sizes {
		if s > m {
			m = s
		}
	}
	switch {
	case m <= 4088:
		return "max<=4088"
	case m <= 32640:
		return "max<=32640"
	case m <= 65536:
		return "max<=65536"
	}
	return "max>65536"
}

func applyPlan(plan string) func(c, s *netsim.MemConn) {
	return func(c, s *netsim.MemConn) {
		for _, x := range []*netsim.MemConn{c, s} {
			switch plan {
			case "preserve":
				x.PreserveWrites(true)
			case "byte600":
				x.SetReadPlan(600, 0)
			case "cap1024":
				x.SetReadPlan(0, 1024)
			case "cap4095":
				x.SetReadPlan(0, 4095)
			case "cap4096":
				x.SetReadPlan(0, 4096)
			}
		}
	}
}

// execute runs one case; returns "" or (failure kind, detail).
func execute(t *testing.T, c Case) (kind, detail string, res bubble.Result) {
	upF, downF := fillFn(c.Fill, 0x11), fillFn(c.Fill, 0x80)
	res = bubble.Run(t, func() {
		o := world.Options{Carrier: c.Carrier, Channels: []string{"x"}, OnDial: applyPlan(c.Plan)}
		switch c.Sec {
		case "tls":
			o.TLS, o.ServerCert, o.ClientKnowsCA = true, "good", true
		case "starttls":
			o.ServerCert, o.ClientKnowsCA = "good", true
			if c.Carrier == "stdio" {
				// a stdio upstream has no host name to verify a StartTLS certificate against; the
				// working configuration is --insecure (authentication is C05's subject, not C01's)
				o.Insecure = true
			}
		}
		w, err := world.New(o)
		if err != nil {
			kind, detail = "setup", err.Error()
			return
		}
		w.Chans[0].Expect = func(int) func(int) byte { return upF }
		var app *world.Endpoint
		if c.IOList {
			if app, err = w.OpenAppIO("x", downF); err != nil {
				kind, detail = "setup", "InputOutputListener.Start: "+err.Error()
				return
			}
		} else {
			app = w.OpenApp("x", downF)
		}
		bubble.Wait()
		horizon := 5 * time.Second
		if c.Carrier == "dns" {
			horizon = 30 * time.Second
		}
		tg := w.Chans[0].Target(0)
		if tg == nil {
			// the logical connection is only established once data flows on some paths: give it time
			bubble.Advance(horizon)
			tg = w.Chans[0].Target(0)
		}
		if tg == nil {
			kind, detail = "no-connection", fmt.Sprintf("target never dialled; front=%q accept=%v", w.Front.Err, w.AcceptErrs)
			return
		}
		if c.Quiet > 0 {
			bubble.Advance(time.Duration(c.Quiet) * time.Second)
		}
		total := sum(c.Sizes)
		if c.Paced {
			ups, downs := makeWrites(c.Sizes, upF), makeWrites(c.Sizes, downF)
			sent := 0
			for i := range c.Sizes {
				if c.Dir == "up" || c.Dir == "both" {
					app.StartWrite(ups[i])
				}
				if c.Dir == "down" || c.Dir == "both" {
					tg.StartWrite(downs[i])
				}
				sent += c.Sizes[i]
				bubble.Wait()
				for j := 0; j < 40 && c.Carrier == "dns"; j++ {
					if (c.Dir == "down" || tg.Obs().Got >= sent) && (c.Dir == "up" || app.Obs().Got >= sent) {
						break
					}
					bubble.Advance(2 * time.Second)
				}
			}
		} else {
			if c.Dir == "up" || c.Dir == "both" {
				app.StartWrites(makeWrites(c.Sizes, upF))
			}
			if c.Dir == "down" || c.Dir == "both" {
				tg.StartWrites(makeWrites(c.Sizes, downF))
			}
		}
		bubble.Wait()
		bubble.Advance(horizon)
		if c.Carrier == "dns" {
			// the DNS carrier needs fake time proportional to the exchanges; keep advancing while bytes still arrive
			for i := 0; i < 400; i++ {
				a, g := app.Obs().Got, tg.Obs().Got
				bubble.Advance(horizon)
				if app.Obs().Got == a && tg.Obs().Got == g {
					break
				}
			}
		}
		ao, to := app.Obs(), tg.Obs()
		wantUp, wantDown := 0, 0
		if c.Dir == "up" || c.Dir == "both" {
			wantUp = total
		}
		if c.Dir == "down" || c.Dir == "both" {
			wantDown = total
		}
		switch {
		case to.BadAt >= 0:
			kind, detail = "corrupt-up", fmt.Sprintf("target byte %d differs from what the app wrote; %v", to.BadAt, to)
		case ao.BadAt >= 0:
			kind, detail = "corrupt-down", fmt.Sprintf("app byte %d differs from what the target wrote; %v", ao.BadAt, ao)
		case to.Got > wantUp:
			kind, detail = "extra-up", fmt.Sprintf("target got %d bytes, app wrote %d", to.Got, wantUp)
		case ao.Got > wantDown:
			kind, detail = "extra-down", fmt.Sprintf("app got %d bytes, target wrote %d", ao.Got, wantDown)
		case to.Got < wantUp:
			kind, detail = "lost-up", fmt.Sprintf("target got %d of %d bytes; app=%v target=%v", to.Got, wantUp, ao, to)
		case ao.Got < wantDown:
			kind, detail = "lost-down", fmt.Sprintf("app got %d of %d bytes; app=%v target=%v", ao.Got, wantDown, ao, to)
		case to.Err != "" || ao.Err != "" || to.EOF || ao.EOF:
			kind, detail = "spurious-end", fmt.Sprintf("connection ended/errored though nobody closed: app=%v target=%v", ao, to)
		}
		if kind != "" {
			detail += fmt.Sprintf(" | front.err=%q dials=%d acceptErrs=%v handled=%d", w.Front.Err, w.Front.Dials, w.AcceptErrs, w.HandledCount()) + fmt.Sprintf(" logs=%q", bubble.RecentLogs())
		}
		if kind == "" {
			for _, o := range []world.Obs{ao, to} {
				for _, wr := range o.Writes {
					if !wr.Done || wr.N != wr.Len || wr.Err != "" {
						kind, detail = "write-result", fmt.Sprintf("%s write %+v", o.Name, wr)
					}
				}
			}
		}
	})
	if res.Panic != "" {
		kind, detail = "panic", res.Panic
	}
	if kind == "" && res.SpinCount > 0 {
		kind, detail = "spin", res.SpinMsg
	}
	return
}

var sizesA = []int{1, 2, 4095, 4096, 4097, 32639, 32640, 32641, 32767, 32768, 32769, 65535, 65536, 65537, 3*1024*1024 + 1}

type variant struct {
	carrier, sec string
}

func cases(thorough bool) []Case {
	var out []Case
	variants := []variant{
		{"stream", "plain"}, {"stream", "tls"}, {"stream", "starttls"},
		{"ws", "plain"}, {"ws", "tls"}, {"ws", "starttls"},
		{"stdio", "plain"}, {"stdio", "tls"}, {"stdio", "starttls"},
		{"dns", "plain"}, {"dns", "starttls"},
	}
	pairsQ := [][]int{{4095, 2}, {4096, 1}, {1, 4096}, {32640, 1}, {32767, 2}, {1, 32768}}
	for _, v := range variants {
		plans := []string{"default", "preserve", "byte600", "cap1024", "cap4095", "cap4096"}
		if v.carrier == "dns" {
			plans = []string{"default"}
		}
		for _, dir := range []string{"up", "down", "both"} {
			var seqs [][]int
			for _, s := range sizesA {
				seqs = append(seqs, []int{s})
			}
			if thorough {
				for _, a := range sizesA[:14] {
					for _, b := range sizesA[:14] {
						seqs = append(seqs, []int{a, b})
					}
				}
				for _, a := range []int{1, 4097, 32769} {
					for _, b := range []int{1, 4097, 32769} {
						for _, d := range []int{1, 4097, 32769} {
							seqs = append(seqs, []int{a, b, d})
						}
					}
				}
			} else {
				seqs = append(seqs, pairsQ...)
			}
			for _, sq := range seqs {
				big := sum(sq) > 1024*1024
				if v.carrier == "dns" && big && (!thorough || dir == "both") {
					continue
				}
				for pi, plan := range plans {
					if big && pi > 1 && !thorough {
						continue // quick: the 3 MiB payload only with the two whole-buffer plans
					}
					if thorough && len(sq) == 2 && pi > 1 && (sq[0] < 4000 || sq[1] < 4000) == false && pi != 3 {
						// thorough pairs: all plans for pairs with a small member, else default/preserve/cap1024
						continue
					}
					out = append(out, Case{Carrier: v.carrier, Sec: v.sec, Dir: dir, Sizes: sq, Plan: plan, Fill: "pattern"})
					if plan == "default" && !big && len(sq) == 1 && (sq[0] == 1 || sq[0] == 65537) {
						out = append(out, Case{Carrier: v.carrier, Sec: v.sec, Dir: dir, Sizes: sq, Plan: plan, Fill: "pattern", Quiet: 40})
					}
					if plan == "default" && !big && v.sec != "tls" {
						out = append(out, Case{Carrier: v.carrier, Sec: v.sec, Dir: dir, Sizes: sq, Plan: plan, Fill: "pattern", IOList: true})
					}
					if len(sq) == 1 && plan == "default" && !big {
						out = append(out, Case{Carrier: v.carrier, Sec: v.sec, Dir: dir, Sizes: sq, Plan: plan, Fill: "zero"})
						out = append(out, Case{Carrier: v.carrier, Sec: v.sec, Dir: dir, Sizes: sq, Plan: plan, Fill: "ff"})
					}
				}
			}
		}
	}
	// every write length in turn, each write crossing the carrier as a message of its own (what a
	// length does to the carrier's framing: DNS name layout, websocket frames, TLS records)
	for _, v := range variants {
		if v.sec == "starttls" && !thorough {
			continue
		}
		hi := 450
		if v.carrier != "dns" {
			hi = 300
		}
		var seq []int
		for n := 1; n <= hi; n++ {
			seq = append(seq, n)
		}
		for _, dir := range []string{"up", "down"} {
			out = append(out, Case{Carrier: v.carrier, Sec: v.sec, Dir: dir, Sizes: seq, Plan: "default", Fill: "pattern", Paced: true})
		}
	}
	return out
}

func record(r *mc.Run, c Case, kind, detail string) {
	r.Eval(1)
	r.Transition(len(c.Sizes) + 2)
	r.State(mc.Hash(c.Carrier, c.Sec, c.Dir, c.Plan, bucket(c.Sizes), kind))
	if len(c.Sizes) > 1 || c.Sizes[0] >= 4095 || c.Plan != "default" {
		r.Nontrivial(mc.Hash(c.String()))
	}
	if kind != "" {
		fp := fmt.Sprintf("%s|%s/%s|%s", kind, c.Carrier, c.Sec, bucket(c.Sizes))
		r.Fail(fp, fmt.Sprintf("%s: %s", c, detail), sum(c.Sizes)/1000+len(c.Sizes)*10+len(c.Plan), c)
	}
}

func TestCheck(t *testing.T) {
	r := mc.New(t, "C01")
	defer r.Finish()
	r.CrashFails = true
	if r.Replay != nil {
		var probe struct {
			Family string `json:"family"`
		}
		r.DecodeReplay(&probe)
		if probe.Family == "real-program" {
			var rc RealCase
			r.DecodeReplay(&rc)
			k, d := executeReal(rc)
			r.Eval(1)
			r.Transition(len(rc.Sizes) + 2)
			if k == "inconclusive" {
				r.Inconclusive(rc.String() + ": " + d)
			} else if k != "" {
				r.Fail(k+"|"+rc.Carrier, fmt.Sprintf("%s: %s", rc, d), len(rc.Sizes), rc)
			}
			return
		}
		if probe.Family == "dns-close" {
			var dc DnsCloseCase
			r.DecodeReplay(&dc)
			k, d := executeDnsClose(t, dc)
			r.Eval(1)
			r.Transition(4)
			if k != "" {
				r.Fail(k, fmt.Sprintf("%s: %s", dc, d), dc.Up+dc.Down, dc)
			}
			return
		}
		if probe.Family == "ws-tunnel" {
			var wc WsCase
			r.DecodeReplay(&wc)
			k, d := executeWs(t, wc)
			recordWs(r, wc, k, d)
			return
		}
		var c Case
		r.DecodeReplay(&c)
		var kind, detail string
		if c.UDP {
			kind, detail = executeUDP(c)
		} else {
			kind, detail, _ = execute(t, c)
		}
		record(r, c, kind, detail)
		return
	}
	all := cases(r.Thorough())
	for idx, c := range all {
		if !r.Mine(idx) {
			continue
		}
		if r.OverBudget() {
			r.Cap(fmt.Sprintf("time budget reached at case %d of %d", idx, len(all)))
			break
		}
		var kind, detail string
		limit := 30 * time.Second
		if c.Carrier == "dns" {
			// the DNS carrier costs real CPU per exchange (~200 payload bytes each): megabytes take
			// tens of seconds on a loaded machine
			limit += time.Duration(sum(c.Sizes)/10000) * time.Second
		}
		r.Guard(idx, limit, "hang|"+c.Carrier+"/"+c.Sec+"|"+bucket(c.Sizes), c.String(), c, func() {
			kind, detail, _ = execute(t, c)
		})
		record(r, c, kind, detail)
		if idx%53 == 0 {
			r.Sample(map[string]any{"case": c, "outcome": kind})
		}
		r.Progress(idx + 1)
	}
	udpCases(r, len(all))
	// websocket tunnel reader shapes, two tunnels in one process
	ws := wsCases(r.Thorough())
	base := len(all) + 1000
	for i, wc := range ws {
		idx := base + i
		if !r.Mine(idx) {
			continue
		}
		if r.OverBudget() {
			r.Cap(fmt.Sprintf("time budget reached at ws-tunnel case %d of %d", i, len(ws)))
			break
		}
		var k, d string
		r.Guard(idx, 30*time.Second, "hang|ws-tunnel", wc.String(), wc, func() { k, d = executeWs(t, wc) })
		recordWs(r, wc, k, d)
		if i%2003 == 0 {
			r.Sample(map[string]any{"case": wc.String(), "outcome": k})
		}
	}
	// DNS tunnel connections: close before the receiving application has read
	for i, dc := range dnsCloseCases(193) {
		idx := base + len(ws) + 100 + i
		if !r.Mine(idx) || r.OverBudget() {
			continue
		}
		dc := dc
		var k, d string
		r.Guard(idx, 120*time.Second, "hang|dns-close", dc.String(), dc, func() { k, d = executeDnsClose(t, dc) })
		r.Eval(1)
		r.Transition(4)
		r.State(mc.Hash("dns-close", dc.String(), k))
		r.Nontrivial(mc.Hash(dc.String()))
		if k != "" {
			r.Fail(k, fmt.Sprintf("%s: %s", dc, d), dc.Up+dc.Down, dc)
		}
	}
	realProgramCases(r, base+len(ws)+5000)
	r.Note("cases_total", len(all))
	r.Note("ws_tunnel_cases", len(ws))
}
