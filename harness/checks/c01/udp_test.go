package c01

import (
	"fmt"
	"time"

	"github.com/bokysan/socketace/v2/verifharness/bubble"
	"github.com/bokysan/socketace/v2/verifharness/mc"
	"github.com/bokysan/socketace/v2/verifharness/world"
)

// executeUDP runs one case over the real KCP stack in real time (kcp-go cannot run in a
// bubble). Only value oracles can fail; running out of time is inconclusive ("slow").
func executeUDP(c Case) (kind, detail string) {
	bubble.SetupLogging()
	upF, downF := fillFn(c.Fill, 0x11), fillFn(c.Fill, 0x80)
	o := world.UDPOptions{Options: world.Options{Carrier: "udp", Channels: []string{"x"}}}
	switch c.Sec {
	case "starttls":
		// the UDP upstream passes host:port as TLS server name (see C05); --insecure is the working configuration
		o.ServerCert, o.ClientKnowsCA, o.Insecure = "good", true, true
	case "secret":
		o.ServerSecret, o.ClientSecret = "s3cret", "s3cret"
	}
	u, err := world.NewUDP(o)
	if err != nil {
		return "endpoint-cannot-start", "the packet server/client for this documented configuration fails to start: " + err.Error()
	}
	defer u.Shutdown()
	u.Chans[0].Expect = func(int) func(int) byte { return upF }
	app := u.OpenApp("x", downF)
	deadline := time.Now().Add(60 * time.Second)
	for u.Chans[0].Target(0) == nil && time.Now().Before(deadline) {
		time.Sleep(5 * time.Millisecond)
	}
	tg := u.Chans[0].Target(0)
	if tg == nil {
		return "slow", fmt.Sprintf("no logical connection within 60 s real time; front=%q", u.Front.Err)
	}
	total := sum(c.Sizes)
	wantUp, wantDown := 0, 0
	if c.Dir == "up" || c.Dir == "both" {
		app.StartWrites(makeWrites(c.Sizes, upF))
		wantUp = total
	}
	if c.Dir == "down" || c.Dir == "both" {
		tg.StartWrites(makeWrites(c.Sizes, downF))
		wantDown = total
	}
	for time.Now().Before(deadline) {
		if tg.Obs().Got >= wantUp && app.Obs().Got >= wantDown {
			break
		}
		time.Sleep(5 * time.Millisecond)
	}
	time.Sleep(50 * time.Millisecond) // let anything extra arrive
	ao, to := app.Obs(), tg.Obs()
	switch {
	case to.BadAt >= 0:
		return "corrupt-up", fmt.Sprintf("target byte %d differs; %v", to.BadAt, to)
	case ao.BadAt >= 0:
		return "corrupt-down", fmt.Sprintf("app byte %d differs; %v", ao.BadAt, ao)
	case to.Got > wantUp:
		return "extra-up", fmt.Sprintf("target got %d, app wrote %d", to.Got, wantUp)
	case ao.Got > wantDown:
		return "extra-down", fmt.Sprintf("app got %d, target wrote %d", ao.Got, wantDown)
	case to.Err != "" || ao.Err != "" || to.EOF || ao.EOF:
		return "spurious-end", fmt.Sprintf("connection ended though nobody closed: app=%v target=%v", ao, to)
	case to.Got < wantUp || ao.Got < wantDown:
		return "slow", fmt.Sprintf("incomplete after 60 s real time: app=%v target=%v", ao, to)
	}
	return "", ""
}

func udpCases(r *mc.Run, base int) {
	idx := base
	sizes := []int{1, 4096, 4097, 32640, 32769, 65537}
	if r.Thorough() {
		sizes = append(sizes, 2, 4095, 32641, 32768, 65536, 1024*1024+1)
	}
	for _, sec := range []string{"plain", "starttls", "secret"} {
		for _, dir := range []string{"up", "down", "both"} {
			for _, s := range sizes {
				c := Case{Carrier: "udp", Sec: sec, Dir: dir, Sizes: []int{s}, Plan: "default", Fill: "pattern", UDP: true}
				if r.Mine(idx) && !r.OverBudget() {
					kind, detail := executeUDP(c)
					if kind == "slow" || kind == "setup" {
						r.Inconclusive(c.String() + ": " + detail)
						r.Eval(1)
					} else {
						record(r, c, kind, detail)
					}
				}
				idx++
			}
		}
	}
}
