// C01, websocket tunnel reader shapes (Engine S on the real WebsocketTunnelConnection).
//
// Two real websocket tunnels (gorilla client and server ends over in-memory connections)
// live in one process, as on a server with two clients. Each receives two messages; the
// harness then issues every sequence of up to 4 Read calls (tunnel 0 or 1, caller buffer of
// 1 / 4096 / 65536 bytes) and drains both. Oracle: what each tunnel delivered is exactly
// what ITS peer sent, whatever the other tunnel did in between (the remainder of a message
// that did not fit the caller's buffer must stay this tunnel's own).
package c01

import (
	"bytes"
	"fmt"
	"net"
	"net/http"
	"testing"

	"github.com/bokysan/socketace/v2/internal/streams"
	"github.com/bokysan/socketace/v2/verifharness/bubble"
	"github.com/bokysan/socketace/v2/verifharness/mc"
	"github.com/bokysan/socketace/v2/verifharness/netsim"
	"github.com/bokysan/socketace/v2/verifharness/world"
	"github.com/gorilla/websocket"
)

type WsCase struct {
	Family string `json:"family"` // "ws-tunnel"
	Sizes  [2]int `json:"sizes"`  // size of the first message sent to tunnel 0 / 1 (the second one is 3 bytes)
	Reads  []int  `json:"reads"`  // each read = tunnel*3 + buffer index
}

var wsBufs = []int{1, 4096, 65536}

func (c WsCase) String() string {
	s := ""
	for _, r := range c.Reads {
		s += fmt.Sprintf(" t%d/%d", r/3, wsBufs[r%3])
	}
	return fmt.Sprintf("ws-tunnel first messages %d/%d bytes, reads:%s", c.Sizes[0], c.Sizes[1], s)
}

func executeWs(t *testing.T, c WsCase) (kind, detail string) {
	res := bubble.Run(t, func() {
		lis := netsim.NewListener("server:80")
		up := websocket.Upgrader{}
		accepted := make(chan *websocket.Conn, 2)
		srv := &http.Server{Handler: http.HandlerFunc(func(w http.ResponseWriter, r *http.Request) {
			if conn, err := up.Upgrade(w, r, nil); err == nil {
				accepted <- conn
			}
		})}
		go srv.Serve(lis)
		var recv [2]*streams.WebsocketTunnelConnection // the server's ends (the readers under test)
		var send [2]*streams.WebsocketTunnelConnection
		for i := 0; i < 2; i++ {
			d := &websocket.Dialer{NetDial: func(string, string) (net.Conn, error) { return lis.Dial() }}
			cc, _, err := d.Dial("ws://server.test/ws", nil)
			if err != nil {
				kind, detail = "setup", err.Error()
				return
			}
			send[i] = streams.NewWebsocketTunnelConnection(cc)
			recv[i] = streams.NewWebsocketTunnelConnection(<-accepted)
		}
		var want [2][]byte
		for i := 0; i < 2; i++ {
			var msgs [][]byte
			for j, n := range []int{c.Sizes[i], 3} {
				msg := world.Payload(byte(0x31+0x40*i+j), 0, n)
				want[i] = append(want[i], msg...)
				msgs = append(msgs, msg)
			}
			sender := send[i]
			go func() { // one writer per connection, one websocket message per Write
				for _, m := range msgs {
					sender.Write(m)
				}
			}()
		}
		bubble.Wait()
		var got [2][]byte
		read := func(ti, bufN int) bool {
			if len(got[ti]) >= len(want[ti]) {
				return true // nothing more is coming: a Read would block for good
			}
			buf := make([]byte, bufN)
			n, err := recv[ti].Read(buf)
			if err != nil {
				kind, detail = "read-error", fmt.Sprintf("tunnel %d: %v", ti, err)
				return false
			}
			got[ti] = append(got[ti], buf[:n]...)
			return true
		}
		for _, r := range c.Reads {
			if !read(r/3, wsBufs[r%3]) {
				return
			}
		}
		for ti := 0; ti < 2; ti++ {
			for i := 0; i < 100000 && len(got[ti]) < len(want[ti]); i++ {
				if !read(ti, 65536) {
					return
				}
			}
		}
		for ti := 0; ti < 2; ti++ {
			if !bytes.Equal(got[ti], want[ti]) {
				i := 0
				for i < len(got[ti]) && i < len(want[ti]) && got[ti][i] == want[ti][i] {
					i++
				}
				kind, detail = "corrupt|ws-tunnel", fmt.Sprintf("tunnel %d delivered %d bytes, its peer sent %d; first difference at offset %d", ti, len(got[ti]), len(want[ti]), i)
				return
			}
		}
		srv.Close()
		for i := 0; i < 2; i++ {
			send[i].Close()
			recv[i].Close()
		}
	})
	if kind == "" && res.Panic != "" {
		kind, detail = "panic|ws-tunnel", res.Panic
	}
	return
}

func wsCases(thorough bool) []WsCase {
	sizes := []int{100, 5000, 20000}
	depth := 4
	if thorough {
		sizes = []int{1, 100, 4096, 4097, 5000, 20000, 70000}
		depth = 5
	}
	var out []WsCase
	var seqs [][]int
	var rec func(prefix []int)
	rec = func(prefix []int) {
		if len(prefix) > 0 {
			seqs = append(seqs, append([]int{}, prefix...))
		}
		if len(prefix) == depth {
			return
		}
		for r := 0; r < 6; r++ {
			rec(append(prefix, r))
		}
	}
	rec(nil)
	for _, a := range sizes {
		for _, b := range sizes {
			for _, s := range seqs {
				out = append(out, WsCase{Family: "ws-tunnel", Sizes: [2]int{a, b}, Reads: s})
			}
		}
	}
	return out
}

func recordWs(r *mc.Run, c WsCase, kind, detail string) {
	r.Eval(1)
	r.Transition(len(c.Reads) + 4)
	r.State(mc.Hash("ws-tunnel", c.Sizes, len(c.Reads), kind))
	r.Nontrivial(mc.Hash(c.String()))
	if kind != "" {
		r.Fail(kind, fmt.Sprintf("%s: %s", c, detail), len(c.Reads), c)
	}
}
