package c02

// Slow-target family: the target behind channel "a" does not complete its connect until the
// harness releases it (a black-holed address). Every sequence of up to 4 operations over
// {open a connection to the slow channel, open a connection to the other channel, write both
// ways on every connection to the other channel} is run on one physical session; after each
// operation every connection to the other channel must be fully served (isolation: one
// logical connection whose establishment is pending must not hold up its siblings). Then the
// slow target is released and everything, including the delayed connections, must be served.

import (
	"fmt"
	"strings"
	"testing"
	"time"

	"github.com/bokysan/socketace/v2/verifharness/bubble"
	"github.com/bokysan/socketace/v2/verifharness/mc"
	"github.com/bokysan/socketace/v2/verifharness/world"
)

type SlowCase struct {
	Family  string   `json:"family"` // "slow-dial"
	Carrier string   `json:"carrier"`
	Ops     []string `json:"ops"` // "slow" | "other" | "write"
}

func (c SlowCase) String() string {
	return fmt.Sprintf("slow-dial %s [%s]", c.Carrier, strings.Join(c.Ops, " "))
}

func slowCases(thorough bool) []SlowCase {
	carriers := []string{"stream", "ws", "stdio"}
	depth := 4
	if thorough {
		carriers = []string{"stream", "ws", "stdio", "dns"}
		depth = 5
	}
	var out []SlowCase
	for _, ca := range carriers {
		var rec func(p []string)
		rec = func(p []string) {
			if len(p) > 0 {
				hasSlow, hasOther := false, false
				for _, o := range p {
					hasSlow = hasSlow || o == "slow"
					hasOther = hasOther || o == "other"
				}
				if hasSlow && hasOther {
					out = append(out, SlowCase{"slow-dial", ca, append([]string{}, p...)})
				}
			}
			if len(p) == depth {
				return
			}
			for _, o := range []string{"slow", "other", "write"} {
				if o == "write" && (len(p) == 0 || p[len(p)-1] == "write") {
					continue
				}
				rec(append(p, o))
			}
		}
		rec(nil)
	}
	return out
}

func executeSlow(t *testing.T, c SlowCase) (kind, detail string) {
	res := bubble.Run(t, func() {
		w, err := world.New(world.Options{Carrier: c.Carrier, Channels: []string{"a", "b"}, Keep: true})
		if err != nil {
			kind, detail = "setup", err.Error()
			return
		}
		gate := make(chan struct{})
		w.Chan("a").BlockDial = gate
		type lc struct {
			app       *world.Endpoint
			tgt       *world.Endpoint
			up, down  int
			idx, conn int
		}
		var slow, other []*lc
		n := 0
		w.Chan("b").Expect = func(idx int) func(int) byte {
			return func(off int) byte { return world.Pattern(byte(0x10+2*idx), off) }
		}
		settle := func() {
			bubble.Wait()
			if c.Carrier == "dns" {
				for i := 0; i < 40; i++ {
					bubble.Advance(30 * time.Second)
				}
			}
		}
		checkOthers := func(phase string) bool {
			for _, l := range other {
				if l.tgt == nil {
					l.tgt = w.Chan("b").Target(l.idx)
				}
				if l.tgt == nil {
					kind, detail = "open-stalled|while-sibling-dial-pending", fmt.Sprintf("%s: connection #%d to the other channel was never connected to its target (front=%q)", phase, l.conn, w.Front.Err)
					return false
				}
				ao, to := l.app.Obs(), l.tgt.Obs()
				if ao.BadAt >= 0 || to.BadAt >= 0 {
					kind, detail = "cross-talk|slow-dial", fmt.Sprintf("%s: connection #%d: app=%v tgt=%v", phase, l.conn, ao, to)
					return false
				}
				if ao.EOF || ao.Err != "" || to.EOF || to.Err != "" {
					kind, detail = "collateral-close|while-sibling-dial-pending", fmt.Sprintf("%s: connection #%d ended: app=%v tgt=%v", phase, l.conn, ao, to)
					return false
				}
				if to.Got != l.up || ao.Got != l.down {
					kind, detail = "data-stalled|while-sibling-dial-pending", fmt.Sprintf("%s: connection #%d: target has %d of %d, app has %d of %d", phase, l.conn, to.Got, l.up, ao.Got, l.down)
					return false
				}
			}
			return true
		}
		for si, op := range c.Ops {
			switch op {
			case "slow":
				i := len(slow)
				l := &lc{idx: i, conn: n}
				l.app = w.OpenApp("a", func(off int) byte { return world.Pattern(byte(0x81+2*i), off) })
				slow = append(slow, l)
				n++
			case "other":
				i := len(other)
				l := &lc{idx: i, conn: n}
				l.app = w.OpenApp("b", func(off int) byte { return world.Pattern(byte(0x11+2*i), off) })
				other = append(other, l)
				n++
			case "write":
				for _, l := range other {
					if l.tgt == nil {
						l.tgt = w.Chan("b").Target(l.idx)
					}
					if l.tgt == nil {
						continue
					}
					l.app.StartWrite(world.Payload(byte(0x10+2*l.idx), l.up, 5000))
					l.up += 5000
					l.tgt.StartWrite(world.Payload(byte(0x11+2*l.idx), l.down, 5000))
					l.down += 5000
				}
			}
			settle()
			if !checkOthers(fmt.Sprintf("after step %d (%s), slow target still connecting", si, op)) {
				return
			}
		}
		close(gate)
		settle()
		bubble.Advance(2 * time.Second)
		settle()
		if !checkOthers("after the slow target connected") {
			return
		}
		// the delayed connections are served now, in some order (their dial order is the
		// server's business): each target gets exactly one app's bytes
		for _, l := range slow {
			l.app.StartWrite([]byte{byte(l.idx + 1)})
		}
		settle()
		seen := map[byte]bool{}
		for i := range slow {
			tg := w.Chan("a").Target(i)
			if tg == nil {
				kind, detail = "open-stalled|after-release", fmt.Sprintf("only %d of %d delayed connections reached a target after the slow target became reachable", i, len(slow))
				return
			}
			b := tg.Bytes()
			if len(b) != 1 || b[0] < 1 || int(b[0]) > len(slow) || seen[b[0]] {
				kind, detail = "cross-talk|slow-dial|after-release", fmt.Sprintf("delayed target %d received %v", i, b)
				return
			}
			seen[b[0]] = true
		}
	})
	if kind == "" && res.Panic != "" {
		kind, detail = "panic|slow-dial", res.Panic
	}
	if kind == "" && res.SpinCount > 0 {
		kind, detail = "spin|slow-dial", res.SpinMsg
	}
	return
}

func recordSlow(r *mc.Run, c SlowCase, kind, detail string) {
	r.Eval(1)
	r.Transition(len(c.Ops) + 2)
	r.State(mc.Hash("slow-dial", c.Carrier, c.Ops, kind))
	r.Nontrivial(mc.Hash(c.String()))
	if kind != "" && kind != "setup" {
		r.Fail(kind+"|"+c.Carrier, fmt.Sprintf("%s: %s", c, detail), len(c.Ops), c)
	}
}
