package c02

// Real-socket pass for the client's SocketListener (Start / accept loop / Shutdown dial and
// listen on real sockets, so they cannot run in the bubble): local applications connect over
// loopback TCP; the tunnel behind the listener is the in-memory world, in real time. Value
// oracles only: which target connection got which bytes, and who got which answer. Slowness
// is inconclusive.

import (
	"bytes"
	"fmt"
	"io"
	"net"
	"runtime"
	"strings"
	"time"

	"github.com/bokysan/socketace/v2/internal/client/listener"
	"github.com/bokysan/socketace/v2/internal/util/addr"
	"github.com/bokysan/socketace/v2/internal/util/cert"
	"github.com/bokysan/socketace/v2/verifharness/bubble"
	"github.com/bokysan/socketace/v2/verifharness/world"
)

type cfgGetter struct{ m cert.TlsConfig }

func (c cfgGetter) CertManager() cert.TlsConfig { return c.m }

func listenerWiringModes() []string {
	return []string{"two-at-once", "second-while-first-idle", "close-one-keep-other", "sequential-reuse", "bursts", "bursts-one-processor"}
}

func executeListenerWiring(mode string) (kind, detail string) {
	bubble.SetupLogging()
	defer func() {
		if p := recover(); p != nil {
			kind, detail = "panic|listener-wiring", fmt.Sprint(p)
		}
	}()
	w, err := world.New(world.Options{Carrier: "stream", Channels: []string{"x"}, Keep: true})
	if err != nil {
		return "setup", err.Error()
	}
	ln, err := net.Listen("tcp", "127.0.0.1:0")
	if err != nil {
		return "inconclusive", err.Error()
	}
	port := ln.Addr().(*net.TCPAddr).Port
	ln.Close()
	l := &listener.SocketListener{}
	l.Address = addr.MustParseAddress(fmt.Sprintf("tcp://127.0.0.1:%d", port))
	l.Name = "x"
	if err := l.Start(w.Ups, cfgGetter{&w.CliCfg}); err != nil {
		return "inconclusive", "listener start: " + err.Error()
	}
	defer l.Shutdown()
	dial := func() (net.Conn, error) {
		return net.DialTimeout("tcp", fmt.Sprintf("127.0.0.1:%d", port), 5*time.Second)
	}
	// wait until target number n has received want
	waitTarget := func(want []byte) (*world.Endpoint, bool) {
		deadline := time.Now().Add(20 * time.Second)
		for time.Now().Before(deadline) {
			for i := 0; i < w.Chans[0].NumTargets(); i++ {
				if t := w.Chans[0].Target(i); bytes.HasSuffix(t.Bytes(), want) {
					return t, true
				}
			}
			time.Sleep(5 * time.Millisecond)
		}
		return nil, false
	}
	echo := func(c net.Conn, tag byte, n int) (string, string) {
		payload := world.Payload(tag, 0, n)
		if _, err := c.Write(payload); err != nil {
			return "local-write-failed", err.Error()
		}
		t, ok := waitTarget(payload)
		if !ok {
			return "data-stalled|up|listener-wiring", fmt.Sprintf("%d bytes written to the local listener did not reach a target connection of their own within 20 s (targets: %d)", n, w.Chans[0].NumTargets())
		}
		reply := world.Payload(tag+1, 0, n)
		t.StartWrite(reply)
		got := make([]byte, n)
		c.SetReadDeadline(time.Now().Add(20 * time.Second))
		if _, err := io.ReadFull(c, got); err != nil {
			return "data-stalled|down|listener-wiring", fmt.Sprintf("the reply of %d bytes did not come back to the local connection: %v", n, err)
		}
		if !bytes.Equal(got, reply) {
			return "cross-talk|listener-wiring", "the local connection received bytes that are not its target's reply"
		}
		return "", ""
	}
	if strings.HasPrefix(mode, "bursts") {
		// local applications connecting in the same instant, 10 rounds of 3: the accept loop takes
		// the next connection while the handler of the previous one may not have started yet
		// (with one processor it certainly has not)
		if mode == "bursts-one-processor" {
			defer runtime.GOMAXPROCS(runtime.GOMAXPROCS(1))
		}
		warm, err := dial()
		if err != nil {
			return "inconclusive", "dial: " + err.Error()
		}
		defer warm.Close()
		if k, d := echo(warm, 0x21, 10); k != "" {
			return k, mode + " (warm-up): " + d
		}
		for round := 0; round < 10; round++ {
			type res struct{ k, d string }
			ch := make(chan res, 3)
			start := make(chan struct{})
			for j := 0; j < 3; j++ {
				tag := byte(0x30 + 6*round + 2*j)
				go func() {
					<-start
					c, err := dial()
					if err != nil {
						ch <- res{"inconclusive", "dial: " + err.Error()}
						return
					}
					defer c.Close()
					k, d := echo(c, tag, 1472)
					ch <- res{k, d}
				}()
			}
			close(start)
			for j := 0; j < 3; j++ {
				if r := <-ch; r.k != "" {
					return r.k, fmt.Sprintf("%s round %d: %s", mode, round, r.d)
				}
			}
		}
		return "", ""
	}
	a, err := dial()
	if err != nil {
		return "inconclusive", "dial: " + err.Error()
	}
	defer a.Close()
	switch mode {
	case "two-at-once":
		b, err := dial()
		if err != nil {
			return "inconclusive", "dial: " + err.Error()
		}
		defer b.Close()
		type res struct{ k, d string }
		ch := make(chan res, 2)
		go func() { k, d := echo(a, 0x21, 70000); ch <- res{k, d} }()
		go func() { k, d := echo(b, 0x41, 70000); ch <- res{k, d} }()
		for i := 0; i < 2; i++ {
			if r := <-ch; r.k != "" {
				return r.k, mode + ": " + r.d
			}
		}
	case "second-while-first-idle":
		if k, d := echo(a, 0x21, 10); k != "" {
			return k, mode + " (first): " + d
		}
		b, err := dial()
		if err != nil {
			return "inconclusive", "dial: " + err.Error()
		}
		defer b.Close()
		if k, d := echo(b, 0x41, 70000); k != "" {
			return k, mode + " (second, while the first is open and idle): " + d
		}
		if k, d := echo(a, 0x23, 10); k != "" {
			return k, mode + " (first again): " + d
		}
	case "close-one-keep-other":
		b, err := dial()
		if err != nil {
			return "inconclusive", "dial: " + err.Error()
		}
		defer b.Close()
		if k, d := echo(a, 0x21, 1000); k != "" {
			return k, mode + ": " + d
		}
		if k, d := echo(b, 0x41, 1000); k != "" {
			return k, mode + ": " + d
		}
		a.Close()
		time.Sleep(100 * time.Millisecond)
		if k, d := echo(b, 0x43, 1000); k != "" {
			return "collateral-close|listener-wiring", mode + " (the other connection after the first was closed): " + d
		}
	case "sequential-reuse":
		for i := 0; i < 3; i++ {
			c, err := dial()
			if err != nil {
				return "inconclusive", "dial: " + err.Error()
			}
			if k, d := echo(c, byte(0x51+2*i), 100); k != "" {
				c.Close()
				return k, fmt.Sprintf("%s (connection %d): %s", mode, i, d)
			}
			c.Close()
		}
		if d := w.Front.Dials; d != 1 {
			return "not-shared|listener-wiring", fmt.Sprintf("%d physical sessions for sequential local connections", d)
		}
	}
	return "", ""
}
