// C02 — multiplexed logical connections are isolated and independent.
//
// Engine B, explicit state: k logical connections over ONE physical session. The abstract
// state graph (per connection: opened, bytes written per direction, paused readers,
// closed sides) is enumerated up to a depth with exact state matching; every transition
// (state, operation) of that graph is executed on the real client+server in a bubble by
// replaying the state's shortest path and then the operation, with the oracle evaluated
// at every quiescent point. Deviation alphabet (bound 1): the return of the n-th write
// on the client's carrier is delayed until the closure phase ("writer preempted after the
// syscall").
package c02

import (
	"fmt"
	"sort"
	"strings"
	"testing"
	"time"

	"github.com/bokysan/socketace/v2/verifharness/bubble"
	"github.com/bokysan/socketace/v2/verifharness/mc"
	"github.com/bokysan/socketace/v2/verifharness/netsim"
	"github.com/bokysan/socketace/v2/verifharness/world"
)

const (
	sideApp = 0
	sideTgt = 1
)

type Op struct {
	Kind string `json:"k"` // open | write | pause | resume | close
	Conn int    `json:"c"`
	Side int    `json:"s,omitempty"`
	N    int    `json:"n,omitempty"`
}

func (o Op) String() string {
	s := []string{"app", "tgt"}[o.Side]
	switch o.Kind {
	case "open":
		return fmt.Sprintf("open(%d)", o.Conn)
	case "write":
		return fmt.Sprintf("write(%d,%s,%d)", o.Conn, s, o.N)
	}
	return fmt.Sprintf("%s(%d,%s)", o.Kind, o.Conn, s)
}

type Case struct {
	Carrier string `json:"carrier"`
	K       int    `json:"k"`
	SameCh  bool   `json:"same_channel"`
	Ops     []Op   `json:"ops"`
	Hold    int    `json:"hold"` // 0 none; n: the n-th write on the client's carrier returns only at closure
	// HoldSrv n: the n-th write on the SERVER's end of the carrier returns only after the next
	// operation has been issued (the server's writer is preempted after the syscall while the
	// next logical connection arrives); Together: the first two opens are issued without waiting
	// for quiescence in between.
	HoldSrv  int   `json:"hold_srv,omitempty"`
	Together bool  `json:"together,omitempty"`
	Chans    []int `json:"chans,omitempty"` // channel index per connection (default: i%2, or 0 with same_channel)
	// HoldDial2 n > 0: should the client ever dial a SECOND physical connection, that connection's first write
	// (the client's hello) returns only after step n; nothing is checked while it is pending. A client that
	// keeps to one physical session never engages the hold.
	HoldDial2 int `json:"hold_dial2,omitempty"`
}

func (c Case) String() string {
	var s []string
	for _, o := range c.Ops {
		s = append(s, o.String())
	}
	if c.HoldDial2 > 0 {
		return fmt.Sprintf("%s k=%d samech=%v together=%v chans=%v holdDial2=%d [%s]", c.Carrier, c.K, c.SameCh, c.Together, c.Chans, c.HoldDial2, strings.Join(s, " "))
	}
	return fmt.Sprintf("%s k=%d samech=%v hold=%d holdSrv=%d together=%v chans=%v [%s]", c.Carrier, c.K, c.SameCh, c.Hold, c.HoldSrv, c.Together, c.Chans, strings.Join(s, " "))
}

// ---- abstract model -------------------------------------------------------------------

type connState struct {
	Opened bool
	Wrote  [2]int // bytes written BY side s
	Paused [2]bool
	Closed [2]bool
}

type absState struct {
	C []connState
}

func (a absState) key() string { return fmt.Sprintf("%v", a.C) }

func (a absState) clone() absState {
	return absState{C: append([]connState{}, a.C...)}
}

const maxPerDir = 140001

func enabled(a absState, sizes []int) []Op {
	var ops []Op
	nOpen := 0
	for _, c := range a.C {
		if c.Opened {
			nOpen++
		}
	}
	if nOpen < len(a.C) {
		ops = append(ops, Op{Kind: "open", Conn: nOpen})
	}
	for i, c := range a.C {
		if !c.Opened {
			continue
		}
		finished := c.Closed[0] || c.Closed[1]
		for s := 0; s < 2; s++ {
			if !finished {
				for _, n := range sizes {
					if c.Wrote[s]+n <= maxPerDir {
						ops = append(ops, Op{Kind: "write", Conn: i, Side: s, N: n})
					}
				}
				if c.Paused[s] {
					ops = append(ops, Op{Kind: "resume", Conn: i, Side: s})
				} else {
					ops = append(ops, Op{Kind: "pause", Conn: i, Side: s})
				}
			}
			if !finished {
				ops = append(ops, Op{Kind: "close", Conn: i, Side: s})
			}
		}
	}
	return ops
}

func step(a absState, o Op) absState {
	b := a.clone()
	c := &b.C[o.Conn]
	switch o.Kind {
	case "refuse":
	case "open":
		c.Opened = true
	case "write":
		c.Wrote[o.Side] += o.N
	case "pause":
		c.Paused[o.Side] = true
	case "resume":
		c.Paused[o.Side] = false
	case "close":
		c.Closed[o.Side] = true
	}
	return b
}

type transition struct {
	path []Op // shortest path to the source state
	op   Op
}

// graph enumerates all transitions of the abstract state graph up to depth (path length
// of the source state < depth).
func graph(k int, sizes []int, depth int) (trs []transition, nstates int) {
	init := absState{C: make([]connState, k)}
	seen := map[string]bool{init.key(): true}
	type item struct {
		st   absState
		path []Op
	}
	frontier := []item{{init, nil}}
	for len(frontier) > 0 {
		cur := frontier[0]
		frontier = frontier[1:]
		if len(cur.path) >= depth {
			continue
		}
		for _, o := range enabled(cur.st, sizes) {
			trs = append(trs, transition{cur.path, o})
			nx := step(cur.st, o)
			if !seen[nx.key()] {
				seen[nx.key()] = true
				frontier = append(frontier, item{nx, append(append([]Op{}, cur.path...), o)})
			}
		}
	}
	return trs, len(seen)
}

// ---- execution ---------------------------------------------------------------------------

func tag(conn, side int) byte { return byte(0x10*(conn+1) + 7*side + 1) }

type connRT struct {
	app, tgt *world.Endpoint
	ch       *world.FakeChannel
	chIdx    int
}

func execute(t *testing.T, c Case) (kind, detail string, stepsDone int, res bubble.Result) {
	res = bubble.Run(t, func() {
		var release func()
		o := world.Options{Carrier: c.Carrier, Channels: []string{"x", "y"}}
		var releaseSrv func()
		var releaseDial2 func()
		dials := 0
		if c.Hold > 0 || c.HoldSrv > 0 || c.HoldDial2 > 0 {
			o.OnDial = func(cl, sv *netsim.MemConn) {
				dials++
				if c.HoldDial2 > 0 && dials == 2 {
					releaseDial2 = cl.HoldWriteReturn(1)
				}
				if c.Hold > 0 && release == nil {
					release = cl.HoldWriteReturn(c.Hold)
				}
				if c.HoldSrv > 0 && releaseSrv == nil {
					releaseSrv = sv.HoldWriteReturn(c.HoldSrv)
				}
			}
		}
		w, err := world.New(o)
		if err != nil {
			kind, detail = "setup", err.Error()
			return
		}
		chanOf := func(i int) *world.FakeChannel {
			if i < len(c.Chans) {
				return w.Chans[c.Chans[i]]
			}
			if c.SameCh || i%2 == 0 {
				return w.Chans[0]
			}
			return w.Chans[1]
		}
		// expected content at each target: by order of OpenConnection on that channel
		order := map[*world.FakeChannel][]int{}
		for _, fc := range w.Chans {
			fc := fc
			fc.Expect = func(idx int) func(int) byte {
				return func(off int) byte {
					conns := order[fc]
					if idx < len(conns) {
						return world.Pattern(tag(conns[idx], sideApp), off)
					}
					return 0
				}
			}
		}
		st := absState{C: make([]connState, c.K)}
		rt := make([]*connRT, c.K)
		holdActive := func() bool { return c.Hold > 0 || releaseSrv != nil }

		check := func(phase string, final bool) bool {
			for i, cs := range st.C {
				if !cs.Opened {
					continue
				}
				r := rt[i]
				if r.tgt == nil {
					r.tgt = r.ch.Target(r.chIdx)
				}
				if holdActive() && !final {
					continue // nothing can be required of the client->server direction while its writer is held
				}
				othersOpen := false
				for j, cj := range st.C {
					if j != i && cj.Opened && !(cj.Closed[0] || cj.Closed[1]) {
						othersOpen = true
					}
				}
				ctx := "alone"
				if othersOpen {
					ctx = "while-others-open"
				}
				if r.tgt == nil {
					kind, detail = "open-stalled|"+ctx, fmt.Sprintf("%s: connection %d was opened but its target was never dialled (front=%q accept=%v logs=%q)", phase, i, w.Front.Err, w.AcceptErrs, bubble.RecentLogs())
					return false
				}
				ao, to := r.app.Obs(), r.tgt.Obs()
				if ao.BadAt >= 0 || to.BadAt >= 0 {
					kind, detail = "cross-talk", fmt.Sprintf("%s: connection %d received bytes that are not its own: app=%v tgt=%v", phase, i, ao, to)
					return false
				}
				if to.Got > cs.Wrote[sideApp] || ao.Got > cs.Wrote[sideTgt] {
					kind, detail = "extra-bytes", fmt.Sprintf("%s: connection %d received more than was written: app=%v tgt=%v", phase, i, ao, to)
					return false
				}
				finished := cs.Closed[0] || cs.Closed[1]
				if !finished {
					if ao.EOF || ao.Err != "" || to.EOF || to.Err != "" {
						kind, detail = "collateral-close|"+ctx, fmt.Sprintf("%s: connection %d ended although neither of its sides closed: app=%v tgt=%v logs=%q", phase, i, ao, to, bubble.RecentLogs())
						return false
					}
					// progress toward every reader that is reading
					if !cs.Paused[sideTgt] && to.Got != cs.Wrote[sideApp] {
						kind, detail = "data-stalled|up|"+ctx, fmt.Sprintf("%s: connection %d: target consumed %d of %d bytes written by the app although it is reading: app=%v tgt=%v", phase, i, to.Got, cs.Wrote[sideApp], ao, to)
						return false
					}
					if !cs.Paused[sideApp] && ao.Got != cs.Wrote[sideTgt] {
						kind, detail = "data-stalled|down|"+ctx, fmt.Sprintf("%s: connection %d: app consumed %d of %d bytes written by the target although it is reading: app=%v tgt=%v", phase, i, ao.Got, cs.Wrote[sideTgt], ao, to)
						return false
					}
				}
			}
			return true
		}

		for si, op := range c.Ops {
			switch op.Kind {
			case "open":
				fc := chanOf(op.Conn)
				order[fc] = append(order[fc], op.Conn)
				r := &connRT{ch: fc, chIdx: len(order[fc]) - 1}
				conn := op.Conn
				r.app = w.OpenApp(fc.ChName, func(off int) byte { return world.Pattern(tag(conn, sideTgt), off) })
				rt[op.Conn] = r
			case "refuse":
				// a connection ATTEMPT for a channel the server does not offer, on the same session:
				// it is refused; the established connections must not notice
				ra := w.OpenApp("no-such-channel", nil)
				bubble.Wait()
				bubble.Advance(time.Second)
				ra.Close()
			case "write":
				r := rt[op.Conn]
				if op.Side == sideTgt && r.tgt == nil {
					r.tgt = r.ch.Target(r.chIdx)
				}
				ep := r.app
				if op.Side == sideTgt {
					ep = r.tgt
				}
				if ep == nil && holdActive() {
					goto closure // the target cannot exist yet while the client's writer is held: not enabled
				}
				if ep == nil {
					kind, detail = "open-stalled|at-write", fmt.Sprintf("step %d %v: target endpoint does not exist", si, op)
					return
				}
				ep.StartWrite(world.Payload(tag(op.Conn, op.Side), st.C[op.Conn].Wrote[op.Side], op.N))
			case "pause", "resume", "close":
				r := rt[op.Conn]
				if op.Side == sideTgt && r.tgt == nil {
					r.tgt = r.ch.Target(r.chIdx)
				}
				ep := r.app
				if op.Side == sideTgt {
					ep = r.tgt
				}
				if ep == nil && holdActive() {
					goto closure
				}
				if ep == nil {
					kind, detail = "open-stalled|at-"+op.Kind, fmt.Sprintf("step %d %v: target endpoint does not exist", si, op)
					return
				}
				switch op.Kind {
				case "pause":
					ep.Pause()
				case "resume":
					ep.Resume()
				case "close":
					ep.Close()
				}
			}
			st = step(st, op)
			if c.Together && si == 0 && len(c.Ops) > 1 && c.Ops[1].Kind == "open" {
				continue // the second open is issued in the same step
			}
			bubble.Wait()
			if c.Carrier == "dns" {
				settleDns(rt)
			}
			if releaseSrv != nil && si >= 1 {
				releaseSrv() // the server's held write returns now that the next connection has arrived
				releaseSrv = nil
				bubble.Wait()
			}
			stepsDone++
			if releaseDial2 != nil {
				if si < c.HoldDial2 {
					continue // the second physical connection is pending
				}
				releaseDial2()
				releaseDial2 = nil
				bubble.Wait()
			}
			if !check(fmt.Sprintf("after step %d %v", si, op), false) {
				return
			}
		}
	closure:
		if releaseDial2 != nil {
			releaseDial2()
			releaseDial2 = nil
			bubble.Wait()
		}
		if releaseSrv != nil {
			releaseSrv()
		}
		// closure: release the held write, resume every reader, no further faults
		if release != nil {
			release()
		}
		c.Hold = 0
		for i := range st.C {
			if st.C[i].Opened {
				for s := 0; s < 2; s++ {
					if st.C[i].Paused[s] && !st.C[i].Closed[s] {
						st.C[i].Paused[s] = false
						if s == sideApp {
							rt[i].app.Resume()
						} else if rt[i].tgt != nil {
							rt[i].tgt.Resume()
						}
					}
				}
			}
		}
		bubble.Wait()
		bubble.Advance(2 * time.Second)
		if c.Carrier == "dns" {
			settleDns(rt)
		}
		check("closure", true)
	})
	if res.Panic != "" {
		kind, detail = "panic", res.Panic
	}
	if kind == "" && res.SpinCount > 0 {
		kind, detail = "spin", res.SpinMsg
	}
	return
}

// settleDns gives the DNS carrier the fake time its exchanges need: advance while bytes still
// arrive anywhere (the carrier is poll-driven, quiescence alone does not move it).
func settleDns(rt []*connRT) {
	sum := func() (n int) {
		for _, r := range rt {
			if r == nil {
				continue
			}
			if r.tgt == nil {
				r.tgt = r.ch.Target(r.chIdx)
			}
			n += r.app.Obs().Got
			if r.tgt != nil {
				n += r.tgt.Obs().Got + 1
			}
		}
		return
	}
	bubble.Advance(30 * time.Second)
	for i := 0; i < 400; i++ {
		before := sum()
		bubble.Advance(30 * time.Second)
		if sum() == before {
			return
		}
	}
}

func record(r *mc.Run, c Case, kind, detail string, steps int) {
	r.Eval(1)
	r.Transition(steps)
	if kind != "" {
		h := "nohold"
		if c.Hold > 0 {
			h = "hold"
		}
		fp := fmt.Sprintf("%s|%s|%s", kind, c.Carrier, h)
		r.Fail(fp, fmt.Sprintf("%s: %s", c, detail), len(c.Ops)*10+c.Hold+c.K, c)
	}
}

type plan struct {
	carrier string
	k       int
	sameCh  bool
	sizes   []int
	depth   int
	holds   int // hold indices 1..holds on paths of length <= holdDepth
	holdDep int
}

func plans(thorough bool) []plan {
	if thorough {
		return []plan{
			{"stream", 2, false, []int{1, 5000, 70000}, 7, 10, 4},
			{"stream", 2, true, []int{1, 70000}, 7, 0, 0}, // no holds: with a held writer the dial order on ONE channel is undefined
			{"stream", 3, false, []int{1, 70000}, 6, 10, 3},
			{"ws", 2, false, []int{1, 70000}, 6, 10, 3},
			{"stdio", 2, false, []int{1, 70000}, 6, 0, 0},
			{"dns", 2, false, []int{1, 5000}, 5, 0, 0},
		}
	}
	return []plan{
		{"stream", 2, false, []int{1, 70000}, 7, 8, 3},
		{"stream", 2, true, []int{70000}, 6, 0, 0},
		{"stream", 3, false, []int{70000}, 5, 0, 0},
		{"ws", 2, false, []int{70000}, 5, 8, 2},
		{"stdio", 2, false, []int{70000}, 4, 0, 0},
	}
}

func TestCheck(t *testing.T) {
	r := mc.New(t, "C02")
	defer r.Finish()
	r.CrashFails = true
	if r.Replay != nil {
		var probe struct {
			Family string `json:"family"`
		}
		r.DecodeReplay(&probe)
		if probe.Family == "slow-dial" {
			var sc SlowCase
			r.DecodeReplay(&sc)
			k, d := executeSlow(t, sc)
			recordSlow(r, sc, k, d)
			return
		}
		var c Case
		r.DecodeReplay(&c)
		if c.Carrier == "listener-wiring" {
			k, d := executeListenerWiring(c.Ops[0].Kind)
			if k != "inconclusive" && k != "setup" {
				if k != "" {
					k += "|" + c.Ops[0].Kind
				}
				record(r, c, k, d, 1)
			}
			return
		}
		kind, detail, steps, _ := execute(t, c)
		r.State(1)
		record(r, c, kind, detail, steps)
		return
	}
	idx := 0
	var notes []string
	for _, p := range plans(r.Thorough()) {
		trs, nstates := graph(p.k, p.sizes, p.depth)
		notes = append(notes, fmt.Sprintf("%s k=%d samech=%v sizes=%v depth=%d: abstract states=%d transitions=%d", p.carrier, p.k, p.sameCh, p.sizes, p.depth, nstates, len(trs)))
		for _, tr := range trs {
			ops := append(append([]Op{}, tr.path...), tr.op)
			maxHold := 0
			if len(ops) <= p.holdDep {
				maxHold = p.holds
			}
			for hold := 0; hold <= maxHold; hold++ {
				if r.Mine(idx) {
					if r.OverBudget() {
						r.Cap(fmt.Sprintf("time budget reached at execution %d", idx))
						goto done
					}
					c := Case{Carrier: p.carrier, K: p.k, SameCh: p.sameCh, Ops: ops, Hold: hold}
					var kind, detail string
					var steps int
					r.Guard(idx, 20*time.Second, "hang|"+p.carrier, c.String(), c, func() {
						kind, detail, steps, _ = execute(t, c)
					})
					record(r, c, kind, detail, steps)
					// canonical state of the implementation run = abstract state reached + outcome
					st := absState{C: make([]connState, p.k)}
					for _, o := range ops {
						st = step(st, o)
					}
					r.State(mc.Hash(p.carrier, p.k, p.sameCh, st.key(), kind != ""))
					opened := 0
					for _, cs := range st.C {
						if cs.Opened {
							opened++
						}
					}
					if opened >= 2 {
						r.Nontrivial(mc.Hash(c.String()))
					}
					if idx%997 == 0 {
						r.Sample(map[string]any{"case": c.String(), "outcome": kind})
					}
					r.Progress(idx + 1)
				}
				idx++
			}
		}
	}
	// scripted family: one connection stalled with MiBs of unread data (below the multiplexer's
	// 4 MiB shared receive buffer, the property's own bound) while the other one is used
	for _, carrier := range []string{"stream", "ws"} {
		for _, side := range []int{sideApp, sideTgt} {
			for _, big := range []int{1536 * 1024, 3 * 1024 * 1024, 3584 * 1024} {
				tails := [][]Op{
					{{Kind: "write", Conn: 1, Side: sideApp, N: 70000}},
					{{Kind: "write", Conn: 1, Side: sideTgt, N: 70000}},
					{{Kind: "write", Conn: 1, Side: sideApp, N: 70000}, {Kind: "write", Conn: 1, Side: sideTgt, N: 70000}},
					{{Kind: "write", Conn: 1, Side: sideTgt, N: 1}, {Kind: "close", Conn: 1, Side: sideApp}},
					{{Kind: "close", Conn: 1, Side: sideTgt}},
				}
				if !r.Thorough() && big != 3*1024*1024 {
					tails = tails[:3]
				}
				for _, tail := range tails {
					for _, openFirst := range []bool{true, false} {
						var ops []Op
						if openFirst {
							ops = []Op{{Kind: "open", Conn: 0}, {Kind: "open", Conn: 1}, {Kind: "pause", Conn: 0, Side: side}, {Kind: "write", Conn: 0, Side: 1 - side, N: big}}
						} else {
							// the second connection is opened only after the first one is already stalled
							ops = []Op{{Kind: "open", Conn: 0}, {Kind: "pause", Conn: 0, Side: side}, {Kind: "write", Conn: 0, Side: 1 - side, N: big}, {Kind: "open", Conn: 1}}
						}
						ops = append(ops, tail...)
						if r.Mine(idx) && !r.OverBudget() {
							c := Case{Carrier: carrier, K: 2, Ops: ops}
							var kind, detail string
							var steps int
							r.Guard(idx, 60*time.Second, "hang|"+carrier, c.String(), c, func() {
								kind, detail, steps, _ = execute(t, c)
							})
							record(r, c, kind, detail, steps)
							r.State(mc.Hash("bigstall", carrier, side, big, len(tail), openFirst, kind != ""))
							r.Nontrivial(mc.Hash(c.String()))
							if idx%7 == 0 {
								r.Sample(map[string]any{"case": c.String(), "outcome": kind})
							}
						}
						idx++
					}
				}
			}
		}
	}
	// scripted family: two logical connections opened (nearly) at once, to different or equal
	// channels, optionally while the n-th write of the SERVER's carrier end is held
	for _, carrier := range []string{"stream", "ws"} {
		for _, chans := range [][]int{{0, 1}, {1, 0}} { // same-channel opens at once have no defined target order: not in this family
			for _, together := range []bool{false, true} {
				for hs := 0; hs <= 8; hs++ {
					if !together && hs == 0 {
						continue // plain sequential opens are covered by the graph above
					}
					tails := [][]Op{
						{{Kind: "write", Conn: 0, Side: sideApp, N: 1}, {Kind: "write", Conn: 1, Side: sideApp, N: 1}},
						{{Kind: "write", Conn: 1, Side: sideTgt, N: 70000}, {Kind: "write", Conn: 0, Side: sideTgt, N: 1}},
					}
					for _, tail := range tails {
						ops := append([]Op{{Kind: "open", Conn: 0}, {Kind: "open", Conn: 1}}, tail...)
						if r.Mine(idx) && !r.OverBudget() {
							c := Case{Carrier: carrier, K: 2, Ops: ops, HoldSrv: hs, Together: together, Chans: chans}
							var kind, detail string
							var steps int
							r.Guard(idx, 60*time.Second, "hang|"+carrier, c.String(), c, func() {
								kind, detail, steps, _ = execute(t, c)
							})
							record(r, c, kind, detail, steps)
							r.State(mc.Hash("together", carrier, chans, together, hs, len(tail), kind != ""))
							r.Nontrivial(mc.Hash(c.String()))
						}
						idx++
					}
				}
			}
		}
	}
	// scripted family: two opens at once on a client without a session; should that make the client dial twice,
	// the second dial completes only after the first connection has carried data (HoldDial2)
	for _, carrier := range []string{"stream", "ws"} {
		for _, chans := range [][]int{{0, 1}, {1, 0}} {
			for hd := 2; hd <= 3; hd++ {
				ops := []Op{{Kind: "open", Conn: 0}, {Kind: "open", Conn: 1},
					{Kind: "write", Conn: 0, Side: sideApp, N: 1}, {Kind: "write", Conn: 0, Side: sideTgt, N: 1},
					{Kind: "write", Conn: 0, Side: sideApp, N: 70000}, {Kind: "write", Conn: 1, Side: sideApp, N: 1},
					{Kind: "write", Conn: 0, Side: sideTgt, N: 70000}, {Kind: "write", Conn: 1, Side: sideTgt, N: 1},
					{Kind: "close", Conn: 0, Side: sideApp}, {Kind: "write", Conn: 1, Side: sideApp, N: 5}}
				if r.Mine(idx) && !r.OverBudget() {
					c := Case{Carrier: carrier, K: 2, Ops: ops, Together: true, Chans: chans, HoldDial2: hd}
					var kind, detail string
					var steps int
					r.Guard(idx, 60*time.Second, "hang|"+carrier, c.String(), c, func() {
						kind, detail, steps, _ = execute(t, c)
					})
					record(r, c, kind, detail, steps)
					r.State(mc.Hash("dial2", carrier, chans, hd, kind != ""))
					r.Nontrivial(mc.Hash(c.String()))
				}
				idx++
			}
		}
	}
	// scripted family: a refused connection attempt between the operations of established ones
	for _, carrier := range []string{"stream", "ws", "stdio"} {
		for _, pos := range []int{1, 2, 3, 4} {
			for _, tail := range [][]Op{
				{{Kind: "write", Conn: 0, Side: sideApp, N: 70000}, {Kind: "write", Conn: 1, Side: sideTgt, N: 70000}, {Kind: "write", Conn: 0, Side: sideTgt, N: 1}},
				{{Kind: "write", Conn: 1, Side: sideApp, N: 1}, {Kind: "close", Conn: 0, Side: sideApp}, {Kind: "write", Conn: 1, Side: sideTgt, N: 70000}},
			} {
				seq := append([]Op{{Kind: "open", Conn: 0}, {Kind: "open", Conn: 1}}, tail...)
				ops := append(append(append([]Op{}, seq[:pos]...), Op{Kind: "refuse"}), seq[pos:]...)
				if r.Mine(idx) && !r.OverBudget() {
					c := Case{Carrier: carrier, K: 2, Ops: ops}
					var kind, detail string
					var steps int
					r.Guard(idx, 60*time.Second, "hang|"+carrier, c.String(), c, func() {
						kind, detail, steps, _ = execute(t, c)
					})
					record(r, c, kind, detail, steps)
					r.State(mc.Hash("refuse", carrier, pos, len(tail), kind != ""))
					r.Nontrivial(mc.Hash(c.String()))
				}
				idx++
			}
		}
	}
	for _, sc := range slowCases(r.Thorough()) {
		if r.Mine(idx) {
			k, d := executeSlow(t, sc)
			recordSlow(r, sc, k, d)
		}
		idx++
	}
	// real-socket pass: the client's SocketListener
	for _, mode := range listenerWiringModes() {
		if r.Mine(idx) {
			c := Case{Carrier: "listener-wiring", K: 2, Ops: []Op{{Kind: mode}}}
			k, d := executeListenerWiring(mode)
			if k == "inconclusive" || k == "setup" {
				r.Inconclusive(c.String() + ": " + d)
				r.Eval(1)
			} else {
				if k != "" {
					k += "|" + mode // one fingerprint (and one determinism recheck) per history
				}
				record(r, c, k, d, 1)
				r.State(mc.Hash("listener-wiring", mode, k))
				r.Nontrivial(mc.Hash(c.String()))
			}
		}
		idx++
	}
done:
	sort.Strings(notes)
	r.Note("graphs", notes)
	r.Note("executions_total", idx)
}
