package c05

// Forced-certificate family: a peer that presents a client certificate of ITS choosing (a TLS
// client may ignore the server's list of acceptable authorities - curl and openssl do) to an
// endpoint that requires client certificates: none, one signed by the endpoint's CA, one signed
// by a foreign CA, the server's own certificate. Endpoints: TLS socket, HTTPS websocket,
// StartTLS over a plain socket. Oracle: the peer is served (its announce is answered 200, or
// for StartTLS the upgraded session stays open) iff the certificate is signed by the CA.

import (
	"crypto/tls"
	"fmt"
	"net"
	"strings"
	"testing"
	"time"

	"github.com/bokysan/socketace/v2/verifharness/bubble"
	"github.com/bokysan/socketace/v2/verifharness/mc"
	"github.com/bokysan/socketace/v2/verifharness/pki"
	"github.com/bokysan/socketace/v2/verifharness/world"
	"github.com/gorilla/websocket"
)

type ForcedCase struct {
	Family   string `json:"family"` // "forced-client-cert"
	Endpoint string `json:"endpoint"`
	Cert     string `json:"cert"` // none | good | foreign | server-own
	Require  bool   `json:"require"`
}

func (c ForcedCase) String() string {
	return fmt.Sprintf("forced-client-cert endpoint=%s requireClientCert=%v peer presents: %s", c.Endpoint, c.Require, c.Cert)
}

func forcedCases() []ForcedCase {
	var out []ForcedCase
	for _, ep := range []string{"stream+tls", "ws+tls", "stream+starttls"} {
		for _, crt := range []string{"none", "good", "foreign", "server-own"} {
			for _, req := range []bool{true, false} {
				out = append(out, ForcedCase{"forced-client-cert", ep, crt, req})
			}
		}
	}
	return out
}

func forcedTLS(p *pki.PKI, which string) *tls.Config {
	cfg := &tls.Config{InsecureSkipVerify: true}
	var pair *pki.Pair
	switch which {
	case "good":
		pair = &p.Client
	case "foreign":
		pair = &p.ForeignCl
	case "server-own":
		pair = &p.Untrusted // a certificate of the foreign CA that is not even a client certificate
	}
	if pair != nil {
		crt, err := tls.X509KeyPair([]byte(pair.CertPEM), []byte(pair.KeyPEM))
		if err == nil {
			cfg.GetClientCertificate = func(*tls.CertificateRequestInfo) (*tls.Certificate, error) { return &crt, nil }
		}
	}
	return cfg
}

func executeForced(t *testing.T, c ForcedCase) (kind, detail string) {
	res := bubble.Run(t, func() {
		p := pki.Bubble()
		o := world.Options{Channels: []string{"x"}, ServerCert: "good", RequireClientCert: c.Require, Keep: true}
		switch c.Endpoint {
		case "stream+tls":
			o.Carrier, o.TLS, o.RealLoop = "stream", true, "socket"
		case "ws+tls":
			o.Carrier, o.TLS = "ws", true
		case "stream+starttls":
			o.Carrier, o.RealLoop = "stream", "socket"
		}
		w, err := world.New(o)
		if err != nil {
			kind, detail = "setup", err.Error()
			return
		}
		cfg := forcedTLS(p, c.Cert)
		announce := "X-SOCKETACE / HTTP/1.1\r\nAccepts-Protocol-Version: v2.0.0\r\n\r\n"
		served, why := false, ""
		// readSome: what arrives within quiescence (+ a little fake time)
		readSome := func(rd func([]byte) (int, error)) (string, error, bool) {
			type r struct {
				s   string
				err error
			}
			ch := make(chan r, 1)
			go func() {
				b := make([]byte, 4096)
				n, err := rd(b)
				ch <- r{string(b[:n]), err}
			}()
			bubble.Wait()
			bubble.Advance(2 * time.Second)
			bubble.Wait()
			select {
			case x := <-ch:
				return x.s, x.err, true
			default:
				return "", nil, false
			}
		}
		switch c.Endpoint {
		case "stream+tls":
			raw, err := w.Listener.Dial()
			if err != nil {
				kind, detail = "setup", err.Error()
				return
			}
			tc := tls.Client(raw, cfg)
			hs := make(chan error, 1)
			go func() { hs <- tc.Handshake() }()
			bubble.Wait()
			select {
			case err := <-hs:
				if err != nil {
					why = "TLS handshake: " + err.Error()
					break
				}
				go tc.Write([]byte(announce))
				s, rerr, done := readSome(tc.Read)
				served = done && strings.Contains(s, "HTTP/1.1 200")
				why = fmt.Sprintf("answer %q err %v", s, rerr)
			default:
				why = "TLS handshake did not finish"
			}
		case "ws+tls":
			d := &websocket.Dialer{NetDial: func(string, string) (net.Conn, error) { return w.Listener.Dial() }, TLSClientConfig: cfg, HandshakeTimeout: 30 * time.Second}
			type dr struct {
				c   *websocket.Conn
				err error
			}
			ch := make(chan dr, 1)
			go func() { cc, _, err := d.Dial("wss://server.test/ws", nil); ch <- dr{cc, err} }()
			bubble.Wait()
			bubble.Advance(time.Second)
			bubble.Wait()
			select {
			case x := <-ch:
				if x.err != nil {
					why = "websocket dial: " + x.err.Error()
					break
				}
				go x.c.WriteMessage(websocket.BinaryMessage, []byte(announce))
				s, rerr, done := readSome(func(b []byte) (int, error) {
					_, m, err := x.c.ReadMessage()
					return copy(b, m), err
				})
				served = done && strings.Contains(s, "HTTP/1.1 200")
				why = fmt.Sprintf("answer %q err %v", s, rerr)
			default:
				why = "websocket dial did not finish"
			}
		case "stream+starttls":
			raw, err := w.Listener.Dial()
			if err != nil {
				kind, detail = "setup", err.Error()
				return
			}
			go raw.Write([]byte(announce))
			s, _, _ := readSome(raw.Read)
			if !strings.Contains(s, "HTTP/1.1 200") {
				kind, detail = "setup", fmt.Sprintf("announce answered %q", s)
				return
			}
			go raw.Write([]byte("GET / HTTP/1.1\r\nConnection: upgrade\r\nUpgrade: socketace/v2.0.0\r\nSecurity: StartTLS\r\n\r\n"))
			s, _, _ = readSome(raw.Read)
			if !strings.Contains(s, " 101 ") {
				kind, detail = "setup", fmt.Sprintf("upgrade answered %q", s)
				return
			}
			tc := tls.Client(raw, cfg)
			hs := make(chan error, 1)
			go func() { hs <- tc.Handshake() }()
			bubble.Wait()
			select {
			case err := <-hs:
				if err != nil {
					why = "TLS handshake: " + err.Error()
					break
				}
				// an admitted peer's session stays open (the multiplexer waits for its frames); a
				// refused one is told so (alert) or hung up on
				s, rerr, done := readSome(tc.Read)
				served = !done
				why = fmt.Sprintf("after the upgrade: read returned=%v %q err %v", done, s, rerr)
			default:
				why = "TLS handshake did not finish"
			}
		}
		want := !c.Require || c.Cert == "good"
		switch {
		case served && !want:
			kind, detail = "admits-unauthenticated-peer|forced-client-cert|"+c.Endpoint+"|"+c.Cert, fmt.Sprintf("the endpoint requires client certificates of its CA; a peer presenting %q was served (%s)", c.Cert, why)
		case !served && want && (c.Cert == "good" || c.Cert == "none"):
			kind, detail = "rejects-legitimate-peer|forced-client-cert|"+c.Endpoint+"|"+c.Cert, fmt.Sprintf("the peer must be served but was not: %s", why)
		}
	})
	if kind == "" && res.Panic != "" {
		kind, detail = "panic", res.Panic
	}
	return
}

func forcedCertCases(t *testing.T, r *mc.Run, base int) {
	for i, c := range realForcedCases() {
		idx := base + 1000 + i
		if !r.Mine(idx) {
			continue
		}
		k, d := executeRealForced(c)
		r.Eval(1)
		r.Transition(3)
		if k == "inconclusive" || k == "setup" {
			r.Inconclusive(c.String() + ": " + d)
			continue
		}
		r.State(mc.Hash("forced-real", c.String(), k))
		r.Nontrivial(mc.Hash(c.String()))
		if k != "" {
			r.Fail(k, fmt.Sprintf("%s: %s", c, d), 3, c)
		}
	}
	for i, c := range forcedCases() {
		idx := base + i
		if !r.Mine(idx) {
			continue
		}
		c := c
		var k, d string
		r.Guard(idx, 60*time.Second, "hang|forced-client-cert", c.String(), c, func() { k, d = executeForced(t, c) })
		r.Eval(1)
		r.Transition(3)
		if k == "setup" {
			r.Inconclusive(c.String() + ": " + d)
			continue
		}
		r.State(mc.Hash("forced", c.String(), k))
		r.Nontrivial(mc.Hash(c.String()))
		if k != "" {
			r.Fail(k, fmt.Sprintf("%s: %s", c, d), 3, c)
		}
	}
}
