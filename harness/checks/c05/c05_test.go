// C05 — peer authentication is enforced as configured.
//
// Engine S (full product, real TLS handshakes in memory inside a bubble): server
// certificate {trusted+matching, trusted wrong host, untrusted CA, expired} x client
// insecure flag x client certificate {none, signed by the server's CA, foreign CA} x
// require-client-certificate x carrier {TLS socket, HTTPS websocket, StartTLS over
// stream / websocket / DNS} x upstream host form {name, name:port, ip:port}; sequences of
// two upstreams tried with ONE client configuration; UDP StartTLS and shared secrets with
// the real KCP stack in real time.
package c05

import (
	"fmt"
	"strings"
	"testing"
	"time"

	"github.com/bokysan/socketace/v2/internal/client/upstream"
	"github.com/bokysan/socketace/v2/verifharness/bubble"
	"github.com/bokysan/socketace/v2/verifharness/mc"
	"github.com/bokysan/socketace/v2/verifharness/world"
)

type Member struct {
	Carrier string `json:"carrier"` // stream | ws | dns | stdio
	TLS     bool   `json:"tls"`     // carrier-level TLS; false + server cert => StartTLS
	Cert    string `json:"cert"`    // good | wronghost | untrusted | expired
	Host    string `json:"host"`
	Require bool   `json:"require_client_cert"`
	Dead    bool   `json:"dead,omitempty"` // the peer never answers (stdio+tls upstream without a server)
	// TrustsForeign: this endpoint verifies client certificates against the OTHER CA
	TrustsForeign bool `json:"trusts_foreign,omitempty"`
}

type Case struct {
	Members    []Member `json:"members"` // upstreams tried in order with one client configuration
	Insecure   bool     `json:"insecure"`
	ClientCert string   `json:"client_cert"` // "" | good | foreign
	KnowsCA    bool     `json:"knows_ca"`
	UDP        string   `json:"udp,omitempty"`
	// Separate: every member is an upstream list of its own (one client process, one client
	// configuration, several tunnels one after the other): a session with an earlier member must
	// not make a later one admit the client
	Separate bool `json:"separate,omitempty"`
	// Files: certificate material reaches both configurations through files ("abs" absolute
	// paths, "rel" relative to the configuration file) instead of inline PEM text
	Files string `json:"files,omitempty"`
	// Bundle: certificate material is a bundle (leaf + its issuer, which is not the configured CA)
	Bundle bool `json:"bundle,omitempty"`
}

func (m Member) String() string {
	sec := "starttls"
	if m.TLS {
		sec = "tls"
	}
	tf := ""
	if m.TrustsForeign {
		tf = " trustsForeignCA"
	}
	return fmt.Sprintf("%s+%s cert=%s host=%s requireClientCert=%v%s", m.Carrier, sec, m.Cert, m.Host, m.Require, tf)
}

func (c Case) String() string {
	s := ""
	for i, m := range c.Members {
		if i > 0 {
			s += " THEN "
		}
		s += m.String()
	}
	u := ""
	if c.UDP != "" {
		u = " udp=" + c.UDP
	}
	if c.Separate {
		u += " separate-tunnels"
	}
	if c.Files != "" {
		u += " cert-files=" + c.Files
	}
	if c.Bundle {
		u += " certificate-bundles"
	}
	return fmt.Sprintf("[%s] insecure=%v clientCert=%q knowsCA=%v%s", s, c.Insecure, c.ClientCert, c.KnowsCA, u)
}

// admits is the reference model for one upstream.
func admits(m Member, c Case) bool {
	if m.Dead {
		return false
	}
	h := m.Host
	if i := strings.LastIndex(h, ":"); i > 0 {
		h = h[:i]
	}
	matches := false
	switch m.Cert {
	case "good":
		matches = h == "server.test" || h == "10.0.0.1" || h == "127.0.0.1"
	case "wronghost":
		matches = h == "other.test"
	}
	serverOK := c.Insecure || (c.KnowsCA && matches) // untrusted / expired certificates never match
	if m.Carrier == "stdio" && m.TLS {
		serverOK = true // stdin+tls: server verification is documented as skipped
	}
	clientOK := !m.Require || (c.ClientCert == "good" && !m.TrustsForeign) || (c.ClientCert == "foreign" && m.TrustsForeign)
	return serverOK && clientOK
}

func execute(t *testing.T, c Case) (kind, detail string) {
	res := bubble.Run(t, func() {
		var worlds []*world.World
		var list []upstream.Upstream
		for _, m := range c.Members {
			o := world.Options{Carrier: m.Carrier, TLS: m.TLS, Channels: []string{"x"}, ServerCert: m.Cert, RequireClientCert: m.Require, ServerTrustsForeignCA: m.TrustsForeign,
				Host: m.Host, Keep: true, Insecure: c.Insecure, ClientKnowsCA: c.KnowsCA, ClientCert: c.ClientCert, CertFiles: c.Files, Bundle: c.Bundle}
			w, err := world.New(o)
			if err != nil {
				kind, detail = "setup", err.Error()
				return
			}
			defer w.RemoveCertFiles()
			worlds = append(worlds, w)
			list = append(list, w.Front)
		}
		host := worlds[0] // its client configuration object is the one shared by all attempts
		if c.Separate {
			// one tunnel after the other, each its own upstream list, one client configuration
			for i := range c.Members {
				ups := &upstream.Upstreams{Data: []upstream.Upstream{list[i]}}
				app := host.OpenAppVia(ups, "x", nil)
				app.StartWrite([]byte("payload-through-authenticated-session"))
				bubble.Wait()
				bubble.Advance(90 * time.Second)
			}
			for i, w := range worlds {
				m := c.Members[i]
				n := w.Chans[0].NumTargets()
				cls := fmt.Sprintf("%s|cert=%s", secName(m), m.Cert)
				switch {
				case admits(m, c) && n != 1:
					kind, detail = "rejects-legitimate-peer|"+cls+"|"+hostClass(m.Host)+"|separate", fmt.Sprintf("tunnel #%d (%s) must be accepted but no session was established: front error %q", i, m, w.Front.Err)
					return
				case !admits(m, c) && n > 0:
					why := "server"
					if m.Require {
						why = "client-cert"
					}
					kind, detail = "admits-unauthenticated-peer|"+cls+"|"+why+"|after-a-session-elsewhere", fmt.Sprintf("tunnel #%d (%s) must NOT be accepted (insecure=%v knowsCA=%v clientCert=%q) but a session was established after the client had a session with tunnel #%d", i, m, c.Insecure, c.KnowsCA, c.ClientCert, i-1)
					return
				}
			}
			return
		}
		ups := &upstream.Upstreams{Data: list}
		app := host.OpenAppVia(ups, "x", nil)
		app.StartWrite([]byte("payload-through-authenticated-session"))
		bubble.Wait()
		bubble.Advance(90 * time.Second)
		want := -1
		for i, m := range c.Members {
			if admits(m, c) {
				want = i
				break
			}
		}
		for i, w := range worlds {
			n := w.Chans[0].NumTargets()
			m := c.Members[i]
			cls := fmt.Sprintf("%s|cert=%s", secName(m), m.Cert)
			if i == want && n != 1 {
				kind, detail = "rejects-legitimate-peer|"+cls+"|"+hostClass(m.Host), fmt.Sprintf("upstream #%d (%s) must be accepted but no session was established: front error %q; logs=%q", i, m, w.Front.Err, bubble.RecentLogs())
				return
			}
			if (i != want || want < 0) && n > 0 {
				why := "server"
				if m.Require && c.ClientCert != "good" {
					why = "client-cert"
				}
				kind, detail = "admits-unauthenticated-peer|"+cls+"|"+why, fmt.Sprintf("upstream #%d (%s) must NOT be accepted (insecure=%v knowsCA=%v clientCert=%q) but a session was established and data reached its target", i, m, c.Insecure, c.KnowsCA, c.ClientCert)
				return
			}
			if i == want {
				if got := string(w.Chans[0].Target(0).Bytes()); got != "payload-through-authenticated-session" {
					kind, detail = "no-data-path|"+cls, fmt.Sprintf("session established but the target received %q", got)
					return
				}
			}
		}
	})
	if res.Panic != "" {
		kind, detail = "panic", res.Panic
	}
	return
}

func secName(m Member) string {
	if m.TLS {
		return m.Carrier + "+tls"
	}
	return m.Carrier + "+starttls"
}

func hostClass(h string) string {
	switch h {
	case "server.test":
		return "host=name"
	case "server.test:9995":
		return "host=name:port"
	case "10.0.0.1:443":
		return "host=ip:port"
	case ":9995":
		return "host=none:port"
	}
	return "host=other"
}

func cases(thorough bool) []Case {
	var out []Case
	type cv struct {
		carrier string
		tls     bool
	}
	carriers := []cv{{"stream", true}, {"ws", true}, {"stream", false}, {"ws", false}, {"dns", false}}
	for _, cr := range carriers {
		for _, cert := range []string{"good", "wronghost", "untrusted", "expired"} {
			for _, insecure := range []bool{false, true} {
				for _, cc := range []string{"", "good", "foreign"} {
					for _, req := range []bool{false, true} {
						for _, host := range []string{"server.test", "server.test:9995", "10.0.0.1:443", "other.test", ":9995"} {
							if cr.carrier == "dns" && host != "server.test" && host != "other.test" {
								continue // a DNS upstream URL carries a domain, no port
							}
							for _, knows := range []bool{true, false} {
								if !knows && !thorough && (cc != "" || req) {
									continue
								}
								out = append(out, Case{Members: []Member{{Carrier: cr.carrier, TLS: cr.tls, Cert: cert, Host: host, Require: req}}, Insecure: insecure, ClientCert: cc, KnowsCA: knows})
							}
						}
					}
				}
			}
		}
	}
	// stdio+tls (server verification documented as skipped) and stdio StartTLS
	for _, cert := range []string{"good", "untrusted"} {
		for _, insecure := range []bool{false, true} {
			for _, req := range []bool{false, true} {
				for _, cc := range []string{"", "good", "foreign"} {
					out = append(out, Case{Members: []Member{{Carrier: "stdio", TLS: true, Cert: cert, Host: "server.test", Require: req}}, Insecure: insecure, ClientCert: cc, KnowsCA: true})
				}
			}
		}
	}
	// certificate bundles: a leaf followed by an issuer that is not the configured CA
	for _, cr := range []cv{{"stream", true}, {"stream", false}, {"ws", true}, {"dns", false}} {
		for _, cert := range []string{"good", "untrusted"} {
			for _, insecure := range []bool{false, true} {
				for _, cc := range []string{"", "good", "foreign"} {
					for _, req := range []bool{false, true} {
						if cert == "good" && cc != "foreign" {
							continue // nothing is bundled
						}
						out = append(out, Case{Members: []Member{{Carrier: cr.carrier, TLS: cr.tls, Cert: cert, Host: "server.test", Require: req}}, Insecure: insecure, ClientCert: cc, KnowsCA: true, Bundle: true})
					}
				}
			}
		}
	}
	// the same material through files (absolute, and relative to the configuration file)
	for _, files := range []string{"abs", "rel"} {
		for _, cr := range []cv{{"stream", true}, {"stream", false}, {"ws", true}} {
			for _, cert := range []string{"good", "untrusted", "wronghost"} {
				for _, insecure := range []bool{false, true} {
					for _, cc := range []string{"", "good", "foreign"} {
						for _, req := range []bool{false, true} {
							out = append(out, Case{Members: []Member{{Carrier: cr.carrier, TLS: cr.tls, Cert: cert, Host: "server.test", Require: req}}, Insecure: insecure, ClientCert: cc, KnowsCA: true, Files: files})
						}
					}
				}
			}
		}
	}
	// two upstreams tried with one client configuration: what the first attempt did must not
	// change what is required of the second
	firsts := []Member{
		{Carrier: "stdio", TLS: true, Cert: "good", Host: "server.test", Require: true}, // refused (no client cert) after the client prepared a skip-verify config
		{Carrier: "stream", TLS: false, Cert: "untrusted", Host: "server.test"},         // StartTLS attempt, refused
		{Carrier: "stream", TLS: false, Cert: "wronghost", Host: "other.test:1"},        // StartTLS attempt towards another name, refused
		{Carrier: "ws", TLS: false, Cert: "good", Host: "other.test"},                   // StartTLS attempt, wrong host
		{Carrier: "dns", TLS: false, Cert: "wronghost", Host: "other.test"},             // StartTLS over DNS; the cert IS valid for other.test: accepted only if it is first
	}
	seconds := []Member{
		{Carrier: "stream", TLS: true, Cert: "good", Host: "server.test"},
		{Carrier: "stream", TLS: true, Cert: "untrusted", Host: "server.test"},
		{Carrier: "stream", TLS: true, Cert: "wronghost", Host: "server.test"},
		{Carrier: "ws", TLS: true, Cert: "wronghost", Host: "server.test:9995"},
		{Carrier: "ws", TLS: true, Cert: "good", Host: "server.test:9995"},
		{Carrier: "stream", TLS: false, Cert: "good", Host: "server.test"},
		{Carrier: "stream", TLS: true, Cert: "expired", Host: "10.0.0.1:443"},
	}
	for _, a := range firsts {
		for _, b := range seconds {
			for _, cc := range []string{"", "good"} {
				out = append(out, Case{Members: []Member{a, b}, ClientCert: cc, KnowsCA: true})
			}
		}
	}
	// one tunnel after the other with one client configuration: a session with a well-configured
	// endpoint first, then an endpoint that must refuse this client (another CA for client
	// certificates, an untrusted / expired / foreign-host server certificate)
	goodFirst := []Member{
		{Carrier: "stream", TLS: false, Cert: "good", Host: "server.test", Require: true},
		{Carrier: "stream", TLS: true, Cert: "good", Host: "server.test", Require: true},
		{Carrier: "ws", TLS: false, Cert: "good", Host: "server.test", Require: true},
	}
	refusing := []Member{
		{Carrier: "stream", TLS: false, Cert: "good", Host: "server.test", Require: true, TrustsForeign: true},
		{Carrier: "stream", TLS: true, Cert: "good", Host: "server.test", Require: true, TrustsForeign: true},
		{Carrier: "ws", TLS: false, Cert: "good", Host: "server.test", Require: true, TrustsForeign: true},
		{Carrier: "dns", TLS: false, Cert: "good", Host: "server.test", Require: true, TrustsForeign: true},
		{Carrier: "stream", TLS: false, Cert: "untrusted", Host: "server.test"},
		{Carrier: "stream", TLS: false, Cert: "expired", Host: "server.test"},
		{Carrier: "stream", TLS: true, Cert: "wronghost", Host: "server.test"},
	}
	for _, a := range goodFirst {
		for _, b := range refusing {
			out = append(out, Case{Members: []Member{a, b}, ClientCert: "good", KnowsCA: true, Separate: true})
		}
	}
	// (and the mirror: a client holding the foreign CA's certificate is admitted by the endpoint that trusts it)
	out = append(out, Case{Members: []Member{{Carrier: "stream", TLS: false, Cert: "good", Host: "server.test", Require: true, TrustsForeign: true}}, ClientCert: "foreign", KnowsCA: true})
	return out
}

func TestCheck(t *testing.T) {
	r := mc.New(t, "C05")
	defer r.Finish()
	r.CrashFails = true
	record := func(c Case, kind, detail string) {
		r.Eval(1)
		r.Transition(len(c.Members) + 1)
		r.State(mc.Hash(c.String(), kind))
		if len(c.Members) > 1 || c.Members[0].Cert != "good" || c.Members[0].Require || c.ClientCert != "" {
			r.Nontrivial(mc.Hash(c.String()))
		}
		if kind != "" {
			if len(c.Members) > 1 {
				kind += "|after-earlier-attempt"
			}
			r.Fail(kind+map[bool]string{true: "|cert-files", false: ""}[c.Files != ""]+map[bool]string{true: "|bundle", false: ""}[c.Bundle], fmt.Sprintf("%s: %s", c, detail), len(c.Members)*10+len(c.ClientCert), c)
		}
	}
	if r.Replay != nil {
		var fam struct {
			Family string `json:"family"`
		}
		r.DecodeReplay(&fam)
		if fam.Family == "forced-client-cert" {
			var fc ForcedCase
			r.DecodeReplay(&fc)
			var k, d string
			if strings.HasPrefix(fc.Endpoint, "real-") {
				k, d = executeRealForced(fc)
				if k == "inconclusive" {
					r.Inconclusive(fc.String() + ": " + d)
					return
				}
			} else {
				k, d = executeForced(t, fc)
			}
			r.Eval(1)
			if k != "" && k != "setup" {
				r.Fail(k, fmt.Sprintf("%s: %s", fc, d), 3, fc)
			}
			return
		}
		var c Case
		r.DecodeReplay(&c)
		if strings.HasPrefix(c.UDP, "real-upstream:") {
			k, d := executeRealUpstream(c)
			if k == "inconclusive" || k == "setup" {
				r.Inconclusive(c.String() + ": " + d)
				return
			}
			record(c, k, d)
			return
		}
		if c.UDP != "" {
			k, d := executeUDP(c)
			record(c, k, d)
			return
		}
		k, d := execute(t, c)
		record(c, k, d)
		return
	}
	all := cases(r.Thorough())
	idx := 0
	for _, c := range all {
		if r.Mine(idx) {
			if r.OverBudget() {
				r.Cap(fmt.Sprintf("time budget reached at case %d of %d", idx, len(all)))
				break
			}
			var k, d string
			r.Guard(idx, 120*time.Second, "hang", c.String(), c, func() { k, d = execute(t, c) })
			record(c, k, d)
			if idx%211 == 0 {
				r.Sample(map[string]any{"case": c.String(), "outcome": k})
			}
			r.Progress(idx + 1)
		}
		idx++
	}
	for _, c := range udpCasesTier(r.Thorough()) {
		if r.Mine(idx) {
			k, d := executeUDP(c)
			if k == "inconclusive" {
				r.Inconclusive(c.String() + " " + c.UDP + ": " + d)
				r.Eval(1)
			} else {
				record(c, k, d)
			}
		}
		idx++
	}
	forcedCertCases(t, r, idx+100000)
	for _, c := range realUpstreamCases(r.Thorough()) {
		if r.Mine(idx) {
			k, d := executeRealUpstream(c)
			for try := 0; try < 3 && k == "inconclusive" && strings.Contains(d, "in use"); try++ {
				k, d = executeRealUpstream(c)
			}
			if k == "inconclusive" || k == "setup" {
				r.Inconclusive(c.String() + ": " + d)
				r.Eval(1)
			} else {
				record(c, k, d)
			}
		}
		idx++
	}
	r.Note("cases_total", len(all))
}
