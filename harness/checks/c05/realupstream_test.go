package c05

// Real-upstream pass: the certificate matrix through the REAL upstream objects
// (upstream.Socket and upstream.Http dial real sockets; the bubble worlds re-state the lines
// that follow the dial, including how the expected server name reaches crypto/tls). Real server
// objects on loopback, the upstream URL names the host 127.0.0.1 (the "good" and "expired"
// certificates carry it as an IP SAN). Oracle = the reference model `admits`: application data
// reaches the target iff the model admits the pair.

import (
	"crypto/tls"
	"github.com/gorilla/websocket"
	"fmt"
	"net"
	"strings"
	"time"

	"github.com/bokysan/socketace/v2/internal/client/upstream"
	"github.com/bokysan/socketace/v2/internal/server"
	"github.com/bokysan/socketace/v2/internal/util/addr"
	"github.com/bokysan/socketace/v2/internal/util/cert"
	"github.com/bokysan/socketace/v2/verifharness/bubble"
	"github.com/bokysan/socketace/v2/verifharness/pki"
	"github.com/bokysan/socketace/v2/verifharness/world"
)

type cfgGetterR struct{ m cert.TlsConfig }

func (c cfgGetterR) CertManager() cert.TlsConfig { return c.m }

var realSchemes = []struct {
	client, server string
	tls            bool
	carrier        string
}{
	{"tcp+tls", "tcp+tls", true, "stream"}, {"tcp", "tcp", false, "stream"},
	{"https", "https", true, "ws"}, {"wss", "https", true, "ws"}, {"http", "http", false, "ws"}, {"ws", "http", false, "ws"},
}

func realUpstreamCases(thorough bool) []Case {
	var out []Case
	certs := []string{"good", "untrusted", "wronghost"}
	if thorough {
		certs = append(certs, "expired")
	}
	for _, sc := range realSchemes {
		for _, crt := range certs {
			for _, insecure := range []bool{false, true} {
				for _, cc := range []string{"", "good", "foreign"} {
					for _, req := range []bool{false, true} {
						out = append(out, Case{Members: []Member{{Carrier: sc.carrier, TLS: sc.tls, Cert: crt, Host: "127.0.0.1:0", Require: req}}, Insecure: insecure, ClientCert: cc, KnowsCA: true, UDP: "real-upstream:" + sc.client})
					}
				}
			}
		}
	}
	return out
}

func freeTCPPort() int {
	l, err := net.Listen("tcp", "127.0.0.1:0")
	if err != nil {
		return 0
	}
	defer l.Close()
	return l.Addr().(*net.TCPAddr).Port
}

func executeRealUpstream(c Case) (kind, detail string) {
	bubble.SetupLogging()
	defer func() {
		if p := recover(); p != nil {
			kind, detail = "panic", fmt.Sprint(p)
		}
	}()
	scheme := strings.TrimPrefix(c.UDP, "real-upstream:")
	var sc *struct {
		client, server string
		tls            bool
		carrier        string
	}
	for i := range realSchemes {
		if realSchemes[i].client == scheme {
			sc = &realSchemes[i]
		}
	}
	if sc == nil {
		return "setup", "unknown scheme " + scheme
	}
	m := c.Members[0]
	p := pki.Real()
	pair := map[string]pki.Pair{"good": p.Server, "untrusted": p.Untrusted, "wronghost": p.WrongHost, "expired": p.Expired}[m.Cert]
	var scfg cert.ServerConfig
	scfg.Certificate, scfg.PrivateKey, scfg.CaCertificate = pair.CertPEM, pair.KeyPEM, p.CA
	scfg.RequireClientCert = m.Require
	fake := &world.FakeChannel{ChName: "x", Keep: true, BufLimit: 1 << 16}
	port := freeTCPPort()
	var srv server.Server
	if strings.HasPrefix(sc.server, "tcp") {
		s := server.NewSocketServer()
		s.Address = addr.MustParseAddress(fmt.Sprintf("%s://127.0.0.1:%d", sc.server, port))
		s.ServerConfig = scfg
		srv = s
	} else {
		s := server.NewHttpServer()
		s.Address = addr.MustParseAddress(fmt.Sprintf("%s://127.0.0.1:%d", sc.server, port))
		s.ServerConfig = scfg
		s.Endpoints = []server.HttpEndpoint{{Endpoint: "/ws"}}
		srv = s
	}
	started := make(chan error, 1)
	go func() { started <- srv.Startup(server.Channels{fake}) }()
	select {
	case err := <-started:
		if err != nil {
			return "inconclusive", "server startup: " + err.Error()
		}
	case <-time.After(300 * time.Millisecond):
	}
	defer srv.Shutdown()
	up := false
	for i := 0; i < 100; i++ {
		if cc, err := net.Dial("tcp", fmt.Sprintf("127.0.0.1:%d", port)); err == nil {
			cc.Close()
			up = true
			break
		}
		time.Sleep(20 * time.Millisecond)
	}
	if !up {
		return "inconclusive", "server not reachable"
	}
	url := fmt.Sprintf("%s://127.0.0.1:%d", sc.client, port)
	if sc.carrier == "ws" {
		url += "/ws"
	}
	list := &upstream.Upstreams{}
	if err := list.UnmarshalFlag(url); err != nil {
		return "inconclusive", "upstream flag rejected: " + err.Error()
	}
	ups := world.ClientUpstreams(list.Data, false, c.Insecure)
	defer ups.Shutdown()
	ccfg := &cert.ClientConfig{}
	ccfg.CaCertificate = p.CA
	ccfg.InsecureSkipVerify = c.Insecure
	switch c.ClientCert {
	case "good":
		ccfg.Certificate, ccfg.PrivateKey = p.Client.CertPEM, p.Client.KeyPEM
	case "foreign":
		ccfg.Certificate, ccfg.PrivateKey = p.ForeignCl.CertPEM, p.ForeignCl.KeyPEM
	}
	done := make(chan error, 1)
	go func() {
		st, err := ups.Connect(cfgGetterR{ccfg}, "x")
		if err == nil {
			_, err = st.Write([]byte("payload-through-authenticated-session"))
		}
		done <- err
	}()
	var cerr error
	select {
	case cerr = <-done:
	case <-time.After(60 * time.Second):
		return "inconclusive", "Connect did not return within 60 s"
	}
	want := admits(m, c)
	got := ""
	deadline := time.Now().Add(map[bool]time.Duration{true: 10 * time.Second, false: 300 * time.Millisecond}[want && cerr == nil])
	for time.Now().Before(deadline) {
		if tg := fake.Target(0); tg != nil && tg.Obs().Got >= 37 {
			break
		}
		time.Sleep(5 * time.Millisecond)
	}
	if tg := fake.Target(0); tg != nil {
		got = string(tg.Bytes())
	}
	cls := fmt.Sprintf("real-upstream|%s|cert=%s", scheme, m.Cert)
	switch {
	case !want && got != "":
		why := "server"
		if m.Require && c.ClientCert != "good" {
			why = "client-cert"
		}
		return "admits-unauthenticated-peer|" + cls + "|" + why, fmt.Sprintf("upstream %s must NOT be accepted (insecure=%v clientCert=%q requireClientCert=%v) but a session was established and data reached its target", url, c.Insecure, c.ClientCert, m.Require)
	case want && got != "payload-through-authenticated-session":
		if cerr != nil {
			return "rejects-legitimate-peer|" + cls, fmt.Sprintf("upstream %s must be accepted but: %v", url, cerr)
		}
		return "inconclusive", fmt.Sprintf("upstream %s: Connect succeeded but the target has %q after 10 s", url, got)
	}
	return "", ""
}


// executeRealForced: the forced-certificate peer (see forcedcert_test.go) against REAL server
// objects started through their own Startup on loopback (the TLS listeners of HttpServer and
// SocketServer are set up there).
func executeRealForced(c ForcedCase) (kind, detail string) {
	bubble.SetupLogging()
	defer func() {
		if p := recover(); p != nil {
			kind, detail = "panic", fmt.Sprint(p)
		}
	}()
	p := pki.Real()
	var scfg cert.ServerConfig
	scfg.Certificate, scfg.PrivateKey, scfg.CaCertificate = p.Server.CertPEM, p.Server.KeyPEM, p.CA
	scfg.RequireClientCert = c.Require
	fake := &world.FakeChannel{ChName: "x", Keep: true, BufLimit: 1 << 16}
	port := freeTCPPort()
	var srv server.Server
	if c.Endpoint == "real-tcp+tls" {
		s := server.NewSocketServer()
		s.Address = addr.MustParseAddress(fmt.Sprintf("tcp+tls://127.0.0.1:%d", port))
		s.ServerConfig = scfg
		srv = s
	} else {
		s := server.NewHttpServer()
		s.Address = addr.MustParseAddress(fmt.Sprintf("https://127.0.0.1:%d", port))
		s.ServerConfig = scfg
		s.Endpoints = []server.HttpEndpoint{{Endpoint: "/ws"}}
		srv = s
	}
	started := make(chan error, 1)
	go func() { started <- srv.Startup(server.Channels{fake}) }()
	select {
	case err := <-started:
		if err != nil {
			return "inconclusive", "server startup: " + err.Error()
		}
	case <-time.After(300 * time.Millisecond):
	}
	defer srv.Shutdown()
	for i := 0; i < 100; i++ {
		if cc, err := net.Dial("tcp", fmt.Sprintf("127.0.0.1:%d", port)); err == nil {
			cc.Close()
			break
		}
		time.Sleep(20 * time.Millisecond)
	}
	cfg := forcedTLS(p, c.Cert)
	announce := "X-SOCKETACE / HTTP/1.1\r\nAccepts-Protocol-Version: v2.0.0\r\n\r\n"
	served, why := false, ""
	if c.Endpoint == "real-tcp+tls" {
		raw, err := net.DialTimeout("tcp", fmt.Sprintf("127.0.0.1:%d", port), 5*time.Second)
		if err != nil {
			return "inconclusive", err.Error()
		}
		defer raw.Close()
		tc := tls.Client(raw, cfg)
		raw.SetDeadline(time.Now().Add(10 * time.Second))
		if err := tc.Handshake(); err != nil {
			why = "TLS handshake: " + err.Error()
		} else {
			tc.Write([]byte(announce))
			b := make([]byte, 4096)
			n, rerr := tc.Read(b)
			served = strings.Contains(string(b[:n]), "HTTP/1.1 200")
			why = fmt.Sprintf("answer %q err %v", b[:n], rerr)
		}
	} else {
		d := &websocket.Dialer{TLSClientConfig: cfg, HandshakeTimeout: 10 * time.Second}
		cc, _, err := d.Dial(fmt.Sprintf("wss://127.0.0.1:%d/ws", port), nil)
		if err != nil {
			why = "websocket dial: " + err.Error()
		} else {
			defer cc.Close()
			cc.SetReadDeadline(time.Now().Add(10 * time.Second))
			cc.WriteMessage(websocket.BinaryMessage, []byte(announce))
			_, m, rerr := cc.ReadMessage()
			served = strings.Contains(string(m), "HTTP/1.1 200")
			why = fmt.Sprintf("answer %q err %v", m, rerr)
		}
	}
	want := !c.Require || c.Cert == "good"
	switch {
	case served && !want:
		return "admits-unauthenticated-peer|forced-client-cert|" + c.Endpoint + "|" + c.Cert, fmt.Sprintf("the endpoint requires client certificates of its CA; a peer presenting %q was served (%s)", c.Cert, why)
	case !served && want && (c.Cert == "good" || c.Cert == "none"):
		if strings.Contains(why, "timeout") {
			return "inconclusive", why
		}
		return "rejects-legitimate-peer|forced-client-cert|" + c.Endpoint + "|" + c.Cert, "the peer must be served but was not: " + why
	}
	return "", ""
}

func realForcedCases() []ForcedCase {
	var out []ForcedCase
	for _, ep := range []string{"real-tcp+tls", "real-https"} {
		for _, crt := range []string{"none", "good", "foreign", "server-own"} {
			for _, req := range []bool{true, false} {
				out = append(out, ForcedCase{"forced-client-cert", ep, crt, req})
			}
		}
	}
	return out
}
