package c05

import (
	"fmt"
	"time"

	"github.com/bokysan/socketace/v2/verifharness/bubble"
	"github.com/bokysan/socketace/v2/verifharness/world"
)

// UDP: real ConnectPacket / StartupPacket with real kcp-go over an in-memory datagram
// network, real time. One-sided value oracle: a byte reaching the target although it must
// not is a violation; a legitimate peer that does not get through within the generous
// real-time horizon is a violation only when the client reported an authentication error.
func udpCases() []Case { return udpCasesTier(true) }

func udpCasesTier(thorough bool) []Case {
	var out []Case
	// a shared secret AND certificates on one UDP endpoint: the secret must not switch the
	// certificate checks off (both requirements are configured, both hold)
	secretCerts := []string{"good", "untrusted"}
	if thorough {
		secretCerts = []string{"good", "untrusted", "wronghost", "expired"}
	}
	for _, cert := range secretCerts {
		for _, insecure := range []bool{false, true} {
			for _, req := range []bool{false, true} {
				for _, cc := range []string{"", "good", "foreign"} {
					out = append(out, Case{Members: []Member{{Carrier: "udp", Cert: cert, Host: "127.0.0.1:0", Require: req}}, Insecure: insecure, ClientCert: cc, KnowsCA: true, UDP: "starttls+secret"})
				}
			}
		}
	}
	for _, u := range []string{"secret:equal", "secret:different", "secret:server-only", "secret:client-only", "secret:none"} {
		out = append(out, Case{Members: []Member{{Carrier: "udp", Host: "127.0.0.1"}}, UDP: u})
	}
	for i := range secretPairs() {
		out = append(out, Case{Members: []Member{{Carrier: "udp", Host: "127.0.0.1"}}, UDP: fmt.Sprintf("secret-pair:%d", i)})
	}
	for _, cert := range []string{"good", "untrusted", "wronghost", "expired"} {
		for _, insecure := range []bool{false, true} {
			for _, req := range []bool{false, true} {
				for _, cc := range []string{"", "good", "foreign"} {
					out = append(out, Case{Members: []Member{{Carrier: "udp", Cert: cert, Host: "127.0.0.1:0", Require: req}}, Insecure: insecure, ClientCert: cc, KnowsCA: true, UDP: "starttls"})
				}
			}
		}
	}
	return out
}

type secretPair struct{ server, client, what string }

// secretPairs: for server secrets of every length around the sizes a key derivation may
// care about (AES key sizes 16/24/32, beyond them), every near miss of the client's secret.
func secretPairs() []secretPair {
	var out []secretPair
	for _, l := range []int{1, 15, 16, 17, 24, 31, 32, 33, 48, 64} {
		s := ""
		for i := 0; i < l; i++ {
			s += string(rune('a' + i%26))
		}
		out = append(out, secretPair{s, s, fmt.Sprintf("len%d|equal", l)})
		out = append(out, secretPair{s, s[:l-1] + "X", fmt.Sprintf("len%d|last-differs", l)})
		out = append(out, secretPair{s, s + "x", fmt.Sprintf("len%d|one-longer", l)})
		if l > 1 {
			out = append(out, secretPair{s, "X" + s[1:], fmt.Sprintf("len%d|first-differs", l)})
			out = append(out, secretPair{s, s[:l-1], fmt.Sprintf("len%d|one-shorter", l)})
		}
		if l > 32 {
			out = append(out, secretPair{s, s[:32], fmt.Sprintf("len%d|first-32", l)})
		}
		if l > 16 {
			out = append(out, secretPair{s, s[:16], fmt.Sprintf("len%d|first-16", l)})
		}
	}
	return out
}

func executeUDP(c Case) (kind, detail string) {
	bubble.SetupLogging()
	defer func() {
		if p := recover(); p != nil {
			kind, detail = "panic", fmt.Sprint(p)
		}
	}()
	m := c.Members[0]
	o := world.UDPOptions{Options: world.Options{Carrier: "udp", Channels: []string{"x"}, Keep: true, ServerCert: m.Cert, RequireClientCert: m.Require,
		Insecure: c.Insecure, ClientKnowsCA: c.KnowsCA, ClientCert: c.ClientCert}}
	want := true
	switch c.UDP {
	case "secret:equal":
		o.ServerSecret, o.ClientSecret = "s3cret", "s3cret"
	case "secret:different":
		o.ServerSecret, o.ClientSecret, want = "s3cret", "other", false
	case "secret:server-only":
		o.ServerSecret, want = "s3cret", false
	case "secret:client-only":
		o.ClientSecret, want = "s3cret", false
	case "secret:none":
	case "starttls":
	case "starttls+secret":
		o.ServerSecret, o.ClientSecret = "s3cret", "s3cret"
	default:
		var i int
		if _, err := fmt.Sscanf(c.UDP, "secret-pair:%d", &i); err == nil && i < len(secretPairs()) {
			p := secretPairs()[i]
			o.ServerSecret, o.ClientSecret, want = p.server, p.client, p.server == p.client
			c.UDP = "secret-pair|" + p.what
		}
	}
	switch c.UDP {
	case "starttls", "starttls+secret":
		want = admits(m, c)
	}
	u, err := world.NewUDP(o)
	if err != nil {
		return "endpoint-cannot-start|udp", err.Error()
	}
	defer u.Shutdown()
	app := u.OpenApp("x", nil)
	app.StartWrite([]byte("udp-marker"))
	horizon := 8 * time.Second
	if want {
		horizon = 45 * time.Second
	}
	deadline := time.Now().Add(horizon)
	for time.Now().Before(deadline) {
		if t := u.Chans[0].Target(0); t != nil && t.Obs().Got >= 10 {
			break
		}
		if !want && u.Front.Err != "" {
			break // the client gave up
		}
		time.Sleep(10 * time.Millisecond)
	}
	got := ""
	if t := u.Chans[0].Target(0); t != nil {
		got = string(t.Bytes())
	}
	cls := "udp+" + c.UDP
	if m.Cert != "" {
		cls += "|cert=" + m.Cert
	}
	if !want && got != "" {
		return "admits-unauthenticated-peer|" + cls, fmt.Sprintf("data %q reached the target although the peer must not be admitted", got)
	}
	if want && got != "udp-marker" {
		if u.Front.Err != "" {
			return "rejects-legitimate-peer|" + cls + "|host=ip:port", fmt.Sprintf("legitimate peer refused: %s", u.Front.Err)
		}
		return "inconclusive", fmt.Sprintf("no data within %v real time (front err %q)", horizon, u.Front.Err)
	}
	return "", ""
}
