// C15 — one stalled peer cannot block other peers.
//
// Engine B: the REAL accept loops (SocketServer.acceptConnection over an injected listener,
// plain and TLS; PacketServer's loop via StartupPacket with an injected listener; the DNS
// server's loop over the real ServerDnsListener; net/http + the real websocket handler) run in
// a bubble. One or three peers connect and stall at an enumerated point; then one or two
// well-behaved clients connect. Oracle, at quiescence and without any advance of the fake
// clock: every well-behaved client completed its handshake and echoed 1 kB while the
// stallers are still connected.
package c15

import (
	"bytes"
	"crypto/tls"
	"fmt"
	"github.com/bokysan/socketace/v2/internal/client/upstream"
	"strings"
	"testing"
	"time"

	"github.com/bokysan/socketace/v2/internal/streams/dns/util"
	"github.com/bokysan/socketace/v2/internal/util/enc"
	"github.com/bokysan/socketace/v2/verifharness/bubble"
	"github.com/bokysan/socketace/v2/verifharness/mc"
	"github.com/bokysan/socketace/v2/verifharness/netsim"
	"github.com/bokysan/socketace/v2/verifharness/world"
)

type Case struct {
	Endpoint string `json:"endpoint"` // socket | socket+tls | packet | dns | http
	Stall    string `json:"stall"`
	Stallers int    `json:"stallers"`
	Good     int    `json:"good"`
	AgeMin   int    `json:"age_min,omitempty"` // fake minutes the stalled peers stay connected before the well-behaved clients arrive
	// Early n > 0: one well-behaved client is connected (and served) BEFORE the stallers arrive; afterwards it
	// opens n further logical connections on its session, each of which must be served
	Early int `json:"early,omitempty"`
}

func (c Case) String() string {
	if c.Early > 0 {
		return fmt.Sprintf("%s stall=%s stallers=%d good=%d stalledFor=%dmin early-client-opens=%d", c.Endpoint, c.Stall, c.Stallers, c.Good, c.AgeMin, c.Early)
	}
	return fmt.Sprintf("%s stall=%s stallers=%d good=%d stalledFor=%dmin", c.Endpoint, c.Stall, c.Stallers, c.Good, c.AgeMin)
}

const announce = "X-SOCKETACE / HTTP/1.1\r\nAccepts-Protocol-Version: v2.0.0\r\nUser-Agent: staller\r\n\r\n"
const upgrade = "GET / HTTP/1.1\r\nConnection: upgrade\r\nUpgrade: socketace/v2.0.0\r\n\r\n"

// established: the peer completed the whole handshake (a real client) and stalls as a user
// of the tunnel
var established = []string{"established-app-not-reading", "established-target-not-reading", "established-target-dial-blocks"}

func stallPoints(endpoint string) []string {
	return append(handshakeStallPoints(endpoint), established...)
}

// garbage: malformed requests a misbehaving peer may send in place of either handshake request
// (it then stays connected and silent)
var garbage = []string{
	"X-SOCKETACE /\r\n\r\n",         // request line with one blank
	"\r\n\r\n",                      // empty request line
	"GET\r\n\r\n",                   // no blank at all
	" \r\n\r\n",                     // only a blank
	"X-SOCKETACE  HTTP/1.1\r\n\r\n", // two adjacent blanks
	"X-SOCKETACE / HTTP/1.1\r\nNoColon\r\n\r\n",
	"\x00\x01\x02\xff\r\n\r\n",
	announce + "GET /\r\n\r\n", // malformed second request
	announce + "\r\n\r\n",
}

func garbagePoints() []string {
	var out []string
	for i := range garbage {
		out = append(out, fmt.Sprintf("garbage:%d", i))
	}
	return out
}

func handshakeStallPoints(endpoint string) []string {
	switch endpoint {
	case "socket", "packet":
		return append(garbagePoints(), []string{"after-connect", "partial-request-line", "announce-unsupported-version", "announce-then-bad-upgrade", "between-announce-and-upgrade", "after-upgrade-silence", "after-upgrade-garbage"}...)
	case "socket+cert", "packet+cert":
		// plain endpoints that have a certificate offer StartTLS: a peer may stall inside the upgrade
		return []string{"after-connect", "between-announce-and-upgrade", "starttls-then-silence", "starttls-partial-hello", "starttls-garbage"}
	case "socket+tls":
		return []string{"after-connect", "partial-tls-hello", "tls-then-silence", "tls-partial-request-line", "tls-garbage:0", "tls-garbage:7"}
	case "dns":
		// announce-then-silence: the peer sends its complete first request and never sends another query, so
		// the server's answer to it stays unacknowledged for good
		return []string{"version-only", "hello-only", "hello-then-partial-announce", "announce-then-silence"}
	case "http":
		return []string{"after-connect", "partial-http-request", "ws-then-silence", "ws-then-partial-announce", "ws-then-unsupported-version"}
	}
	return nil
}

// stall makes one misbehaving peer; it returns a function reporting whether the peer is
// still connected (the server did not drop it).
func stall(w *world.World, c Case) (alive func() bool, err error) {
	if strings.HasPrefix(c.Stall, "established-") {
		ups := w.NewClient()
		ch := "x"
		if c.Stall == "established-target-dial-blocks" {
			ch = "slow"
		}
		app := w.OpenAppVia(ups, ch, nil)
		bubble.Wait()
		if c.Endpoint == "dns" {
			bubble.Advance(20 * time.Second)
		}
		big := 8 << 20
		if c.Endpoint == "dns" {
			big = 256 << 10
		}
		alive = func() bool { o := app.Obs(); return !o.EOF && o.Err == "" }
		if ch == "slow" {
			app.StartWrite(world.Payload(0x99, 0, 1000))
			bubble.Wait()
			return alive, nil
		}
		n := w.Chans[0].NumTargets()
		if n == 0 {
			return nil, fmt.Errorf("the stalling peer itself got no logical connection (front=%q)", w.Front.Err)
		}
		tg := w.Chans[0].Target(n - 1)
		if c.Stall == "established-app-not-reading" {
			app.Pause()
			tg.StartWrite(world.Payload(0x99, 0, big))
		} else {
			tg.Pause()
			app.StartWrite(world.Payload(0x99, 0, big))
		}
		bubble.Wait()
		if c.Endpoint == "dns" {
			bubble.Advance(20 * time.Second)
		}
		return alive, nil
	}
	if c.Endpoint == "dns" {
		conn, dg, err := w.Dns.NewClientConn()
		if err != nil {
			return nil, err
		}
		if c.Stall == "version-only" {
			// the peer obtains a session slot and then never sends another query (no poll loop)
			qt := util.QueryTypeNull
			conn.Serializer.Upstream.QueryType = &qt
			conn.Serializer.Upstream.Encoder = enc.Base32Encoding
			conn.Serializer.Downstream.Encoder = enc.Base32Encoding
			conn.Serializer.Upstream.FragmentSize = 60
			go conn.VersionHandshake()
			bubble.Wait()
			bubble.Advance(2 * time.Second)
			return func() bool { return !conn.Closed() }, nil
		}
		go func() {
			// a complete DNS-tunnel handshake creates the session on the server (its Accept returns
			// the connection); the peer then stalls at the socketace level
			if err := conn.Handshake(); err != nil {
				return
			}
			if c.Stall == "hello-then-partial-announce" {
				conn.Write([]byte("X-SOCKETAC"))
			}
			if c.Stall == "announce-then-silence" {
				conn.Write([]byte(announce))
				dg.Muted.Store(true)
			}
		}()
		bubble.Wait()
		bubble.Advance(2 * time.Second)
		return func() bool { return !conn.Closed() }, nil
	}
	raw, err := w.Listener.Dial()
	if err != nil {
		return nil, err
	}
	alive = func() bool { return !raw.PeerClosedWrite() }
	if strings.HasPrefix(c.Stall, "garbage:") {
		var i int
		fmt.Sscanf(c.Stall, "garbage:%d", &i)
		raw.Write([]byte(garbage[i%len(garbage)]))
		bubble.Wait()
		return alive, nil
	}
	if strings.HasPrefix(c.Stall, "tls-garbage:") {
		var i int
		fmt.Sscanf(c.Stall, "tls-garbage:%d", &i)
		tc := tls.Client(raw, &tls.Config{InsecureSkipVerify: true})
		go func() {
			if tc.Handshake() == nil {
				tc.Write([]byte(garbage[i%len(garbage)]))
			}
		}()
		bubble.Wait()
		return alive, nil
	}
	switch c.Stall {
	case "after-connect":
	case "partial-request-line":
		raw.Write([]byte("X-SOCKETAC"))
	case "announce-unsupported-version":
		// a well-formed first request offering only a version the server does not speak: it is
		// refused (409) - and the peer stays connected
		raw.Write([]byte("X-SOCKETACE / HTTP/1.1\r\nAccepts-Protocol-Version: v9.9.9\r\nUser-Agent: old-client\r\n\r\n"))
	case "announce-then-bad-upgrade":
		raw.Write([]byte(announce + "POST / HTTP/1.1\r\nConnection: close\r\nUpgrade: websocket\r\n\r\n"))
	case "starttls-then-silence", "starttls-partial-hello", "starttls-garbage":
		// the peer asks for the upgrade to TLS, gets 101, and stalls inside the TLS handshake
		raw.Write([]byte(announce + "GET / HTTP/1.1\r\nConnection: upgrade\r\nUpgrade: socketace/v2.0.0\r\nSecurity: StartTLS\r\n\r\n"))
		bubble.Wait()
		switch c.Stall {
		case "starttls-partial-hello":
			raw.Write([]byte("\x16\x03\x01\x02\x00\x01\x00\x01\xfc\x03\x03\x00\x00\x00\x00"))
		case "starttls-garbage":
			raw.Write([]byte("hello, this is not a TLS record at all"))
		}
	case "between-announce-and-upgrade":
		raw.Write([]byte(announce))
	case "after-upgrade-silence":
		raw.Write([]byte(announce + upgrade))
	case "after-upgrade-garbage":
		raw.Write([]byte(announce + upgrade + "\xff\xfe\xfdgarbage garbage garbage"))
	case "partial-tls-hello":
		raw.Write([]byte("\x16\x03\x01\x02\x00\x01\x00\x01\xfc\x03\x03\x00\x00\x00\x00\x00\x00\x00\x00\x00"))
	case "tls-then-silence", "tls-partial-request-line":
		tc := tls.Client(raw, &tls.Config{InsecureSkipVerify: true})
		go func() {
			if tc.Handshake() == nil && c.Stall == "tls-partial-request-line" {
				tc.Write([]byte("X-SOCKETAC"))
			}
		}()
	case "partial-http-request":
		raw.Write([]byte("GET /ws HTTP/1.1\r\nHost: server.test\r\nUpgr"))
	case "ws-then-silence", "ws-then-partial-announce", "ws-then-unsupported-version":
		raw.Write([]byte("GET /ws HTTP/1.1\r\nHost: server.test\r\nUpgrade: websocket\r\nConnection: Upgrade\r\nSec-WebSocket-Key: dGhlIHNhbXBsZSBub25jZQ==\r\nSec-WebSocket-Version: 13\r\n\r\n"))
		if c.Stall == "ws-then-unsupported-version" {
			bubble.Wait()
			msg := "X-SOCKETACE / HTTP/1.1\r\nAccepts-Protocol-Version: v9.9.9\r\n\r\n"
			frame := append([]byte{0x82, 0x80 | byte(len(msg)), 0, 0, 0, 0}, []byte(msg)...) // masked with a zero key
			raw.Write(frame)
		}
		if c.Stall == "ws-then-partial-announce" {
			bubble.Wait()
			// one unmasked-looking binary frame header + a few bytes (a client must mask; garbage is fine too)
			raw.Write([]byte("\x82\x8a\x00\x00\x00\x00X-SOCKETAC"))
		}
	}
	bubble.Wait()
	return alive, nil
}

func execute(t *testing.T, c Case) (kind, detail string) {
	res := bubble.Run(t, func() {
		o := world.Options{Channels: []string{"x", "slow"}, Keep: true}
		switch c.Endpoint {
		case "socket":
			o.Carrier, o.RealLoop = "stream", "socket"
		case "socket+cert":
			o.Carrier, o.RealLoop, o.ServerCert, o.ClientKnowsCA = "stream", "socket", "good", true
		case "packet+cert":
			o.Carrier, o.RealLoop, o.ServerCert, o.ClientKnowsCA = "stream", "packet", "good", true
		case "socket+tls":
			o.Carrier, o.RealLoop, o.TLS, o.ServerCert, o.ClientKnowsCA = "stream", "socket", true, "good", true
		case "packet":
			o.Carrier, o.RealLoop = "stream", "packet"
		case "dns":
			o.Carrier, o.RealLoop = "dns", "dns"
		case "http":
			o.Carrier = "ws"
		}
		w, err := world.New(o)
		if err != nil {
			kind, detail = "setup", err.Error()
			return
		}
		w.Chan("slow").BlockDial = make(chan struct{})
		bubble.Wait()
		// serve: one more logical connection of client ups carries 1000 bytes to its target and back
		serve := func(ups *upstream.Upstreams, tag byte, who string) bool {
			settle := func() {
				bubble.Wait()
				if c.Endpoint == "dns" {
					bubble.Advance(20 * time.Second)
				}
			}
			app := w.OpenAppVia(ups, "x", nil)
			settle()
			payload := world.Payload(tag, 0, 1000)
			app.StartWrite(payload)
			settle()
			var tg *world.Endpoint
			for j := 0; j < w.Chans[0].NumTargets(); j++ {
				if t := w.Chans[0].Target(j); bytes.Equal(t.Bytes(), payload) {
					tg = t
				}
			}
			if tg == nil {
				kind, detail = "blocked-by-stalled-peer", fmt.Sprintf("%s: no target connection received its 1000 bytes (%d target connection(s)); logs=%q", who, w.Chans[0].NumTargets(), bubble.RecentLogs())
				return false
			}
			tg.StartWrite(tg.Bytes())
			settle()
			if ao := app.Obs(); ao.Got != 1000 {
				kind, detail = "blocked-by-stalled-peer", fmt.Sprintf("%s: echo returned %d of 1000 bytes", who, ao.Got)
				return false
			}
			return true
		}
		var early *upstream.Upstreams
		if c.Early > 0 {
			early = w.NewClient()
			if !serve(early, 0x30, "early client, before any staller") {
				kind = "setup" // nothing stalls yet: not this property's business
				return
			}
		}
		var alive []func() bool
		for i := 0; i < c.Stallers; i++ {
			a, err := stall(w, c)
			if err != nil {
				kind, detail = "setup", "staller: "+err.Error()
				return
			}
			alive = append(alive, a)
		}
		if c.AgeMin > 0 {
			// the stalled peers stay for a while: whatever the server does about them in the
			// meantime (time-outs, pruning) must not cost the others their service
			for i := 0; i < c.AgeMin; i++ {
				bubble.Advance(time.Minute)
			}
		}
		// well-behaved clients arrive now; no fake time passes (except the DNS exchange timers,
		// which need the clock: DNS clients get a bounded fake-time allowance that is far below
		// any time-out that would make the stallers go away)
		for k := 1; k <= c.Early; k++ {
			if !serve(early, byte(0x30+k), fmt.Sprintf("the client that was connected before the %d staller(s) (%s), further logical connection %d", c.Stallers, c.Stall, k)) {
				return
			}
		}
		type good struct {
			app *world.Endpoint
		}
		var goods []good
		for i := 0; i < c.Good; i++ {
			ups := w.NewClient()
			app := w.OpenAppVia(ups, "x", nil)
			goods = append(goods, good{app})
			bubble.Wait()
		}
		if c.Endpoint == "dns" {
			bubble.Advance(20 * time.Second)
		}
		for i, g := range goods {
			// each client sends its own pattern; which target connection belongs to which client is
			// decided by arrival order at the server, so the target is identified by content
			payload := world.Payload(byte(0x42+i), 0, 1000)
			g.app.StartWrite(payload)
			bubble.Wait()
			if c.Endpoint == "dns" {
				bubble.Advance(20 * time.Second)
			}
			var tg *world.Endpoint
			most := 0
			for j := 0; j < w.Chans[0].NumTargets(); j++ {
				t := w.Chans[0].Target(j)
				b := t.Bytes()
				if len(b) > 0 && bytes.HasPrefix(payload, b) {
					tg = t
					most = len(b)
				}
			}
			if w.Chans[0].NumTargets() < i+1 || tg == nil {
				kind, detail = "blocked-by-stalled-peer", fmt.Sprintf("well-behaved client %d did not get a working logical connection while %d staller(s) are connected (%s): %d target connection(s), none carrying its bytes; logs=%q", i, c.Stallers, c.Stall, w.Chans[0].NumTargets(), bubble.RecentLogs())
				return
			}
			if most != 1000 {
				kind, detail = "blocked-by-stalled-peer", fmt.Sprintf("well-behaved client %d: target received %d of 1000 bytes", i, most)
				return
			}
			tg.StartWrite(tg.Bytes()) // echo
			bubble.Wait()
			if c.Endpoint == "dns" {
				bubble.Advance(20 * time.Second)
			}
			if ao := g.app.Obs(); ao.Got != 1000 {
				kind, detail = "blocked-by-stalled-peer", fmt.Sprintf("well-behaved client %d: echo returned %d of 1000 bytes", i, ao.Got)
				return
			}
		}
		stillThere := 0
		for _, a := range alive {
			if a() {
				stillThere++
			}
		}
		_ = stillThere // informational: a server may legitimately drop a peer that sent garbage
	})
	if res.Panic != "" {
		kind, detail = "panic", res.Panic
	}
	if kind == "" && res.SpinCount > 0 {
		kind, detail = "spin", res.SpinMsg
	}
	return
}

func cases(thorough bool) []Case {
	var out []Case
	sts, goods := []int{1, 3}, []int{1, 2}
	if thorough {
		sts, goods = []int{1, 2, 3, 8}, []int{1, 2, 4}
	}
	for _, ep := range []string{"socket", "socket+tls", "packet", "dns", "http", "socket+cert", "packet+cert"} {
		for _, st := range stallPoints(ep) {
			for _, stallers := range sts {
				for _, good := range goods {
					out = append(out, Case{Endpoint: ep, Stall: st, Stallers: stallers, Good: good})
					if good == 1 {
						out = append(out, Case{Endpoint: ep, Stall: st, Stallers: stallers, Good: good, Early: 3})
					}
					if good == 1 || thorough {
						out = append(out, Case{Endpoint: ep, Stall: st, Stallers: stallers, Good: good, AgeMin: 7})
					}
					if thorough {
						out = append(out, Case{Endpoint: ep, Stall: st, Stallers: stallers, Good: good, AgeMin: 31})
					}
				}
			}
		}
	}
	return out
}

func record(r *mc.Run, c Case, kind, detail string) {
	r.Eval(1)
	r.Transition(c.Stallers + 3*c.Good)
	r.State(mc.Hash(c.String(), kind))
	r.Nontrivial(mc.Hash(c.String()))
	if kind != "" {
		r.Fail(fmt.Sprintf("%s|%s|%s%s", kind, c.Endpoint, c.Stall, map[bool]string{true: "|aged", false: ""}[c.AgeMin > 0]), fmt.Sprintf("%s: %s", c, detail), c.Stallers*10+c.Good, c)
	}
}

func TestCheck(t *testing.T) {
	r := mc.New(t, "C15")
	defer r.Finish()
	r.CrashFails = true
	if r.Replay != nil {
		var c Case
		r.DecodeReplay(&c)
		kind, detail := execute(t, c)
		record(r, c, kind, detail)
		return
	}
	all := cases(r.Thorough())
	for idx, c := range all {
		if !r.Mine(idx) {
			continue
		}
		var kind, detail string
		limit := 60 * time.Second
		if c.Endpoint == "dns" && c.AgeMin > 0 {
			// stalled DNS peers that completed the tunnel handshake keep polling: minutes of fake time
			// for several of them are tens of thousands of real exchanges
			limit += time.Duration(c.AgeMin*c.Stallers*3) * time.Second
		}
		r.Guard(idx, limit, "hang|"+c.Endpoint+"|"+c.Stall, c.String(), c, func() {
			kind, detail = execute(t, c)
		})
		record(r, c, kind, detail)
		if idx%13 == 0 {
			r.Sample(map[string]any{"case": c.String(), "outcome": kind})
		}
		r.Progress(idx + 1)
	}
	r.Note("cases_total", len(all))
	_ = netsim.ErrTimeout
}
