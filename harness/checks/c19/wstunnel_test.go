package c19

// The websocket tunnel connection is a stream wrapper too (around a gorilla websocket
// connection, which owns the network connection). It cannot be built over the fake
// resources of the tree generator, so it gets its own exhaustive family: a real client end
// over an in-memory connection that counts its Close calls, wrapped named -> named -> tunnel
// as in production; every sequence of up to 5 operations over {the peer hangs up, Read with a
// deadline that may pass, Write, Close, TryClose, Closed}.

import (
	"fmt"
	"net"
	"net/http"
	"strings"
	"testing"
	"time"

	"github.com/bokysan/socketace/v2/internal/streams"
	"github.com/bokysan/socketace/v2/verifharness/bubble"
	"github.com/bokysan/socketace/v2/verifharness/mc"
	"github.com/bokysan/socketace/v2/verifharness/netsim"
	"github.com/gorilla/websocket"
)

type WsCase struct {
	Family string   `json:"family"` // "ws-tunnel"
	Ops    []string `json:"ops"`
}

func (c WsCase) String() string { return "ws-tunnel [" + strings.Join(c.Ops, " ") + "]" }

type countingConn struct {
	net.Conn
	closes int
}

func (c *countingConn) Close() error { c.closes++; return c.Conn.Close() }

var wsOps = []string{"peer-hangs-up", "read", "write", "close", "tryclose", "closed"}

func executeWs(t *testing.T, c WsCase) (kind, detail string) {
	res := bubble.Run(t, func() {
		lis := netsim.NewListener("server:80")
		up := websocket.Upgrader{}
		accepted := make(chan *websocket.Conn, 1)
		srv := &http.Server{Handler: http.HandlerFunc(func(w http.ResponseWriter, r *http.Request) {
			if conn, err := up.Upgrade(w, r, nil); err == nil {
				accepted <- conn
			}
		})}
		go srv.Serve(lis)
		var under *countingConn
		d := &websocket.Dialer{NetDial: func(string, string) (net.Conn, error) {
			raw, err := lis.Dial()
			if err != nil {
				return nil, err
			}
			under = &countingConn{Conn: raw}
			return under, nil
		}}
		cc, _, err := d.Dial("ws://server.test/ws", nil)
		if err != nil {
			kind, detail = "setup", err.Error()
			return
		}
		peer := <-accepted
		tunnel := streams.NewWebsocketTunnelConnection(cc)
		outer := streams.NewNamedConnection(streams.NewNamedConnection(tunnel, "inner"), "outer")
		closeIssued := false
		fail := func(k, d string) {
			if kind == "" {
				kind, detail = k, d
			}
		}
		for i, op := range c.Ops {
			switch op {
			case "peer-hangs-up":
				peer.Close()
				bubble.Wait()
			case "read":
				tunnel.SetReadDeadline(time.Now().Add(time.Second))
				done := make(chan struct{})
				go func() { outer.Read(make([]byte, 16)); close(done) }()
				bubble.Advance(2 * time.Second)
				select {
				case <-done:
				default:
					fail("read-never-returns|ws-tunnel", fmt.Sprintf("step %d: Read still blocked one second after its deadline", i))
					return
				}
			case "write":
				go outer.Write([]byte("x"))
				bubble.Wait()
			case "close", "tryclose":
				var err error
				if op == "close" {
					err = outer.Close()
				} else {
					streams.TryClose(outer)
				}
				bubble.Wait()
				if closeIssued && err != nil {
					fail("repeat-close-reports-error|ws-tunnel", fmt.Sprintf("step %d %s: a repeated close returned %v", i, op, err))
				}
				closeIssued = true
			case "closed":
			}
			// invariants after every operation
			if got := outer.Closed(); got != closeIssued {
				fail(fmt.Sprintf("closed-%v-%s-close|ws-tunnel", got, map[bool]string{true: "after", false: "before"}[closeIssued]), fmt.Sprintf("after step %d (%s): Closed() = %v, a close was issued: %v", i, op, got, closeIssued))
			}
			want := 0
			if closeIssued {
				want = 1
			}
			if under.closes != want {
				fail(fmt.Sprintf("resource-closed-%d-times|ws-tunnel", under.closes), fmt.Sprintf("after step %d (%s): the network connection under the tunnel was closed %d time(s), want %d", i, op, under.closes, want))
			}
			if kind != "" {
				return
			}
		}
		srv.Close()
		outer.Close()
		peer.Close()
	})
	if kind == "" && res.Panic != "" {
		kind, detail = "panic|ws-tunnel", res.Panic
	}
	return
}

func wsCases(depth int) []WsCase {
	var out []WsCase
	var rec func(prefix []string)
	rec = func(prefix []string) {
		if len(prefix) > 0 {
			out = append(out, WsCase{"ws-tunnel", append([]string{}, prefix...)})
		}
		if len(prefix) == depth {
			return
		}
		for _, o := range wsOps {
			if o == "peer-hangs-up" && contains(prefix, o) {
				continue
			}
			rec(append(prefix, o))
		}
	}
	rec(nil)
	return out
}

func contains(xs []string, x string) bool {
	for _, y := range xs {
		if y == x {
			return true
		}
	}
	return false
}

func recordWs(r *mc.Run, c WsCase, kind, detail string) {
	r.Eval(1)
	r.Transition(len(c.Ops))
	r.State(mc.Hash("ws-tunnel", c.Ops, kind))
	r.Nontrivial(mc.Hash(c.String()))
	if kind != "" {
		r.Fail(kind, fmt.Sprintf("%s: %s", c, detail), len(c.Ops), c)
	}
}
