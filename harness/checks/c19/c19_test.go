// C19 — stream wrappers close their resource exactly once.
//
// Engine S, explicit-state: for every type-correct composition of the wrappers in
// internal/streams (a tree: the reader+writer pair has two children) up to a nesting
// depth, over counting fake resources whose Close succeeds / fails once / fails always,
// the complete reachable state graph under the operation alphabet
// {Close, Closed, Read, Write, String, TryClose, LogClose} x {every wrapper node} is
// explored breadth-first. A state is identified by a reflect-based dump of every bool/int
// field of every wrapper plus the resources' counters, so a wrapper that grows hidden
// state makes the graph bigger rather than being merged away. Successors are computed on
// fresh real objects by replaying the shortest history. After every operation the real
// objects are compared with the reference model.
package c19

import (
	"errors"
	"fmt"
	"io"
	"net"
	"reflect"
	"sort"
	"strings"
	"testing"
	"time"

	"github.com/bokysan/socketace/v2/internal/streams"
	"github.com/bokysan/socketace/v2/verifharness/mc"
	log "github.com/sirupsen/logrus"
)

// ---- fake resources -----------------------------------------------------------------

type res struct {
	name   string
	fail   int // 0 ok, 1 fail once, 2 fail always
	closes int
	reads  int
	writes int
}

func (r *res) Close() error {
	r.closes++
	if r.fail == 2 || (r.fail == 1 && r.closes == 1) {
		return errors.New("closefail-" + r.name)
	}
	return nil
}
func (r *res) Read(p []byte) (int, error) {
	r.reads++
	if len(p) > 0 {
		p[0] = 'x'
		return 1, nil
	}
	return 0, nil
}
func (r *res) Write(p []byte) (int, error) { r.writes++; return len(p), nil }

type fakeAddr struct{}

func (fakeAddr) Network() string { return "fake" }
func (fakeAddr) String() string  { return "fake:0" }

type resConn struct{ *res }

func (resConn) LocalAddr() net.Addr                { return fakeAddr{} }
func (resConn) RemoteAddr() net.Addr               { return fakeAddr{} }
func (resConn) SetDeadline(t time.Time) error      { return nil }
func (resConn) SetReadDeadline(t time.Time) error  { return nil }
func (resConn) SetWriteDeadline(t time.Time) error { return nil }

type resReader struct{ r *res }

func (x resReader) Read(p []byte) (int, error) { return x.r.Read(p) }
func (x resReader) Close() error               { return x.r.Close() }

type resWriter struct{ r *res }

func (x resWriter) Write(p []byte) (int, error) { return x.r.Write(p) }
func (x resWriter) Close() error                { return x.r.Close() }

type resRWC struct{ *res }

// ---- composition trees ----------------------------------------------------------------

type ty int

const (
	tConn ty = iota
	tRWC
	tReader
	tWriter
)

type node struct {
	Kind string  `json:"kind"`
	Kids []*node `json:"kids,omitempty"`
	Fail int     `json:"fail,omitempty"`
	t    ty
}

func (n *node) String() string {
	if len(n.Kids) == 0 {
		return fmt.Sprintf("%s/%d", n.Kind, n.Fail)
	}
	parts := []string{}
	for _, k := range n.Kids {
		parts = append(parts, k.String())
	}
	return n.Kind + "(" + strings.Join(parts, ",") + ")"
}

func (n *node) depth() int {
	d := 0
	for _, k := range n.Kids {
		if kd := k.depth(); kd > d {
			d = kd
		}
	}
	if len(n.Kids) == 0 {
		return 0
	}
	return d + 1
}

func typeOf(n *node) ty {
	switch n.Kind {
	case "conn", "SafeConn", "NamedConn", "Buffered", "Simulated", "StreamConn":
		return tConn
	case "rwc", "SafeStream", "NamedStream", "Pair":
		return tRWC
	case "reader", "SafeReader", "NamedReader":
		return tReader
	}
	return tWriter
}

// gen returns all trees of exactly the given depth for the wanted type.
// A conn may be used wherever an rwc is wanted (it is one).
var memo = map[[2]int][]*node{}

func gen(want ty, depth int) []*node {
	key := [2]int{int(want), depth}
	if v, ok := memo[key]; ok {
		return v
	}
	var out []*node
	leaf := func(kind string) {
		for f := 0; f < 3; f++ {
			out = append(out, &node{Kind: kind, Fail: f})
		}
	}
	if depth == 0 {
		switch want {
		case tConn:
			leaf("conn")
		case tRWC:
			leaf("rwc")
		case tReader:
			leaf("reader")
		case tWriter:
			leaf("writer")
		}
		memo[key] = out
		return out
	}
	unary := func(kind string, kids []*node) {
		for _, k := range kids {
			out = append(out, &node{Kind: kind, Kids: []*node{k}})
		}
	}
	sub := depth - 1
	switch want {
	case tConn:
		unary("SafeConn", gen(tConn, sub))
		unary("NamedConn", gen(tConn, sub))
		unary("Buffered", gen(tConn, sub))
		unary("Simulated", gen(tRWC, sub))
		unary("Simulated", gen(tConn, sub))
		unary("StreamConn", gen(tRWC, sub))
		unary("StreamConn", gen(tConn, sub))
	case tRWC:
		unary("SafeStream", gen(tRWC, sub))
		unary("SafeStream", gen(tConn, sub))
		unary("NamedStream", gen(tRWC, sub))
		unary("NamedStream", gen(tConn, sub))
		// pair: max(child depths) == sub
		for dr := 0; dr <= sub; dr++ {
			for dw := 0; dw <= sub; dw++ {
				if dr != sub && dw != sub {
					continue
				}
				for _, r := range gen(tReader, dr) {
					for _, w := range gen(tWriter, dw) {
						out = append(out, &node{Kind: "Pair", Kids: []*node{r, w}})
					}
				}
			}
		}
	case tReader:
		unary("SafeReader", gen(tReader, sub))
		unary("NamedReader", gen(tReader, sub))
	case tWriter:
		unary("SafeWriter", gen(tWriter, sub))
		unary("NamedWriter", gen(tWriter, sub))
	}
	memo[key] = out
	return out
}

// ---- building the real objects ---------------------------------------------------------

type built struct {
	n      *node
	obj    any // the real wrapper (or the raw resource for leaves)
	kids   []*built
	leaf   *res
	parent *built
}

func build(n *node, counter *int) *built {
	b := &built{n: n}
	if len(n.Kids) == 0 {
		*counter++
		r := &res{name: fmt.Sprintf("r%d", *counter), fail: n.Fail}
		b.leaf = r
		switch n.Kind {
		case "conn":
			b.obj = resConn{r}
		case "rwc":
			b.obj = resRWC{r}
		case "reader":
			b.obj = resReader{r}
		case "writer":
			b.obj = resWriter{r}
		}
		return b
	}
	for _, k := range n.Kids {
		kb := build(k, counter)
		kb.parent = b
		b.kids = append(b.kids, kb)
	}
	k0 := b.kids[0].obj
	switch n.Kind {
	case "SafeConn":
		b.obj = streams.NewSafeConnection(k0.(net.Conn))
	case "NamedConn":
		b.obj = streams.NewNamedConnection(k0.(net.Conn), "nc")
	case "Buffered":
		b.obj = streams.NewBufferedInputConnection(k0.(net.Conn))
	case "Simulated":
		b.obj = streams.NewSimulatedConnection(k0.(io.ReadWriteCloser), fakeAddr{}, fakeAddr{})
	case "StreamConn":
		b.obj = streams.NewStreamConnection(k0.(io.ReadWriteCloser), resConn{&res{name: "addr-only"}})
	case "SafeStream":
		b.obj = streams.NewSafeStream(k0.(io.ReadWriteCloser))
	case "NamedStream":
		b.obj = streams.NewNamedStream(k0.(io.ReadWriteCloser), "ns")
	case "Pair":
		b.obj = streams.NewReadWriteCloser(k0.(io.ReadCloser), b.kids[1].obj.(io.WriteCloser))
	case "SafeReader":
		b.obj = streams.NewSafeReader(k0.(io.ReadCloser))
	case "NamedReader":
		b.obj = streams.NewNamedReader(k0.(io.ReadCloser), "nr")
	case "SafeWriter":
		b.obj = streams.NewSafeWriter(k0.(io.WriteCloser))
	case "NamedWriter":
		b.obj = streams.NewNamedWriter(k0.(io.WriteCloser), "nw")
	default:
		panic("unknown kind " + n.Kind)
	}
	return b
}

func (b *built) wrappers(out *[]*built) {
	if b.leaf == nil {
		*out = append(*out, b)
	}
	for _, k := range b.kids {
		k.wrappers(out)
	}
}

func (b *built) leaves(out *[]*built) {
	if b.leaf != nil {
		*out = append(*out, b)
	}
	for _, k := range b.kids {
		k.leaves(out)
	}
}

// dump collects every bool / int field reachable from the wrapper objects (through
// embedded interfaces and pointers inside the streams package) plus resource counters.
func dumpValue(v reflect.Value, sb *strings.Builder, depth int, seen map[uintptr]bool) {
	if depth > 12 || !v.IsValid() {
		return
	}
	switch v.Kind() {
	case reflect.Interface:
		if !v.IsNil() {
			dumpValue(v.Elem(), sb, depth+1, seen)
		}
	case reflect.Ptr:
		if v.IsNil() {
			return
		}
		if seen[v.Pointer()] {
			sb.WriteString("@")
			return
		}
		seen[v.Pointer()] = true
		if v.Elem().Kind() == reflect.Struct && !strings.HasPrefix(v.Elem().Type().PkgPath(), "github.com/bokysan/socketace/v2/internal") {
			return
		}
		dumpValue(v.Elem(), sb, depth+1, seen)
	case reflect.Struct:
		if !strings.HasPrefix(v.Type().PkgPath(), "github.com/bokysan/socketace/v2/internal") {
			return
		}
		sb.WriteString(v.Type().Name() + "{")
		for i := 0; i < v.NumField(); i++ {
			f := v.Field(i)
			switch f.Kind() {
			case reflect.Bool:
				fmt.Fprintf(sb, "%s=%v,", v.Type().Field(i).Name, f.Bool())
			case reflect.Int, reflect.Int32, reflect.Int64:
				fmt.Fprintf(sb, "%s=%d,", v.Type().Field(i).Name, f.Int())
			case reflect.Interface, reflect.Ptr, reflect.Struct:
				dumpValue(f, sb, depth+1, seen)
			}
		}
		sb.WriteString("}")
	}
}

func stateKey(root *built) string {
	var sb strings.Builder
	var ws, ls []*built
	root.wrappers(&ws)
	root.leaves(&ls)
	for _, w := range ws {
		dumpValue(reflect.ValueOf(w.obj), &sb, 0, map[uintptr]bool{})
		sb.WriteString("|")
	}
	for _, l := range ls {
		c := l.leaf.closes
		if c > 2 {
			c = 2
		}
		fmt.Fprintf(&sb, "c%d,", c)
	}
	return sb.String()
}

// ---- operations and the reference model ----------------------------------------------

type op struct {
	Node int    `json:"node"` // index into wrappers()
	Op   string `json:"op"`
}

var opNames = []string{"Close", "Closed", "Read", "Write", "String", "TryClose", "LogClose"}

type model struct {
	issued map[*built]bool // Close issued on this wrapper directly or through an ancestor
}

func (m *model) descendantIssued(b *built) bool {
	for _, k := range b.kids {
		if k.leaf == nil && (m.issued[k] || m.descendantIssued(k)) {
			return true
		}
	}
	return false
}

func (m *model) mark(b *built) {
	if b.leaf == nil {
		m.issued[b] = true
	}
	for _, k := range b.kids {
		m.mark(k)
	}
}

func ancestorIssued(m *model, l *built) bool {
	for p := l.parent; p != nil; p = p.parent {
		if m.issued[p] {
			return true
		}
	}
	return false
}

// apply executes o on the real objects, compares with the model and updates the model.
// It returns a non-empty (suboracle, message) on disagreement.
func apply(root *built, ws []*built, m *model, o op) (sub string, msg string) {
	defer func() {
		if p := recover(); p != nil {
			sub, msg = "panic", fmt.Sprintf("panic in %s on %s: %v", o.Op, ws[o.Node].n.Kind, p)
		}
	}()
	w := ws[o.Node]
	var ls []*built
	w.leaves(&ls)
	switch o.Op {
	case "Close", "LogClose", "TryClose":
		// expected error: from resources below w that were not closed yet and fail on their first close
		wantErr := false
		if !m.issued[w] {
			for _, l := range ls {
				if l.leaf.closes == 0 && l.leaf.fail != 0 {
					wantErr = true
				}
			}
		}
		already := m.issued[w]
		var err error
		switch o.Op {
		case "Close":
			err = w.obj.(io.Closer).Close()
		case "LogClose":
			err = streams.LogClose(w.obj.(io.Closer))
		case "TryClose":
			streams.TryClose(w.obj.(io.Closer))
		}
		m.mark(w)
		if o.Op != "TryClose" {
			if already && err != nil {
				return "repeat-close-error", fmt.Sprintf("repeated %s on %s returned %v, want nil", o.Op, w.n.Kind, err)
			}
			if !already && wantErr && err == nil {
				return "first-close-swallowed-error", fmt.Sprintf("first %s on %s returned nil although a resource below it failed to close", o.Op, w.n.Kind)
			}
			if !already && !wantErr && err != nil {
				return "first-close-spurious-error", fmt.Sprintf("first %s on %s returned %v although no resource failed", o.Op, w.n.Kind, err)
			}
		}
	case "Closed":
		got := w.obj.(streams.Closed).Closed()
		if m.issued[w] && !got {
			return "closed-false-after-close", fmt.Sprintf("Closed() on %s is false after Close", w.n.Kind)
		}
		if !m.issued[w] && !m.descendantIssued(w) && got {
			return "closed-true-before-close", fmt.Sprintf("Closed() on %s is true before any Close", w.n.Kind)
		}
	case "Read":
		if r, ok := w.obj.(io.Reader); ok {
			r.Read(make([]byte, 4))
		}
	case "Write":
		if r, ok := w.obj.(io.Writer); ok {
			r.Write([]byte("ab"))
		}
	case "String":
		if s, ok := w.obj.(fmt.Stringer); ok {
			_ = s.String()
		}
	}
	// resource close counts
	var all []*built
	root.leaves(&all)
	for _, l := range all {
		want := 0
		if ancestorIssued(m, l) {
			want = 1
		}
		if l.leaf.closes != want {
			if l.leaf.closes > want {
				return "resource-closed-more-than-once", fmt.Sprintf("after %s on %s: resource %s (%s) closed %d times, want %d", o.Op, w.n.Kind, l.leaf.name, l.n.Kind, l.leaf.closes, want)
			}
			return "resource-not-closed", fmt.Sprintf("after %s on %s: resource %s (%s) closed %d times, want %d", o.Op, w.n.Kind, l.leaf.name, l.n.Kind, l.leaf.closes, want)
		}
	}
	return "", ""
}

type replayCase struct {
	Tree *node `json:"tree"`
	Ops  []op  `json:"ops"`
}

func fixTypes(n *node) {
	n.t = typeOf(n)
	for _, k := range n.Kids {
		fixTypes(k)
	}
}

// runHistory builds a fresh composition and applies ops; returns failure info of the
// last op (earlier ops are known good on the BFS path, but are checked anyway).
func runHistory(tree *node, ops []op) (root *built, ws []*built, sub, msg string) {
	c := 0
	root = build(tree, &c)
	root.wrappers(&ws)
	m := &model{issued: map[*built]bool{}}
	for _, o := range ops {
		if sub, msg = apply(root, ws, m, o); sub != "" {
			return
		}
	}
	return
}

func explore(r *mc.Run, tree *node) {
	c := 0
	root := build(tree, &c)
	var ws []*built
	root.wrappers(&ws)
	nw := len(ws)
	type st struct{ hist []op }
	seen := map[string]bool{stateKey(root): true}
	r.State(mc.Hash(tree.String(), stateKey(root)))
	frontier := []st{{}}
	for len(frontier) > 0 {
		cur := frontier[0]
		frontier = frontier[1:]
		for n := 0; n < nw; n++ {
			for _, name := range opNames {
				o := op{Node: n, Op: name}
				hist := append(append([]op{}, cur.hist...), o)
				nroot, _, sub, msg := runHistory(tree, hist)
				r.Transition(1)
				if sub != "" {
					fp := fmt.Sprintf("%s|%s|on=%s", sub, o.Op, ws[n].n.Kind)
					r.Fail(fp, fmt.Sprintf("composition %s, ops %v: %s", tree, hist, msg), tree.depth()*100+len(hist), replayCase{Tree: tree, Ops: hist})
					continue
				}
				k := stateKey(nroot)
				if !seen[k] {
					seen[k] = true
					r.State(mc.Hash(tree.String(), k))
					frontier = append(frontier, st{hist})
				}
			}
		}
	}
	r.Eval(1)
	if len(seen) > 1 {
		r.Nontrivial(mc.Hash(tree.String()))
	}
	r.AddNote("max_states_per_composition_seen", 0)
}

func TestCheck(t *testing.T) {
	log.SetOutput(io.Discard)
	r := mc.New(t, "C19")
	defer r.Finish()
	if r.Replay != nil {
		var probe struct {
			Family string `json:"family"`
		}
		r.DecodeReplay(&probe)
		if probe.Family == "ws-tunnel" {
			var wc WsCase
			r.DecodeReplay(&wc)
			k, d := executeWs(t, wc)
			recordWs(r, wc, k, d)
			return
		}
		var rc replayCase
		r.DecodeReplay(&rc)
		fixTypes(rc.Tree)
		_, ws, sub, msg := runHistory(rc.Tree, rc.Ops)
		r.Eval(1)
		r.Transition(len(rc.Ops))
		r.State(1)
		if sub != "" {
			last := rc.Ops[len(rc.Ops)-1]
			fp := fmt.Sprintf("%s|%s|on=%s", sub, last.Op, ws[last.Node].n.Kind)
			r.Fail(fp, fmt.Sprintf("composition %s, ops %v: %s", rc.Tree, rc.Ops, msg), 0, rc)
		}
		return
	}
	maxDepth := 4
	if r.Thorough() {
		maxDepth = 5
	}
	idx := 0
	var sampleTrees []string
	for d := 1; d <= maxDepth; d++ {
		for _, want := range []ty{tConn, tRWC, tReader, tWriter} {
			trees := gen(want, d)
			for _, tree := range trees {
				if r.Mine(idx) {
					explore(r, tree)
					if len(sampleTrees) < 4 && idx%97 == 0 {
						sampleTrees = append(sampleTrees, tree.String())
					}
				}
				idx++
			}
		}
	}
	// the websocket tunnel connection (a wrapper around a real gorilla connection)
	wsDepth := 4
	if r.Thorough() {
		wsDepth = 5
	}
	ws := wsCases(wsDepth)
	for i, wc := range ws {
		if r.Mine(idx + 1000 + i) {
			k, d := executeWs(t, wc)
			recordWs(r, wc, k, d)
		}
	}
	r.Note("ws_tunnel_sequences", len(ws))
	sort.Strings(sampleTrees)
	for _, s := range sampleTrees {
		r.Sample(map[string]any{"composition": s, "explored": "complete reachable state graph under 7 ops x every wrapper node"})
	}
	r.Note("compositions_total", idx)
	r.Note("max_nesting_depth", maxDepth)
	r.Note("ops", opNames)
}
