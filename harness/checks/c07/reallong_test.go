package c07

// Layer A-long: the real client, the real server handler and the real poller carry more than
// 65536 packets in one direction (one small Write per packet) over a loss-free path, from a
// new session: the 16-bit wrap is reached by real traffic. It also validates the shortcut of
// the Layer-A "start" cases, which place an established session near the wrap directly.

import (
	"bytes"
	"fmt"
	"testing"
	"time"

	"github.com/bokysan/socketace/v2/verifharness/bubble"
	"github.com/bokysan/socketace/v2/verifharness/syncshim"
	"github.com/bokysan/socketace/v2/verifharness/world"
)

type CaseALong struct {
	Layer   string `json:"layer"` // "A-long"
	Dir     string `json:"dir"`   // up | down
	Packets int    `json:"packets"`
}

func (c CaseALong) String() string {
	return fmt.Sprintf("A-long dir=%s packets=%d (real client, real server, real poller, loss-free)", c.Dir, c.Packets)
}

func executeALong(t *testing.T, c CaseALong) (kind, detail string) {
	res := bubble.Run(t, func() {
		w, err := world.New(world.Options{Carrier: "dns", Channels: []string{"x"}, DnsRaw: true})
		if err != nil {
			kind, detail = "setup", err.Error()
			return
		}
		cl, _, err := w.Dns.NewClientConn()
		if err != nil {
			kind, detail = "setup", err.Error()
			return
		}
		hs := make(chan error, 1)
		go func() { hs <- cl.Handshake() }()
		bubble.Wait()
		bubble.Advance(3 * time.Second)
		select {
		case err := <-hs:
			if err != nil {
				kind, detail = "setup", "handshake on a fault-free path failed: "+err.Error()
				return
			}
		default:
			kind, detail = "setup", "handshake on a fault-free path did not finish"
			return
		}
		srv, err := w.Dns.Lis.Accept()
		if err != nil {
			kind, detail = "setup", err.Error()
			return
		}
		var wr interface{ Write([]byte) (int, error) } = cl
		var rd interface{ Read([]byte) (int, error) } = srv
		if c.Dir == "down" {
			wr, rd = srv, cl
		}
		const frag = 8
		want := pattern(0x3c, 0, c.Packets*frag)
		var got []byte
		written, werr := 0, error(nil)
		wdone, rdone := make(chan struct{}), make(chan struct{})
		go func() {
			defer close(wdone)
			for i := 0; i < c.Packets; i++ {
				n, err := wr.Write(want[i*frag : (i+1)*frag])
				written += n
				if err != nil {
					werr = err
					return
				}
			}
		}()
		go func() {
			defer close(rdone)
			buf := make([]byte, 65536)
			for len(got) < len(want) {
				n, err := rd.Read(buf)
				got = append(got, buf[:n]...)
				if n > 0 {
					// delivery is progress: the whole transfer may run within one harness step (no fake time is
					// needed on a loss-free path), and a loaded machine must not turn "slow" into "stuck"
					syncshim.Steps.Add(1)
				}
				if err != nil {
					return
				}
			}
		}()
		finished := false
		for i := 0; i < 4000 && !finished; i++ {
			bubble.Wait()
			select {
			case <-rdone:
				finished = true
			default:
				before := len(got)
				bubble.Advance(30 * time.Second)
				bubble.Wait()
				if len(got) == before && i > 3 {
					// nothing arrived during 30 s of a loss-free path: stalled
					i += 400
				}
			}
		}
		if !finished || !bytes.Equal(got, want) {
			n := len(got)
			kind = "accepted-not-delivered|long|" + c.Dir
			detail = fmt.Sprintf("stream of %d packets of %d bytes: %d bytes (%d packets) arrived, %d written (write error %v), nothing more although the path loses nothing", c.Packets, frag, n, n/frag, written, werr)
			if n <= len(want) && !bytes.Equal(got, want[:n]) {
				kind = "not-a-prefix|long|" + c.Dir
			}
		}
		cl.Close()
		bubble.Advance(time.Second)
	})
	if kind == "" && res.Panic != "" {
		kind, detail = "panic", res.Panic
	}
	return
}
