// C07 Layer T — thread interleavings of the real queue objects (Engine T, package sched).
//
// The thread structure is the real client's and server's: the application's writer sends
// its own chunks from inside OutQueue.Write (OnChunkAdded -> outChunkAdded: NextChunk, then
// SendAndReceive under commMutex); the poll loop picks a chunk BEFORE it takes commMutex,
// exactly like the goroutine started by ClientDnsConnection.Handshake; the server's handler
// is ServerDnsListener.packet without the session lookup, and a second handler goroutine
// processes a duplicate of the latest query concurrently (miekg/dns serves every datagram
// on its own goroutine); the applications' readers block in InQueue.Read. Every Lock (and,
// in the fine-grained program, every Unlock) of the queues' mutexes and of commMutex is a
// scheduling point (sync-shim); the explorer enumerates every schedule with at most `bound`
// deviations from a fair default schedule. Oracle per schedule: no deadlock, no panic,
// every Write returns, no exchange is refused, and what each reader got is exactly what the
// peer's writer was told was accepted.
package c07

import (
	"bytes"
	"errors"
	"fmt"
	"os"
	"strings"
	"sync"
	"sync/atomic"
	"testing"
	"time"

	"github.com/bokysan/socketace/v2/internal/streams/dns/util"
	"github.com/bokysan/socketace/v2/verifharness/bubble"
	"github.com/bokysan/socketace/v2/verifharness/mc"
	"github.com/bokysan/socketace/v2/verifharness/sched"
	"github.com/bokysan/socketace/v2/verifharness/syncshim"
)

type CaseT struct {
	Layer   string `json:"layer"` // "T"
	Prog    string `json:"prog"`
	Start   uint16 `json:"start"`
	Choices []int  `json:"choices"`
}

func (c CaseT) String() string {
	return fmt.Sprintf("T prog=%s start=%d schedule=%v", c.Prog, c.Start, c.Choices)
}

type progT struct {
	name   string
	cw, sw []int // sizes of the client's / server's application writes
	polls  int   // exchanges the client's poll loop performs (besides those the writer triggers itself)
	dup    int   // a second server handler re-handles the latest query this many times
	bufC   int   // client reader buffer
	bufS   int
	unlock bool // Unlock returns are scheduling points too
	closer int  // >0: a thread closes all four queues (the connection ends) after this many yields
}

var progsT = []progT{
	{name: "up", cw: []int{3, 3}, polls: 2, bufS: 64, bufC: 64},
	{name: "both", cw: []int{3}, sw: []int{3}, polls: 4, bufC: 2, bufS: 64},
	{name: "dup", cw: []int{6}, polls: 2, dup: 2, bufS: 64, bufC: 64},
	{name: "up-fine", cw: []int{3}, polls: 1, bufS: 64, bufC: 64, unlock: true},
	{name: "close", cw: []int{3, 3}, sw: []int{3}, polls: 2, bufS: 64, bufC: 2, closer: 1},
}

func progByName(n string) *progT {
	for i := range progsT {
		if progsT[i].name == n {
			return &progsT[i]
		}
	}
	return nil
}

// runT executes one schedule of program pg.
func runT(t *testing.T, pg *progT, start uint16, prefix []int) (x *sched.Exec, kind, detail string) {
	res := bubble.Run(t, func() {
		p := newPair(start)
		var commMutex syncshim.Mutex // ClientDnsConnection.commMutex
		var histMu sync.Mutex
		var cwDone, swDone, closed atomic.Bool
		var srGot, crGot atomic.Int64
		var cAcc, sAcc, sRead, cRead []byte // accepted by Write / read by the peer's reader
		var accMu sync.Mutex
		var exchErr atomic.Value
		wantS, wantC := 0, 0
		for _, n := range pg.cw {
			wantS += n
		}
		for _, n := range pg.sw {
			wantC += n
		}
		s := sched.New(prefix)
		s.UnlockPoints = pg.unlock
		// horizon: the programs write at most a dozen bytes and poll at most polls+12 times; a send loop
		// (ClientDnsConnection.outChunkAdded) that is still exchanging after 2000 rounds never advances
		var exchanges atomic.Int64
		var livelock atomic.Bool
		sendAndReceive := func(chunk *util.Packet) error {
			if exchanges.Add(1) > 2000 {
				livelock.Store(true)
				return errors.New("verif: exchange horizon reached")
			}
			commMutex.Lock()
			defer commMutex.Unlock()
			r := req{ack: p.cIn.NextSeqNo - 1, pkt: chunk}
			histMu.Lock()
			p.hist = append(p.hist, r)
			histMu.Unlock()
			a, pk, err := p.serverHandle(r)
			if err != nil {
				return err
			}
			p.cOut.UpdateAcked(a)
			return p.cIn.Append(pk)
		}
		p.cOut.OnChunkAdded = func() error {
			for chunk := p.cOut.NextChunk(); chunk != nil; chunk = p.cOut.NextChunk() {
				if err := sendAndReceive(chunk); err != nil {
					return err
				}
			}
			return nil
		}
		okBytes := map[*[]byte]int{} // per writer: bytes of the leading writes that returned without error
		writer := func(sizes []int, tag byte, write func([]byte) (int, error), acc *[]byte, done *atomic.Bool) func() {
			return func() {
				off := 0
				failed := false
				for _, n := range sizes {
					b := pattern(tag, off, n)
					off += n
					k, err := write(b)
					accMu.Lock()
					*acc = append(*acc, b[:k]...)
					if err == nil && k == len(b) && !failed {
						okBytes[acc] += k
					} else {
						failed = true
					}
					accMu.Unlock()
					if err != nil {
						exchErr.Store(err.Error())
						break
					}
				}
				done.Store(true)
			}
		}
		reader := func(want, bufN int, read func([]byte) (int, error), into *[]byte, got *atomic.Int64) func() {
			return func() {
				buf := make([]byte, bufN)
				for int(got.Load()) < want {
					n, err := read(buf)
					accMu.Lock()
					*into = append(*into, buf[:n]...)
					accMu.Unlock()
					got.Add(int64(n))
					if err != nil {
						return
					}
				}
			}
		}
		s.Go("client-writer", writer(pg.cw, 0x11, func(b []byte) (int, error) { return p.cOut.Write(b, 4) }, &cAcc, &cwDone))
		if len(pg.sw) > 0 {
			s.Go("server-writer", writer(pg.sw, 0x80, func(b []byte) (int, error) { return p.sOut.Write(b, 4) }, &sAcc, &swDone))
		} else {
			swDone.Store(true)
		}
		s.Go("server-reader", reader(wantS, pg.bufS, p.sIn.Read, &sRead, &srGot))
		if wantC > 0 {
			s.Go("client-reader", reader(wantC, pg.bufC, p.cIn.Read, &cRead, &crGot))
		}
		finished := func() bool {
			return cwDone.Load() && swDone.Load() && int(srGot.Load()) >= wantS && int(crGot.Load()) >= wantC
		}
		s.Go("poll-loop", func() {
			// the poll loop runs for as long as the connection lives: at least pg.polls times, and
			// then until everything accepted has arrived (bounded)
			for i := 0; i < pg.polls+12; i++ {
				if (i >= pg.polls && finished()) || closed.Load() {
					return
				}
				chunk := p.cOut.NextChunk()
				if err := sendAndReceive(chunk); err != nil {
					exchErr.Store(err.Error())
					return
				}
				s.Yield("poll")
			}
		})
		if pg.dup > 0 {
			s.Go("dup-handler", func() {
				for i := 0; i < pg.dup; i++ {
					s.Yield("dup-wait")
					histMu.Lock()
					var r *req
					if len(p.hist) > 0 {
						r = &p.hist[len(p.hist)-1]
					}
					histMu.Unlock()
					if r != nil {
						// a duplicate of the latest query; its answer may be the one the client sees
						if _, _, err := p.serverHandle(*r); err != nil {
							exchErr.Store("duplicate of a valid query refused: " + err.Error())
						}
					}
				}
			})
		}
		if pg.closer > 0 {
			s.Go("closer", func() {
				for i := 0; i < pg.closer; i++ {
					s.Yield("closer-waits")
				}
				// what ClientDnsConnection.Close / closeConnection do to the queues
				closed.Store(true)
				p.cIn.Close()
				p.cOut.Close()
				p.sIn.Close()
				p.sOut.Close()
			})
		}
		x = s.Run()
		e, _ := exchErr.Load().(string)
		if pg.closer > 0 {
			// the connection was closed under the threads' feet: everybody must have come back (no
			// deadlock, checked below); writers may report an error, readers may see the end early;
			// what was read must still be a prefix of what was accepted
			accMu.Lock()
			switch {
			case len(x.Panics) > 0:
				kind, detail = "T|panic", fmt.Sprint(x.Panics)
			case x.Deadlock != "":
				kind, detail = "T|deadlock-after-close", x.Deadlock
			case x.Capped:
				kind, detail = "T|livelock", "step limit reached"
			case livelock.Load():
				kind, detail = "T|livelock", "more than 2000 exchanges for a program that writes a dozen bytes: the send loop re-sends the same fragment without ever advancing"
			case !bytes.HasPrefix(cAcc, sRead):
				kind, detail = "T|not-a-prefix|client->server", fmt.Sprintf("server read % x, client's writes accepted % x", sRead, cAcc)
			case !bytes.HasPrefix(sAcc, cRead):
				kind, detail = "T|not-a-prefix|server->client", fmt.Sprintf("client read % x, server's writes accepted % x", cRead, sAcc)
			case len(sRead) < okBytes[&cAcc]:
				kind, detail = "T|successful-write-not-delivered|client->server", fmt.Sprintf("the client's writes returned success for %d bytes before the connection ended; the server's reader got %d", okBytes[&cAcc], len(sRead))
			case len(cRead) < okBytes[&sAcc]:
				kind, detail = "T|successful-write-not-delivered|server->client", fmt.Sprintf("the server's writes returned success for %d bytes before the connection ended; the client's reader got %d", okBytes[&sAcc], len(cRead))
			}
			accMu.Unlock()
			if kind != "" {
				s.Abandon()
			}
			return
		}
		switch {
		case len(x.Panics) > 0:
			kind, detail = "T|panic", fmt.Sprint(x.Panics)
		case x.Deadlock != "":
			kind, detail = "T|deadlock", x.Deadlock
		case x.Capped:
			kind, detail = "T|livelock", "step limit reached"
		case livelock.Load():
			kind, detail = "T|livelock", "more than 2000 exchanges for a program that writes a dozen bytes: the send loop re-sends the same fragment without ever advancing"
		case e != "":
			kind, detail = "T|exchange-error", e
		default:
			accMu.Lock()
			switch {
			case !bytes.Equal(sRead, cAcc):
				kind, detail = "T|not-exactly-once|client->server", fmt.Sprintf("server read % x, client's writes accepted % x", sRead, cAcc)
			case !bytes.Equal(cRead, sAcc):
				kind, detail = "T|not-exactly-once|server->client", fmt.Sprintf("client read % x, server's writes accepted % x", cRead, sAcc)
			case len(cAcc) != wantS || len(sAcc) != wantC:
				kind, detail = "T|write-not-accepted", fmt.Sprintf("accepted %d/%d up, %d/%d down", len(cAcc), wantS, len(sAcc), wantC)
			}
			accMu.Unlock()
		}
		if kind != "" {
			s.Abandon()
		}
	})
	if kind == "" && res.Panic != "" {
		kind, detail = "T|panic", res.Panic
	}
	if strings.Contains(res.Panic, "replay diverged") {
		kind, detail = "diverged", res.Panic
	}
	if x == nil {
		x = &sched.Exec{}
	}
	return
}

func TestLayerTSmoke(t *testing.T) {
	if os.Getenv("VERIF_SMOKE") == "" {
		t.Skip()
	}
	for _, pg := range progsT {
		pg := pg
		for bound := 0; bound <= 2; bound++ {
			t0 := time.Now()
			kinds := map[string]int{}
			steps := 0
			n, complete := sched.Explore(bound, func(prefix []int) *sched.Exec {
				x, kind, detail := runT(t, &pg, 0, prefix)
				kinds[kind]++
				if kind != "" && kinds[kind] == 1 {
					var tr []string
					for _, st := range x.Steps {
						tr = append(tr, st.At)
					}
					t.Logf("%s: %s\n   schedule %v\n   trace %s", kind, detail, x.Choices(), strings.Join(tr, " "))
				}
				if len(x.Steps) > steps {
					steps = len(x.Steps)
				}
				return x
			}, func(*sched.Exec) bool { return time.Since(t0) < 40*time.Second }, func(int) bool { return true })
			t.Logf("prog=%s bound=%d schedules=%d complete=%v max points=%d outcomes=%v in %v", pg.name, bound, n, complete, steps, kinds, time.Since(t0))
		}
	}
}

// layerT explores every schedule of every program with at most bound deviations.
func layerT(t *testing.T, r *mc.Run, bound int) {
	outcomes := map[string]bool{}
	for _, pg := range progsT {
		pg := pg
		for _, start := range []uint16{0, 65535} {
			if pg.closer > 0 && start != 0 && !r.Thorough() {
				continue // the close program does not depend on sequence numbers
			}
			maxSteps := 0
			n, complete := sched.Explore(bound,
				func(prefix []int) *sched.Exec {
					x, kind, detail := runT(t, &pg, start, prefix)
					c := CaseT{Layer: "T", Prog: pg.name, Start: start, Choices: x.Choices()}
					r.Eval(1)
					r.Transition(len(x.Steps))
					r.State(mc.Hash("T", pg.name, start, kind, len(x.Steps)))
					r.Nontrivial(mc.Hash(c.String()))
					if len(x.Steps) > maxSteps {
						maxSteps = len(x.Steps)
					}
					outcomes[fmt.Sprint(pg.name, kind, len(x.Steps))] = true
					if kind == "diverged" {
						r.Inconclusive(c.String() + ": " + detail)
					} else if kind != "" {
						r.Fail(kind+"|"+pg.name, fmt.Sprintf("%s: %s", c, detail), len(x.Steps), c)
					}
					return x
				},
				func(x *sched.Exec) bool { return !r.OverBudget() },
				func(i int) bool {
					if i < 0 {
						return r.Shard == 0
					}
					return i%r.NShards == r.Shard
				})
			if !complete {
				r.Cap(fmt.Sprintf("Layer T %s: time budget reached after %d schedules", pg.name, n))
			}
			r.AddNote("sum_layerT_schedules", n)
			r.Note("max_layerT_points_"+pg.name, maxSteps)
		}
	}
	r.Note("layerT_deviation_bound", bound)
	r.Note("max_layerT_distinct_outcomes", len(outcomes))
}
