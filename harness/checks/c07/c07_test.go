// C07 — the DNS tunnel delivers every byte exactly once, in order.
//
// Engine B, two layers.
//
//	Layer A: the real ClientDnsConnection (full Handshake, poll loop running) and the real
//	server-side connection over the real NetConnectionClientCommunicator on an in-memory
//	datagram path with per-exchange fates {delivered, query lost, answer lost, query
//	duplicated, old query replayed}; scripts of client/server writes; fates placed on the
//	k-th exchange after a script step starts.
//	Layer B: the four real queue objects of a connection pair under a 6-line restatement of
//	the exchange glue: (i) ALL sequences up to a depth over {client write, server write,
//	exchange with each fate} from several starting sequence numbers around the 16-bit wrap,
//	(ii) long streams of more than 65 536 packets per direction (a full sequence-number
//	cycle) under periodic fault patterns.
//
// Oracle = two byte FIFOs: bytes read are a prefix of bytes accepted; after the fault-free
// closure everything accepted has arrived and every Write has returned; isolated losses do
// not surface as Write errors.
package c07

import (
	"bytes"
	"fmt"
	"reflect"
	"runtime"
	"strings"
	"sync"
	"testing"
	"time"
	"unsafe"

	sdns "github.com/bokysan/socketace/v2/internal/streams/dns"
	"github.com/bokysan/socketace/v2/internal/streams/dns/util"
	"github.com/bokysan/socketace/v2/internal/util/enc"
	"github.com/bokysan/socketace/v2/verifharness/bubble"
	"github.com/bokysan/socketace/v2/verifharness/mc"
	"github.com/bokysan/socketace/v2/verifharness/world"
)

// ---------------------------------------------------------------------------- Layer A ----

type OpA struct {
	Kind string `json:"k"` // cw | sw | tick
	N    int    `json:"n,omitempty"`
}

type FaultA struct {
	Step int `json:"step"` // script step after whose start the fault is placed
	K    int `json:"k"`    // the k-th exchange after that step starts (0-based)
	Fate int `json:"fate"`
	Len  int `json:"len,omitempty"` // >1: an outage, this many consecutive exchanges share the fate
}

type CaseA struct {
	Layer  string   `json:"layer"`
	Ops    []OpA    `json:"ops"`
	Faults []FaultA `json:"faults"`
	// Start: sequence number at which all four queues of the established session continue
	// (0 = as established); lets the real client and the real server handler cross the 16-bit wrap
	Start uint16 `json:"start,omitempty"`
}

func (c CaseA) String() string {
	var o []string
	for _, x := range c.Ops {
		if x.Kind == "tick" {
			o = append(o, "tick")
		} else {
			o = append(o, fmt.Sprintf("%s(%d)", x.Kind, x.N))
		}
	}
	var f []string
	for _, x := range c.Faults {
		if x.Len > 1 {
			f = append(f, fmt.Sprintf("%sx%d@step%d+%d", world.Fate(x.Fate), x.Len, x.Step, x.K))
		} else {
			f = append(f, fmt.Sprintf("%s@step%d+%d", world.Fate(x.Fate), x.Step, x.K))
		}
	}
	st := ""
	if c.Start != 0 {
		st = fmt.Sprintf(" start=%d", c.Start)
	}
	return fmt.Sprintf("A ops=[%s] faults=[%s]%s", strings.Join(o, " "), strings.Join(f, " "), st)
}

// side collects what one end of the tunnel read and the results of its writes.
type side struct {
	mu      sync.Mutex
	got     []byte
	rerr    string
	eof     bool
	writes  []wres
	queue   []func()
	running bool
}

// enqueue issues the write after all earlier writes of this side have returned (an
// application writes sequentially on one connection).
func (s *side) enqueue(write func([]byte) (int, error), data []byte) {
	s.mu.Lock()
	s.writes = append(s.writes, wres{data: data})
	i := len(s.writes) - 1
	s.queue = append(s.queue, func() {
		n, err := write(data)
		s.mu.Lock()
		s.writes[i].done, s.writes[i].n = true, n
		if err != nil {
			s.writes[i].err = err.Error()
		}
		s.mu.Unlock()
	})
	if !s.running {
		s.running = true
		go func() {
			for {
				s.mu.Lock()
				if len(s.queue) == 0 {
					s.running = false
					s.mu.Unlock()
					return
				}
				f := s.queue[0]
				s.queue = s.queue[1:]
				s.mu.Unlock()
				f()
			}
		}()
	}
	s.mu.Unlock()
}

type wres struct {
	data []byte
	done bool
	n    int
	err  string
}

func (s *side) reader(c interface{ Read([]byte) (int, error) }) {
	buf := make([]byte, 65536)
	for {
		n, err := c.Read(buf)
		s.mu.Lock()
		s.got = append(s.got, buf[:n]...)
		if err != nil {
			if err.Error() == "EOF" {
				s.eof = true
			} else {
				s.rerr = err.Error()
			}
			s.mu.Unlock()
			return
		}
		s.mu.Unlock()
	}
}

// accepted = concatenation of the first n bytes of every write, in order (n as returned)
func (s *side) accepted() (acc []byte, pending bool, errs []string) {
	s.mu.Lock()
	defer s.mu.Unlock()
	for _, w := range s.writes {
		if !w.done {
			pending = true
			// bytes of a write still in progress may or may not have been taken: they extend the
			// accepted stream as far as the reader has seen them (checked by the caller)
			acc = append(acc, w.data...)
			break
		}
		acc = append(acc, w.data[:w.n]...)
		if w.err != "" {
			errs = append(errs, w.err)
		}
	}
	return
}

func pattern(tag byte, off, n int) []byte {
	b := make([]byte, n)
	for i := range b {
		b[i] = byte((off+i)*31+7) ^ tag
	}
	return b
}

func executeA(t *testing.T, c CaseA) (kind, detail string) {
	res := bubble.Run(t, func() {
		w, err := world.New(world.Options{Carrier: "dns", Channels: []string{"x"}, DnsRaw: true})
		if err != nil {
			kind, detail = "setup", err.Error()
			return
		}
		cl, dg, err := w.Dns.NewClientConn()
		if err != nil {
			kind, detail = "setup", err.Error()
			return
		}
		hs := make(chan error, 1)
		go func() { hs <- cl.Handshake() }()
		bubble.Wait()
		bubble.Advance(3 * time.Second)
		select {
		case err := <-hs:
			if err != nil {
				kind, detail = "setup", "handshake on a fault-free path failed: "+err.Error()
				return
			}
		default:
			kind, detail = "setup", "handshake on a fault-free path did not finish"
			return
		}
		srv, err := w.Dns.Lis.Accept()
		if err != nil {
			kind, detail = "setup", err.Error()
			return
		}
		if c.Start != 0 {
			// the session is established and idle (the poller sleeps): continue all four queues at
			// Start, in the state a session is in that has carried Start packets each way - next
			// sequence number Start, acknowledgement memories holding the 128 numbers before it (the
			// "nothing received yet" acknowledgement 65535 of a new session has long expired by then;
			// the long runs below reach the wrap without this shortcut)
			bubble.Wait()
			sv := reflect.ValueOf(srv)
			if sv.Kind() != reflect.Ptr || !sv.Elem().FieldByName("in").IsValid() || !sv.Elem().FieldByName("out").IsValid() {
				kind, detail = "setup", fmt.Sprintf("server connection %T has no in/out queues", srv)
				return
			}
			cin, cout := cl.VerifQueues()
			sin := (*util.InQueue)(unsafe.Pointer(sv.Elem().FieldByName("in").UnsafeAddr()))
			sout := (*util.OutQueue)(unsafe.Pointer(sv.Elem().FieldByName("out").UnsafeAddr()))
			var recent []uint16
			for i := util.MaxCachedChunks; i >= 1; i-- {
				recent = append(recent, c.Start-uint16(i))
			}
			for _, q := range []interface{}{cin, cout, sin, sout} {
				f := reflect.ValueOf(q).Elem().FieldByName("acked")
				if !f.IsValid() {
					kind, detail = "setup", "queue without an acknowledgement memory"
					return
				}
				*(*[]uint16)(unsafe.Pointer(f.UnsafeAddr())) = append([]uint16{}, recent...)
			}
			cin.VerifSetNext(c.Start)
			cout.VerifSetNext(c.Start)
			sin.VerifSetNext(c.Start)
			sout.VerifSetNext(c.Start)
			// queries of the old epoch are not "old queries" of this one; a few idle polls give the
			// replay fates genuine recent queries to replay
			dg.ForgetHistory()
			bubble.Advance(5 * time.Second)
			bubble.Wait()
		}
		cs, ss := &side{}, &side{}
		go cs.reader(cl)
		go ss.reader(srv)
		// fault plan: exchange numbers are resolved when a step starts
		var fmu sync.Mutex
		plan := map[int]world.Fate{}
		w.Dns.Path.Fate = func(n int) world.Fate {
			fmu.Lock()
			defer fmu.Unlock()
			if f, ok := plan[n]; ok {
				return f
			}
			return world.Delivered
		}
		cOff, sOff := 0, 0
		startWrite := func(s *side, conn interface{ Write([]byte) (int, error) }, data []byte) {
			s.enqueue(conn.Write, data)
		}
		check := func(phase string, final bool) bool {
			for _, d := range []struct {
				name     string
				wr, rd   *side
				writerIs string
			}{{"client->server", cs, ss, "client"}, {"server->client", ss, cs, "server"}} {
				acc, pending, _ := d.wr.accepted()
				d.rd.mu.Lock()
				got := append([]byte{}, d.rd.got...)
				d.rd.mu.Unlock()
				if len(got) > len(acc) || !bytes.Equal(got, acc[:len(got)]) {
					i := 0
					for i < len(got) && i < len(acc) && got[i] == acc[i] {
						i++
					}
					kind, detail = "not-a-prefix|"+d.name, fmt.Sprintf("%s: bytes read (%d) are not a prefix of the bytes accepted (%d): first difference at offset %d", phase, len(got), len(acc), i)
					return false
				}
				if final {
					if pending {
						kind, detail = "write-never-returns|"+d.name, fmt.Sprintf("%s: a Write is still blocked after the fault-free closure", phase)
						return false
					}
					if len(got) != len(acc) {
						kind, detail = "accepted-not-delivered|"+d.name, fmt.Sprintf("%s: %d bytes were accepted by Write but only %d arrived after the path stopped losing", phase, len(acc), len(got))
						return false
					}
				}
			}
			return true
		}
		for si, op := range c.Ops {
			fmu.Lock()
			for _, f := range c.Faults {
				if f.Step == si {
					for j := 0; j < max(1, f.Len); j++ {
						plan[dg.Exchanges+1+f.K+j] = world.Fate(f.Fate)
					}
				}
			}
			fmu.Unlock()
			switch op.Kind {
			case "cw":
				startWrite(cs, cl, pattern(0x11, cOff, op.N))
				cOff += op.N
			case "sw":
				startWrite(ss, srv, pattern(0x80, sOff, op.N))
				sOff += op.N
			}
			bubble.Wait()
			bubble.Advance(1 * time.Second)
			if !check(fmt.Sprintf("after step %d", si), false) {
				return
			}
		}
		// closure: no more faults (the plan only names exchanges already past or about to pass)
		bubble.Advance(8 * time.Second)
		fmu.Lock()
		plan = map[int]world.Fate{}
		fmu.Unlock()
		for i := 0; i < 40; i++ {
			bubble.Advance(5 * time.Second)
			_, p1, _ := cs.accepted()
			_, p2, _ := ss.accepted()
			if !p1 && !p2 && i > 2 {
				break
			}
		}
		if !check("closure", true) {
			return
		}
		// absorption: isolated faults must not surface as failures (an outage may)
		if len(c.Faults) != 1 || c.Faults[0].Len > 1 {
			return
		}
		_, _, e1 := cs.accepted()
		_, _, e2 := ss.accepted()
		if world.Fate(c.Faults[0].Fate) == world.Foreign {
			return // a refusal is not a loss: the exchange it hits may fail visibly
		}
		if len(e1)+len(e2) > 0 {
			kind, detail = "isolated-loss-surfaced|"+world.Fate(c.Faults[0].Fate).String(), fmt.Sprintf("a Write returned an error although the only fault was isolated: client=%v server=%v", e1, e2)
			return
		}
		if cl.Closed() || cs.eof || ss.eof || cs.rerr != "" || ss.rerr != "" {
			kind, detail = "isolated-loss-closed-connection|"+world.Fate(c.Faults[0].Fate).String(), fmt.Sprintf("the connection ended after an isolated fault: clientClosed=%v eof=%v/%v err=%q/%q", cl.Closed(), cs.eof, ss.eof, cs.rerr, ss.rerr)
		}
	})
	if res.Panic != "" {
		kind, detail = "panic", res.Panic
	}
	return
}

// ---------------------------------------------------------------------------- Layer B ----

type pair struct {
	cIn, sIn   *util.InQueue
	cOut, sOut *util.OutQueue
	hist       []req // requests the client sent (for replays)
	cW, sW     *side // write bookkeeping
	cR, sR     []byte
	readBuf    int  // size of the reader's buffer (0 = 64 KiB)
	lazy       bool // the readers read only at the end (data accumulates in the in-queues)
}

type req struct {
	ack uint16
	pkt *util.Packet
}

func newPair(start uint16) *pair {
	p := &pair{cIn: &util.InQueue{}, sIn: &util.InQueue{}, cOut: &util.OutQueue{}, sOut: &util.OutQueue{}, cW: &side{}, sW: &side{}}
	p.cIn.VerifSetNext(start)
	p.sIn.VerifSetNext(start)
	p.cOut.VerifSetNext(start)
	p.sOut.VerifSetNext(start)
	return p
}

// serverHandle is ServerDnsListener.packet() without the session lookup.
func (p *pair) serverHandle(r req) (ack uint16, pkt *util.Packet, err error) {
	p.sOut.UpdateAcked(r.ack)
	if err = p.sIn.Append(r.pkt); err != nil {
		return
	}
	return p.sIn.NextSeqNo - 1, p.sOut.NextChunk(), nil
}

// exchange is ClientDnsConnection.SendAndReceive with the given fate of the DNS path.
func (p *pair) exchange(f world.Fate) error {
	r := req{ack: p.cIn.NextSeqNo - 1, pkt: p.cOut.NextChunk()}
	p.hist = append(p.hist, r)
	replay := func(back int) {
		if i := len(p.hist) - 1 - back; i >= 0 {
			p.serverHandle(p.hist[i])
		}
	}
	switch f {
	case world.QueryLost:
		return nil
	case world.Foreign:
		return nil // the server refuses before touching the session and the client drops the refusal: for the queues, a lost query
	case world.AnswerLost:
		p.serverHandle(r)
		return nil
	case world.QueryDup:
		a, pk, err := p.serverHandle(r)
		p.serverHandle(r)
		if err != nil {
			return err
		}
		p.cOut.UpdateAcked(a)
		return p.cIn.Append(pk)
	case world.Replay1:
		replay(1)
	case world.Replay2:
		replay(2)
	case world.Replay130:
		replay(130)
	}
	a, pk, err := p.serverHandle(r)
	if err != nil {
		return err
	}
	p.cOut.UpdateAcked(a)
	return p.cIn.Append(pk)
}

func (p *pair) drainReads() {
	buf := make([]byte, 65536)
	if p.readBuf > 0 {
		buf = make([]byte, p.readBuf)
	}
	for p.cIn.HasData() {
		n, _ := p.cIn.Read(buf)
		p.cR = append(p.cR, buf[:n]...)
	}
	for p.sIn.HasData() {
		n, _ := p.sIn.Read(buf)
		p.sR = append(p.sR, buf[:n]...)
	}
}

type CaseB struct {
	Layer string `json:"layer"`
	Start uint16 `json:"start"`
	Ops   string `json:"ops"` // c = client write, s = server write, 0..6 = exchange with that fate
	// long-run parameters (Layer "B-long")
	Packets int `json:"packets,omitempty"`
	Period  int `json:"period,omitempty"`
	Fate    int `json:"fate,omitempty"`
	// long run with ONE fault: the Try-th exchange of packet number At gets Fate (Period 0)
	At  int `json:"at,omitempty"`
	Try int `json:"try,omitempty"`
	// reader shape (Layer "B"): buffer size (0 = 64 KiB) and whether it reads only at the end
	ReadBuf int  `json:"read_buf,omitempty"`
	Lazy    bool `json:"lazy,omitempty"`
}

func (c CaseB) String() string {
	if c.Layer == "B-long" && c.At > 0 {
		return fmt.Sprintf("B-long start=%d packets=%d fate=%s at exchange %d of packet %d (seq %d)", c.Start, c.Packets, world.Fate(c.Fate), c.Try, c.At, uint16(int(c.Start)+c.At))
	}
	if c.Layer == "B-long" {
		return fmt.Sprintf("B-long start=%d packets=%d fate=%s every %d", c.Start, c.Packets, world.Fate(c.Fate), c.Period)
	}
	if c.ReadBuf > 0 || c.Lazy {
		return fmt.Sprintf("B start=%d ops=%s readbuf=%d lazy=%v", c.Start, c.Ops, c.ReadBuf, c.Lazy)
	}
	return fmt.Sprintf("B start=%d ops=%s", c.Start, c.Ops)
}

func (p *pair) write(s *side, q *util.OutQueue, data []byte) {
	s.enqueue(func(b []byte) (int, error) { return q.Write(b, 4) }, data)
}

func (p *pair) check(phase string, final bool) (string, string) {
	if final || !p.lazy {
		p.drainReads()
	}
	for _, d := range []struct {
		name string
		w    *side
		got  []byte
	}{{"client->server", p.cW, p.sR}, {"server->client", p.sW, p.cR}} {
		acc, pending, _ := d.w.accepted()
		if len(d.got) > len(acc) || !bytes.Equal(d.got, acc[:len(d.got)]) {
			i := 0
			for i < len(d.got) && i < len(acc) && d.got[i] == acc[i] {
				i++
			}
			return "not-a-prefix|" + d.name, fmt.Sprintf("%s: bytes read (%d) are not a prefix of the bytes accepted (%d): first difference at offset %d", phase, len(d.got), len(acc), i)
		}
		if final && pending {
			return "write-never-returns|" + d.name, fmt.Sprintf("%s: a Write is still blocked after the fault-free closure", phase)
		}
		if final && len(d.got) != len(acc) {
			return "accepted-not-delivered|" + d.name, fmt.Sprintf("%s: %d bytes were accepted by Write but only %d arrived after the path stopped losing", phase, len(acc), len(d.got))
		}
	}
	return "", ""
}

func executeB(t *testing.T, c CaseB) (kind, detail string, steps int) {
	res := bubble.Run(t, func() {
		p := newPair(c.Start)
		p.readBuf, p.lazy = c.ReadBuf, c.Lazy
		cOff, sOff := 0, 0
		for i, ch := range c.Ops {
			switch {
			case ch == 'c':
				p.write(p.cW, p.cOut, pattern(0x11, cOff, 6))
				cOff += 6
			case ch == 's':
				p.write(p.sW, p.sOut, pattern(0x80, sOff, 6))
				sOff += 6
			case ch == 'w' || ch == 'W':
				// the application's writer gives up waiting: a Write with a deadline that passes
				// before any exchange; what it reports as written stays queued and must arrive
				q, sd, tag, off := p.cOut, p.cW, byte(0x11), &cOff
				if ch == 'W' {
					q, sd, tag, off = p.sOut, p.sW, byte(0x80), &sOff
				}
				q.SetWriteDeadline(time.Now().Add(time.Second))
				p.write(sd, q, pattern(tag, *off, 6))
				*off += 6
				bubble.Advance(2 * time.Second)
				q.SetWriteDeadline(time.Time{})
			case ch == 'r' || ch == 'R':
				// the application's reader gives up waiting: a Read with a deadline that passes
				// (net.Conn contract); only meaningful when nothing is there to read
				in := p.cIn
				if ch == 'R' {
					in = p.sIn
				}
				if !in.HasData() {
					in.SetReadDeadline(time.Now().Add(time.Second))
					var n int
					var rerr error
					done := make(chan struct{})
					go func() { n, rerr = in.Read(make([]byte, 16)); close(done) }()
					bubble.Advance(2 * time.Second)
					select {
					case <-done:
						if n != 0 || rerr == nil {
							kind, detail = "timed-out-read-returned-data", fmt.Sprintf("step %d: Read on an empty queue returned %d bytes, err=%v", i, n, rerr)
							return
						}
					default:
						kind, detail = "read-deadline-ignored", fmt.Sprintf("step %d: Read is still blocked one second after its deadline", i)
						return
					}
					in.SetReadDeadline(time.Time{})
				}
			default:
				// an exchange must not block: it only moves packets between queues
				var xerr error
				done := make(chan struct{})
				f := world.Fate(ch - '0')
				go func() { xerr = p.exchange(f); close(done) }()
				bubble.Wait()
				select {
				case <-done:
				default:
					kind, detail = "exchange-blocked|"+f.String(), fmt.Sprintf("step %d: the exchange never finishes (a queue operation is blocked for good): client in %s / out %s; server in %s / out %s", i, p.cIn.VerifDump(), p.cOut.VerifDump(), p.sIn.VerifDump(), p.sOut.VerifDump())
					return
				}
				if xerr != nil {
					kind, detail = "exchange-error|"+f.String(), fmt.Sprintf("step %d: the server refused a packet of the ongoing stream: %v", i, xerr)
					return
				}
			}
			bubble.Wait()
			steps++
			if kind, detail = p.check(fmt.Sprintf("after step %d (%c)", i, ch), false); kind != "" {
				return
			}
		}
		for i := 0; i < 64; i++ {
			var xerr error
			done := make(chan struct{})
			go func() { xerr = p.exchange(world.Delivered); close(done) }()
			bubble.Wait()
			select {
			case <-done:
			default:
				kind, detail = "exchange-blocked|closure", fmt.Sprintf("closure exchange %d never finishes (a queue operation is blocked for good)", i)
				return
			}
			if xerr != nil {
				kind, detail = "exchange-error|closure", fmt.Sprintf("closure exchange %d: %v", i, xerr)
				return
			}
			steps++
		}
		kind, detail = p.check("closure", true)
	})
	if res.Panic != "" {
		kind, detail = "panic", res.Panic
	}
	return
}

// executeLong pushes more than a full sequence-number cycle through the real queues. It runs
// outside a bubble (synctest.Wait per packet would dominate): the only concurrency is the
// Write goroutine of each side, which is synchronised with by polling queue state.
func executeLong(t *testing.T, c CaseB) (kind, detail string, steps int) {
	defer func() {
		if p := recover(); p != nil {
			kind, detail = "panic", fmt.Sprint(p)
		}
	}()
	waitFor := func(cond func() bool) bool {
		for i := 0; i < 50000000; i++ {
			if cond() {
				return true
			}
			runtime.Gosched()
		}
		return false
	}
	lastDone := func(s *side) bool {
		s.mu.Lock()
		defer s.mu.Unlock()
		return len(s.writes) == 0 || s.writes[len(s.writes)-1].done
	}
	p := newPair(c.Start)
	cOff, sOff := 0, 0
	for i := 0; i < c.Packets; i++ {
		p.write(p.cW, p.cOut, pattern(0x11, cOff, 3))
		cOff += 3
		p.write(p.sW, p.sOut, pattern(0x80, sOff, 3))
		sOff += 3
		// each write queues exactly one chunk (3 bytes, mtu 4); a chunk that is retired at once by
		// a stale acknowledgement shows up as a finished write instead
		if !waitFor(func() bool { return p.cOut.VerifPending() > 0 || lastDone(p.cW) }) || !waitFor(func() bool { return p.sOut.VerifPending() > 0 || lastDone(p.sW) }) {
			return "write-never-queues|long", fmt.Sprintf("packet %d", i), steps
		}
		for tries := 0; tries < 12 && !(lastDone(p.cW) && lastDone(p.sW)); tries++ {
			f := world.Delivered
			steps++
			if c.Period > 0 && steps%c.Period == 0 {
				f = world.Fate(c.Fate)
			}
			if c.At > 0 && i == c.At && tries == c.Try {
				f = world.Fate(c.Fate)
			}
			if err := p.exchange(f); err != nil {
				return "exchange-error|long", fmt.Sprintf("packet %d: the server refused a packet of the ongoing stream: %v", i, err), steps
			}
			waitFor(func() bool {
				return (p.cOut.VerifPending() > 0 || lastDone(p.cW)) && (p.sOut.VerifPending() > 0 || lastDone(p.sW))
			})
		}
		if i%257 == 0 || i > c.Packets-200 || (i > 65400 && i < 65800) || (c.At > 0 && i >= c.At-2 && i < c.At+140) {
			if kind, detail = p.check(fmt.Sprintf("after packet %d", i), true); kind != "" {
				return kind + "|long", detail, steps
			}
		}
	}
	if kind, detail = p.check("end", true); kind != "" {
		kind += "|long"
	}
	return
}

// ---------------------------------------------------------------------------- driver -----

func isolated(fs []FaultA) bool { return len(fs) == 1 }

func casesA(thorough bool, f int) []CaseA {
	sizes := []int{1, f - 1, f, f + 1, 3 * f}
	var alphabet []OpA
	for _, n := range sizes {
		alphabet = append(alphabet, OpA{"cw", n}, OpA{"sw", n})
	}
	alphabet = append(alphabet, OpA{Kind: "tick"})
	maxOps := 2
	if thorough {
		maxOps = 3
	}
	var scripts [][]OpA
	var rec func(prefix []OpA)
	rec = func(prefix []OpA) {
		if len(prefix) > 0 {
			scripts = append(scripts, append([]OpA{}, prefix...))
		}
		if len(prefix) == maxOps {
			return
		}
		for _, o := range alphabet {
			if o.Kind == "tick" && (len(prefix) == 0 || prefix[len(prefix)-1].Kind == "tick") {
				continue
			}
			rec(append(prefix, o))
		}
	}
	rec(nil)
	var out []CaseA
	// every write size from 1 byte to a little over two fragments, each way, on a loss-free path
	// (what a size does to the encoded name / answer is codec arithmetic, not queue logic)
	for n := 1; n <= 2*f+2; n++ {
		out = append(out, CaseA{Layer: "A", Ops: []OpA{{"cw", n}}}, CaseA{Layer: "A", Ops: []OpA{{"sw", n}}})
	}
	// the real client and the real server handler across the 16-bit wrap: every script from the
	// three last sequence numbers, loss-free and with every single fault at the first exchanges
	for _, st := range []uint16{65533, 65534, 65535} {
		for _, s := range scripts {
			out = append(out, CaseA{Layer: "A", Ops: s, Start: st})
			if len(s) > 2 {
				continue
			}
			for step := range s {
				for k := 0; k < 2; k++ {
					for fate := 1; fate < int(world.NumFates); fate++ {
						out = append(out, CaseA{Layer: "A", Ops: s, Start: st, Faults: []FaultA{{Step: step, K: k, Fate: fate}}})
					}
				}
			}
		}
	}
	for _, s := range scripts {
		out = append(out, CaseA{Layer: "A", Ops: s})
		// outages: the path loses every query / answer for several consecutive exchanges, enough to
		// exhaust the client's five retransmissions, then recovers
		for step := range s {
			for k := 0; k < 2; k++ {
				for _, fate := range []int{int(world.QueryLost), int(world.AnswerLost)} {
					for _, l := range []int{5, 8} {
						out = append(out, CaseA{Layer: "A", Ops: s, Faults: []FaultA{{Step: step, K: k, Fate: fate, Len: l}}})
					}
				}
			}
		}
		for step := range s {
			for k := 0; k < 4; k++ {
				for fate := 1; fate < int(world.NumFates); fate++ {
					out = append(out, CaseA{Layer: "A", Ops: s, Faults: []FaultA{{Step: step, K: k, Fate: fate}}})
					if thorough && len(s) <= 2 {
						for k2 := k + 1; k2 < 4; k2++ {
							for fate2 := 1; fate2 <= 3; fate2++ {
								out = append(out, CaseA{Layer: "A", Ops: s, Faults: []FaultA{{Step: step, K: k, Fate: fate}, {Step: step, K: k2, Fate: fate2}}})
							}
						}
					}
				}
			}
		}
	}
	return out
}

func clientMTU() int {
	dc, _ := sdns.NewClientDnsConnection(world.DnsDomain, nil)
	// the upstream codec the handshake settles on for a transparent path is Base128
	dc.Serializer.Upstream.Encoder = enc.Base128Encoding
	return int(dc.VerifUpstreamMtu())
}

func TestCheck(t *testing.T) {
	r := mc.New(t, "C07")
	defer r.Finish()
	recA := func(c CaseA, kind, detail string) {
		r.Eval(1)
		r.Transition(len(c.Ops) + 2)
		r.State(mc.Hash("A", c.String(), kind))
		if len(c.Faults) > 0 {
			r.Nontrivial(mc.Hash(c.String()))
		}
		if kind != "" {
			r.Fail("A|"+kind, fmt.Sprintf("%s: %s", c, detail), len(c.Ops)*10+len(c.Faults), c)
		}
	}
	recB := func(c CaseB, kind, detail string, steps int) {
		r.Eval(1)
		r.Transition(steps)
		r.State(mc.Hash("B", c.String(), kind))
		r.Nontrivial(mc.Hash(c.String()))
		if kind != "" {
			start := "start=0"
			if c.Start != 0 {
				start = "start-near-wrap"
			}
			r.Fail("B|"+kind+"|"+start, fmt.Sprintf("%s: %s", c, detail), len(c.Ops)+c.Packets/1000, c)
		}
	}
	if r.Replay != nil {
		var probe struct {
			Layer string `json:"layer"`
		}
		r.DecodeReplay(&probe)
		switch probe.Layer {
		case "A-long":
			var c CaseALong
			r.DecodeReplay(&c)
			var k, d string
			r.SpinFails = true
			r.Guard(0, 900*time.Second, "hang|A-long", c.String(), c, func() { k, d = executeALong(t, c) })
			r.Eval(1)
			r.Transition(c.Packets)
			if k != "" {
				r.Fail("A|"+k, fmt.Sprintf("%s: %s", c, d), 1, c)
			}
		case "A-close":
			var c CaseClose
			r.DecodeReplay(&c)
			var k, d string
			r.SpinFails = true
			r.Guard(0, 120*time.Second, "hang|A-close", c.String(), c, func() { k, d = executeClose(t, c) })
			r.Eval(1)
			r.Transition(4)
			if k != "" {
				r.Fail("A|"+k, fmt.Sprintf("%s: %s", c, d), c.Up+c.Down, c)
			}
		case "T":
			var c CaseT
			r.DecodeReplay(&c)
			pg := progByName(c.Prog)
			if pg == nil {
				t.Fatalf("unknown program %q", c.Prog)
			}
			x, k, d := runT(t, pg, c.Start, c.Choices)
			r.Eval(1)
			r.Transition(len(x.Steps))
			if k != "" {
				r.Fail(k+"|"+pg.name, fmt.Sprintf("%s: %s", c, d), len(x.Steps), c)
			}
		case "A":
			var c CaseA
			r.DecodeReplay(&c)
			var k, d string
			r.SpinFails = true
			r.Guard(0, 120*time.Second, "hang|A", c.String(), c, func() { k, d = executeA(t, c) })
			recA(c, k, d)
		case "B-long":
			var c CaseB
			r.DecodeReplay(&c)
			k, d, s := executeLong(t, c)
			recB(c, k, d, s)
		default:
			var c CaseB
			r.DecodeReplay(&c)
			k, d, s := executeB(t, c)
			recB(c, k, d, s)
		}
		return
	}
	idx := 0
	// Layer A-long: real traffic across the wrap, each direction
	for _, dir := range []string{"down", "up"} {
		if r.Mine(idx) {
			c := CaseALong{Layer: "A-long", Dir: dir, Packets: 65836}
			var k, d string
			// ~60 s of real time on the pinned tree; slow is a hang (inconclusive), a harness step that never
			// returns while cores stay busy is a livelock (r.SpinFails, busy-loop violation)
			r.SpinFails = true
			r.Guard(idx, 900*time.Second, "hang|A-long", c.String(), c, func() { k, d = executeALong(t, c) })
			r.SpinFails = false
			r.Eval(1)
			r.Transition(c.Packets)
			r.State(mc.Hash("A-long", dir, k))
			r.Nontrivial(mc.Hash(c.String()))
			if k != "" {
				r.Fail("A|"+k, fmt.Sprintf("%s: %s", c, d), 1, c)
			}
		}
		idx++
	}
	// Layer B (i): all sequences up to the depth, from several starting sequence numbers
	depth := 5
	if r.Thorough() {
		depth = 6
	}
	alpha := "cs0123456"
	starts := []uint16{0, 65408, 65530, 65533, 65534, 65535}
	if r.Thorough() {
		starts = append(starts, 1, 32768, 65407, 65531, 65532)
	}
	for _, st := range starts {
		var rec func(prefix string)
		rec = func(prefix string) {
			if len(prefix) > 0 {
				if r.Mine(idx) {
					c := CaseB{Layer: "B", Start: st, Ops: prefix}
					k, d, s := executeB(t, c)
					recB(c, k, d, s)
					if idx%40009 == 0 {
						r.Sample(map[string]any{"case": c.String(), "outcome": k})
					}
				}
				idx++
			}
			if len(prefix) == depth || (!r.Thorough() && st != 0 && len(prefix) == depth-1) {
				return
			}
			for _, ch := range alpha {
				rec(prefix + string(ch))
			}
		}
		rec("")
	}
	// Layer B (i'): the same sequences (one level shallower) with readers whose buffer is smaller
	// than a chunk / than what has accumulated, reading at every step or only at the end
	for _, rb := range []struct {
		buf  int
		lazy bool
	}{{1, false}, {3, false}, {5, true}, {0, true}} {
		var rec func(prefix string)
		rec = func(prefix string) {
			if len(prefix) > 0 {
				if r.Mine(idx) {
					c := CaseB{Layer: "B", Start: 65533, Ops: prefix, ReadBuf: rb.buf, Lazy: rb.lazy}
					k, d, s := executeB(t, c)
					recB(c, k, d, s)
				}
				idx++
			}
			if len(prefix) == depth-1 {
				return
			}
			for _, ch := range alpha {
				rec(prefix + string(ch))
			}
		}
		rec("")
	}
	// Layer B (iv): readers that give up waiting (a Read whose deadline passes) anywhere in the
	// sequence: all sequences up to the depth over a reduced alphabet + {r, R}
	{
		alphaR := "cs02rRwW"
		var rec func(prefix string)
		rec = func(prefix string) {
			if strings.ContainsAny(prefix, "rRwW") {
				if r.Mine(idx) {
					c := CaseB{Layer: "B", Start: 65534, Ops: prefix}
					k, d, s := executeB(t, c)
					recB(c, k, d, s)
				}
				idx++
			}
			if len(prefix) == depth-1 {
				return
			}
			for _, ch := range alphaR {
				rec(prefix + string(ch))
			}
		}
		rec("")
	}
	// Layer B (ii): more than a full cycle of sequence numbers
	packets := 66200
	for _, st := range []uint16{0, 40000} {
		for _, pat := range [][2]int{{0, 0}, {1, 50}, {2, 127}, {3, 128}, {4, 129}, {6, 131}} {
			if r.Mine(idx) && !r.OverBudget() {
				c := CaseB{Layer: "B-long", Start: st, Packets: packets, Fate: pat[0], Period: pat[1]}
				var k, d string
				var s int
				r.Guard(idx, 600*time.Second, "hang|B-long", c.String(), c, func() { k, d, s = executeLong(t, c) })
				recB(c, k, d, s)
				r.Sample(map[string]any{"case": c.String(), "outcome": k})
			}
			idx++
		}
	}
	// Layer B (iii): ONE fault placed exactly at the wrap of the sequence number, with the
	// acknowledgement memory full (hundreds of packets before it): every fate x every packet
	// around the wrap x first / second exchange of that packet
	{
		type wr struct {
			start   uint16
			packets int
		}
		runs := []wr{{65000, 1200}}
		if r.Thorough() {
			runs = append(runs, wr{0, 66200}, wr{40000, 26000})
		}
		for _, w := range runs {
			wrapAt := 65536 - int(w.start)                     // packet number that carries sequence number 0
			for fate := 1; fate < int(world.Foreign); fate++ { // (a refused query never reaches the queues: Layer A has that fate)
				for at := wrapAt - 3; at <= wrapAt+2; at++ {
					for try := 0; try < 2; try++ {
						if r.Mine(idx) && !r.OverBudget() {
							c := CaseB{Layer: "B-long", Start: w.start, Packets: w.packets, Fate: fate, At: at, Try: try}
							var k, d string
							var s int
							r.Guard(idx, 600*time.Second, "hang|B-long", c.String(), c, func() { k, d, s = executeLong(t, c) })
							recB(c, k, d, s)
							if at == wrapAt && try == 0 {
								r.Sample(map[string]any{"case": c.String(), "outcome": k})
							}
						}
						idx++
					}
				}
			}
		}
	}
	// Layer T: thread interleavings of the real queues (Engine T)
	{
		bound := 2
		if r.Thorough() {
			bound = 3
		}
		layerT(t, r, bound)
	}
	// Layer A
	all := casesA(r.Thorough(), clientMTU())
	for _, c := range all {
		if r.Mine(idx) {
			if r.OverBudget() {
				r.Cap(fmt.Sprintf("time budget reached at execution %d", idx))
				break
			}
			var k, d string
			r.SpinFails = true // Layer A runs in bubbles: a harness step that never returns while cores stay busy is a livelock
			r.Guard(idx, 120*time.Second, "hang|A", c.String(), c, func() { k, d = executeA(t, c) })
			r.SpinFails = false
			recA(c, k, d)
			if idx%2003 == 0 {
				r.Sample(map[string]any{"case": c.String(), "outcome": k})
			}
			r.Progress(idx + 1)
		}
		idx++
	}
	// Layer A-close: close before the receiver has read
	for _, c := range casesClose(clientMTU()) {
		if r.Mine(idx) && !r.OverBudget() {
			c := c
			var k, d string
			r.SpinFails = true
			r.Guard(idx, 120*time.Second, "hang|A-close", c.String(), c, func() { k, d = executeClose(t, c) })
			r.SpinFails = false
			r.Eval(1)
			r.Transition(4)
			r.State(mc.Hash("A-close", c.String(), k))
			r.Nontrivial(mc.Hash(c.String()))
			if k != "" {
				r.Fail("A|"+k, fmt.Sprintf("%s: %s", c, d), c.Up+c.Down, c)
			}
		}
		idx++
	}
	r.Note("layerA_cases", len(all))
	r.Note("layerB_depth", depth)
	r.Note("layerB_long_packets", packets)
}
