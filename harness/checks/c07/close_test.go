package c07

// Layer A-close: what a Write reported as written must still arrive when the connection is
// closed before the receiving application has read it (the receiver is busy, back-pressured or
// simply late): data first, then end-of-stream. Real client and server tunnel connections,
// loss-free path, readers that start only after the close, with large and with tiny buffers.

import (
	"bytes"
	"fmt"
	"testing"
	"time"

	"github.com/bokysan/socketace/v2/verifharness/bubble"
	"github.com/bokysan/socketace/v2/verifharness/world"
)

type CaseClose struct {
	Layer  string `json:"layer"`  // "A-close"
	Up     int    `json:"up"`     // bytes the client writes before the close (0 = none)
	Down   int    `json:"down"`   // bytes the server writes before the close
	Closer string `json:"closer"` // client | server
	Buf    int    `json:"buf"`    // the late readers' buffer size
}

func (c CaseClose) String() string {
	return fmt.Sprintf("A-close up=%d down=%d closer=%s late readers with %d-byte buffers", c.Up, c.Down, c.Closer, c.Buf)
}

func casesClose(f int) []CaseClose {
	var out []CaseClose
	for _, n := range [][2]int{{1, 0}, {f, 0}, {3*f + 1, 0}, {4000, 0}, {0, 1}, {0, 5000}, {f, f}, {4000, 5000}} {
		for _, closer := range []string{"client", "server"} {
			for _, b := range []int{65536, 7} {
				out = append(out, CaseClose{"A-close", n[0], n[1], closer, b})
			}
		}
	}
	return out
}

func executeClose(t *testing.T, c CaseClose) (kind, detail string) {
	res := bubble.Run(t, func() {
		w, err := world.New(world.Options{Carrier: "dns", Channels: []string{"x"}, DnsRaw: true})
		if err != nil {
			kind, detail = "setup", err.Error()
			return
		}
		cl, _, err := w.Dns.NewClientConn()
		if err != nil {
			kind, detail = "setup", err.Error()
			return
		}
		hs := make(chan error, 1)
		go func() { hs <- cl.Handshake() }()
		bubble.Wait()
		bubble.Advance(3 * time.Second)
		select {
		case err := <-hs:
			if err != nil {
				kind, detail = "setup", "handshake on a fault-free path failed: "+err.Error()
				return
			}
		default:
			kind, detail = "setup", "handshake on a fault-free path did not finish"
			return
		}
		srv, err := w.Dns.Lis.Accept()
		if err != nil {
			kind, detail = "setup", err.Error()
			return
		}
		cs, ss := &side{}, &side{}
		if c.Up > 0 {
			cs.enqueue(cl.Write, pattern(0x11, 0, c.Up))
		}
		if c.Down > 0 {
			ss.enqueue(srv.Write, pattern(0x80, 0, c.Down))
		}
		// nobody reads yet; the writes return once everything is acknowledged (= sits in the peer's
		// in-queue)
		for i := 0; i < 60; i++ {
			bubble.Wait()
			bubble.Advance(2 * time.Second)
			_, p1, _ := cs.accepted()
			_, p2, _ := ss.accepted()
			if !p1 && !p2 {
				break
			}
		}
		accUp, pendUp, _ := cs.accepted()
		accDown, pendDown, _ := ss.accepted()
		if pendUp || pendDown {
			kind, detail = "write-never-returns|A-close", fmt.Sprintf("a Write on a loss-free path had not returned after 2 fake minutes (up pending=%v down pending=%v)", pendUp, pendDown)
			return
		}
		if c.Closer == "client" {
			go cl.Close()
		} else {
			go srv.Close()
		}
		bubble.Wait()
		bubble.Advance(30 * time.Second) // the peer learns of the close on its next poll
		// now the applications get round to reading
		readAll := func(r interface{ Read([]byte) (int, error) }) (got []byte, end string) {
			done := make(chan struct{})
			go func() {
				buf := make([]byte, c.Buf)
				for {
					n, err := r.Read(buf)
					got = append(got, buf[:n]...)
					if err != nil {
						end = err.Error()
						close(done)
						return
					}
				}
			}()
			bubble.Wait()
			bubble.Advance(30 * time.Second)
			select {
			case <-done:
			default:
				end = "still blocked"
			}
			return append([]byte{}, got...), end
		}
		gotS, endS := readAll(srv)
		gotC, endC := readAll(cl)
		switch {
		case !bytes.Equal(gotS, accUp):
			kind, detail = "accepted-not-delivered|client->server|A-close", fmt.Sprintf("the client's Write reported %d bytes written; after the close the server side read %d of them (then %q)", len(accUp), len(gotS), endS)
		case !bytes.Equal(gotC, accDown):
			kind, detail = "accepted-not-delivered|server->client|A-close", fmt.Sprintf("the server's Write reported %d bytes written; after the close the client read %d of them (then %q)", len(accDown), len(gotC), endC)
		case endS != "EOF" || endC != "EOF":
			kind, detail = "no-end-of-stream-after-close|A-close", fmt.Sprintf("after the %s closed: server-side read ended with %q, client-side read with %q", c.Closer, endS, endC)
		}
	})
	if kind == "" && res.Panic != "" {
		kind, detail = "panic|A-close", res.Panic
	}
	return
}
