package c13

// Reordered-delivery histories: two sessions on one server. Session A's upstream packets reach
// the server in every order the server's receive window allows (the server keeps out-of-order
// packets until the gap is filled), interleaved with in-order packets of session B at every
// position. The packets are genuine requests of their sessions, from their own addresses; only
// the order of arrival is the path's. Oracle: at every step each session's server-side stream
// is a prefix of what ITS client sent, in sequence order, and complete at the end.

import (
	"bytes"
	"fmt"
	"testing"
	"time"

	sdns "github.com/bokysan/socketace/v2/internal/streams/dns"
	"github.com/bokysan/socketace/v2/internal/streams/dns/commands"
	"github.com/bokysan/socketace/v2/internal/streams/dns/util"
	"github.com/bokysan/socketace/v2/internal/util/enc"
	"github.com/bokysan/socketace/v2/verifharness/bubble"
	"github.com/bokysan/socketace/v2/verifharness/world"
)

type ReorderCase struct {
	Family string `json:"family"` // "reorder"
	Script []int  `json:"script"` // 0..3: A's packet with that sequence offset; 10, 11: B's next packet
}

func (c ReorderCase) String() string {
	s := ""
	for _, e := range c.Script {
		if e >= 10 {
			s += " B"
		} else {
			s += fmt.Sprintf(" A+%d", e)
		}
	}
	return "reorder: packets arrive in the order" + s
}

func reorderCases(thorough bool) []ReorderCase {
	var perms [][]int
	var rec func(p []int, used int)
	rec = func(p []int, used int) {
		if len(p) == 4 {
			perms = append(perms, append([]int{}, p...))
			return
		}
		for i := 0; i < 4; i++ {
			if used&(1<<i) == 0 {
				rec(append(p, i), used|1<<i)
			}
		}
	}
	rec(nil, 0)
	var out []ReorderCase
	for _, p := range perms {
		// B's two packets at every pair of positions
		for i := 0; i <= 4; i++ {
			for j := i; j <= 4; j++ {
				if !thorough && (i+j)%2 == 1 {
					continue
				}
				var s []int
				for k := 0; k <= 4; k++ {
					if k == i {
						s = append(s, 10)
					}
					if k == j {
						s = append(s, 11)
					}
					if k < 4 {
						s = append(s, p[k])
					}
				}
				out = append(out, ReorderCase{"reorder", s})
			}
		}
	}
	return out
}

var reorderSizes = []int{40, 10, 50, 12}

func executeReorder(t *testing.T, c ReorderCase) (kind, detail string) {
	res := bubble.Run(t, func() {
		w, err := world.New(world.Options{Carrier: "dns", Channels: []string{"x"}, DnsRaw: true})
		if err != nil {
			kind, detail = "setup", err.Error()
			return
		}
		lis := w.Dns.Lis
		mk := func(port int) *sdns.ClientDnsConnection {
			cl, _, err := w.Dns.NewClientConnPort(port)
			if err != nil {
				kind, detail = "setup", err.Error()
				return nil
			}
			qt := util.QueryTypeNull
			cl.Serializer.Upstream.QueryType = &qt
			cl.Serializer.Upstream.Encoder = enc.Base32Encoding
			cl.Serializer.Downstream.Encoder = enc.Base32Encoding
			cl.Serializer.Upstream.FragmentSize = 60
			var herr error
			do(func() { herr = cl.VersionHandshake() })
			if herr != nil {
				kind, detail = "setup", "hello: "+herr.Error()
				return nil
			}
			return cl
		}
		A, B := mk(4100), mk(4200)
		if A == nil || B == nil {
			return
		}
		type side struct {
			cl   *sdns.ClientDnsConnection
			got  []byte
			want []byte
			name string
		}
		sides := []*side{{cl: A, name: "A"}, {cl: B, name: "B"}}
		for _, s := range sides {
			conn := lis.VerifUserConn(s.cl.VerifUserId())
			if conn == nil {
				kind, detail = "setup", "no server-side connection"
				return
			}
			s := s
			go func() {
				buf := make([]byte, 4096)
				for {
					n, err := conn.Read(buf)
					s.got = append(s.got, buf[:n]...)
					if err != nil {
						return
					}
				}
			}()
		}
		payload := func(tag byte, n int) []byte {
			b := make([]byte, n)
			for i := range b {
				b[i] = tag + byte(i%16)
			}
			return b
		}
		var aData [4][]byte
		for i := range aData {
			aData[i] = payload(byte(0x40+0x10*i), reorderSizes[i])
			sides[0].want = append(sides[0].want, aData[i]...)
		}
		bData := [][]byte{payload(0xB0, 10), payload(0xC0, 45)}
		sides[1].want = append(append([]byte{}, bData[0]...), bData[1]...)
		send := func(s *side, seq uint16, data []byte) {
			req := &commands.PacketRequest{UserId: s.cl.VerifUserId(), LastAckedSeqNo: 0xFFFF, Packet: &util.Packet{SeqNo: seq, Data: data}}
			m, err := s.cl.Serializer.EncodeDnsRequest(req)
			if err != nil {
				kind, detail = "setup", "encode: "+err.Error()
				return
			}
			do(func() { s.cl.Communicator.SendAndReceive(m, nil) })
		}
		check := func(phase string) bool {
			bubble.Wait()
			for _, s := range sides {
				if len(s.got) > len(s.want) || !bytes.Equal(s.got, s.want[:len(s.got)]) {
					i := 0
					for i < len(s.got) && i < len(s.want) && s.got[i] == s.want[i] {
						i++
					}
					other := sides[0]
					if s == sides[0] {
						other = sides[1]
					}
					foreign := ""
					if i < len(s.got) && bytes.Contains(other.want, s.got[i:min(len(s.got), i+4)]) {
						foreign = " - the bytes there are session " + other.name + "'s"
					}
					kind, detail = "foreign-or-reordered-bytes|reorder", fmt.Sprintf("%s: the server-side stream of session %s deviates from what its client sent at offset %d (of %d delivered)%s", phase, s.name, i, len(s.got), foreign)
					return false
				}
			}
			return true
		}
		nb := 0
		for i, e := range c.Script {
			if e >= 10 {
				send(sides[1], uint16(nb), bData[nb])
				nb++
			} else {
				send(sides[0], uint16(e), aData[e])
			}
			if kind != "" || !check(fmt.Sprintf("after arrival %d", i+1)) {
				return
			}
		}
		bubble.Advance(time.Second)
		if !check("at the end") {
			return
		}
		for _, s := range sides {
			if len(s.got) != len(s.want) {
				kind, detail = "data-lost|reorder", fmt.Sprintf("session %s: %d of %d bytes delivered after every packet had arrived", s.name, len(s.got), len(s.want))
				return
			}
		}
	})
	if kind == "" && res.Panic != "" {
		kind, detail = "panic|reorder", res.Panic
	}
	return
}
