package c13

// Same-address histories: a peer whose earlier session (closed by the client, closed by the
// server application, or expired) is followed by a NEW session from the same ip:port, which
// gets the recycled id. Whatever is still done with the earlier session's server-side object
// afterwards (the server application closing it late) must not cost the new session its life.
// A bystander session from another address occupies slot 0 throughout.

import (
	"bytes"
	"fmt"
	"testing"
	"time"

	sdns "github.com/bokysan/socketace/v2/internal/streams/dns"
	"github.com/bokysan/socketace/v2/internal/streams/dns/util"
	"github.com/bokysan/socketace/v2/internal/util/enc"
	"github.com/bokysan/socketace/v2/verifharness/bubble"
	"github.com/bokysan/socketace/v2/verifharness/world"
)

type SameAddrCase struct {
	Family     string `json:"family"`      // "same-address"
	End        string `json:"end"`         // how the earlier session ended: client-close | server-close | expired
	StaleClose bool   `json:"stale_close"` // the server application closes the earlier session's object after the new one exists
	UpBefore   bool   `json:"up_before"`   // the earlier session carried data
}

func (c SameAddrCase) String() string {
	return fmt.Sprintf("same-address: earlier session ended by %s (carried data: %v), new session from the same ip:port, late close of the earlier server-side object: %v", c.End, c.UpBefore, c.StaleClose)
}

func sameAddrCases() []SameAddrCase {
	var out []SameAddrCase
	for _, end := range []string{"client-close", "server-close", "expired"} {
		for _, stale := range []bool{false, true} {
			for _, up := range []bool{false, true} {
				out = append(out, SameAddrCase{"same-address", end, stale, up})
			}
		}
	}
	return out
}

func executeSameAddr(t *testing.T, c SameAddrCase) (kind, detail string) {
	res := bubble.Run(t, func() {
		w, err := world.New(world.Options{Carrier: "dns", Channels: []string{"x"}, DnsRaw: true})
		if err != nil {
			kind, detail = "setup", err.Error()
			return
		}
		lis := w.Dns.Lis
		mk := func(port int) *sdns.ClientDnsConnection {
			cl, _, err := w.Dns.NewClientConnPort(port)
			if err != nil {
				kind, detail = "setup", err.Error()
				return nil
			}
			qt := util.QueryTypeNull
			cl.Serializer.Upstream.QueryType = &qt
			cl.Serializer.Upstream.Encoder = enc.Base32Encoding
			cl.Serializer.Downstream.Encoder = enc.Base32Encoding
			cl.Serializer.Upstream.FragmentSize = 60
			return cl
		}
		hello := func(cl *sdns.ClientDnsConnection, who string) bool {
			var err error
			do(func() { err = cl.VersionHandshake() })
			if err != nil {
				kind, detail = "hello-refused|same-address", fmt.Sprintf("%s: %v; slots: %s", who, err, lis.VerifSnapshot(false))
				return false
			}
			return true
		}
		Z := mk(4000)
		if Z == nil || !hello(Z, "bystander") {
			return
		}
		A := mk(5000)
		if A == nil || !hello(A, "earlier session") {
			return
		}
		aConn := lis.VerifUserConn(A.VerifUserId())
		if c.UpBefore {
			var err error
			do(func() { _, err = A.Write([]byte{0xA1, 0xA1, 0xA1}) })
			if err != nil {
				kind, detail = "setup", "earlier session's write: "+err.Error()
				return
			}
		}
		switch c.End {
		case "client-close":
			do(func() { A.Close() })
		case "server-close":
			do(func() { aConn.Close() })
		case "expired":
			for m := 0; m < 7; m++ {
				bubble.Advance(time.Minute)
				var err error
				do(func() { err = Z.SendAndReceive(nil) })
				if err != nil {
					kind, detail = "live-session-terminated|keepalive|same-address", "the bystander, which polls every minute, was refused: "+err.Error()
					return
				}
			}
		}
		B := mk(5000) // same ip:port as the earlier session
		if B == nil || !hello(B, "new session from the same address") {
			return
		}
		bConn := lis.VerifUserConn(B.VerifUserId())
		if bConn == nil {
			kind, detail = "hello-without-slot|same-address", "no live slot for the id handed to the new session"
			return
		}
		var bGot []byte
		go func() {
			buf := make([]byte, 4096)
			for {
				n, err := bConn.Read(buf)
				bGot = append(bGot, buf[:n]...)
				if err != nil {
					return
				}
			}
		}()
		if c.StaleClose {
			do(func() { aConn.Close() })
		}
		// the new session must work: two transfers up, one down, a poll
		var sent []byte
		for i := 0; i < 2; i++ {
			data := []byte{0xB2, byte(i), 0xB2}
			var err error
			do(func() { _, err = B.Write(data) })
			if err != nil {
				kind, detail = "live-session-terminated|same-address", fmt.Sprintf("the new session (id %d) was refused (%v) although only the EARLIER session of that address was ended; slots: %s", B.VerifUserId(), err, lis.VerifSnapshot(false))
				return
			}
			sent = append(sent, data...)
		}
		go bConn.Write([]byte{0xD4, 0xD4})
		bubble.Wait()
		var e1, e2 error
		do(func() { e1 = B.SendAndReceive(nil) })
		do(func() { e2 = B.SendAndReceive(nil) })
		if e1 != nil || e2 != nil {
			kind, detail = "live-session-terminated|same-address", fmt.Sprintf("a poll of the new session was refused: %v / %v", e1, e2)
			return
		}
		in, _ := B.VerifQueues()
		var down []byte
		buf := make([]byte, 64)
		for in.HasData() {
			n, _ := in.Read(buf)
			down = append(down, buf[:n]...)
		}
		bubble.Wait()
		switch {
		case !bytes.Equal(bGot, sent):
			kind, detail = "data-not-delivered|same-address", fmt.Sprintf("server side of the new session read % x, its client wrote % x", bGot, sent)
		case !bytes.Equal(down, []byte{0xD4, 0xD4}):
			kind, detail = "data-not-delivered|same-address", fmt.Sprintf("the new session's client read % x, the server wrote d4 d4", down)
		}
	})
	if kind == "" && res.Panic != "" {
		kind, detail = "panic|same-address", res.Panic
	}
	return
}
