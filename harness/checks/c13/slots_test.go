package c13

// Slot histories: every sequence of up to 6 (thorough: 4 clients, up to 7) connect / disconnect
// toggles of 3 clients with distinct addresses, a new source port per connection (the refusal of
// an id-less request from the very ip:port of slot 0's closed session is the known quirk noted
// in DESIGN 9.3) (a toggle connects a client that has no session
// and closes the session of one that has). After every step: the live sessions hold pairwise
// different identifiers, every live session's poll is accepted, and at the end a byte sent by
// each live client arrives on the server-side connection of ITS identifier.

import (
	"fmt"
	"testing"

	sdns "github.com/bokysan/socketace/v2/internal/streams/dns"
	"github.com/bokysan/socketace/v2/internal/streams/dns/util"
	"github.com/bokysan/socketace/v2/internal/util/enc"
	"github.com/bokysan/socketace/v2/verifharness/bubble"
	"github.com/bokysan/socketace/v2/verifharness/world"
)

type SlotCase struct {
	Family  string `json:"family"` // "slots"
	Clients int    `json:"clients"`
	Toggles []int  `json:"toggles"`
}

func (c SlotCase) String() string {
	return fmt.Sprintf("slot history: %d clients, connect/disconnect toggles %v", c.Clients, c.Toggles)
}

func slotCases(thorough bool) []SlotCase {
	clients, depth := 3, 6
	if thorough {
		clients, depth = 4, 7
	}
	var out []SlotCase
	var rec func(p []int)
	rec = func(p []int) {
		if len(p) >= 3 {
			out = append(out, SlotCase{"slots", clients, append([]int{}, p...)})
		}
		if len(p) == depth {
			return
		}
		// canonical: a client is first used only after all lower-numbered ones
		used := 0
		for _, x := range p {
			if x+1 > used {
				used = x + 1
			}
		}
		for i := 0; i < clients && i <= used; i++ {
			rec(append(p, i))
		}
	}
	rec(nil)
	// only maximal histories are run (every prefix is checked on the way)
	var maximal []SlotCase
	for _, c := range out {
		if len(c.Toggles) == depth {
			maximal = append(maximal, c)
		}
	}
	return maximal
}

func executeSlots(t *testing.T, c SlotCase) (kind, detail string) {
	res := bubble.Run(t, func() {
		w, err := world.New(world.Options{Carrier: "dns", Channels: []string{"x"}, DnsRaw: true})
		if err != nil {
			kind, detail = "setup", err.Error()
			return
		}
		lis := w.Dns.Lis
		live := make([]*sdns.ClientDnsConnection, c.Clients)
		for step, i := range c.Toggles {
			phase := fmt.Sprintf("after step %d of %v", step+1, c.Toggles)
			if live[i] == nil {
				cl, _, err := w.Dns.NewClientConnPort(4300 + 100*i + step) // a new socket (new source port) per connection, as a real client has
				if err != nil {
					kind, detail = "setup", err.Error()
					return
				}
				qt := util.QueryTypeNull
				cl.Serializer.Upstream.QueryType = &qt
				cl.Serializer.Upstream.Encoder = enc.Base32Encoding
				cl.Serializer.Downstream.Encoder = enc.Base32Encoding
				cl.Serializer.Upstream.FragmentSize = 60
				var herr error
				do(func() { herr = cl.VersionHandshake() })
				if herr != nil {
					kind, detail = "hello-refused|slots", fmt.Sprintf("%s: client %d: %v; slots: %s", phase, i, herr, lis.VerifSnapshot(false))
					return
				}
				live[i] = cl
			} else {
				do(func() { live[i].Close() })
				live[i] = nil
			}
			ids := map[uint16]int{}
			for j, cl := range live {
				if cl == nil {
					continue
				}
				if k, dup := ids[cl.VerifUserId()]; dup {
					kind, detail = "duplicate-session-id|slots", fmt.Sprintf("%s: clients %d and %d are both alive and both hold identifier %d; slots: %s", phase, k, j, cl.VerifUserId(), lis.VerifSnapshot(false))
					return
				}
				ids[cl.VerifUserId()] = j
				var perr error
				do(func() { perr = cl.SendAndReceive(nil) })
				if perr != nil {
					kind, detail = "live-session-terminated|slots", fmt.Sprintf("%s: the poll of client %d (id %d), whose session nobody closed, was refused: %v; slots: %s", phase, j, cl.VerifUserId(), perr, lis.VerifSnapshot(false))
					return
				}
			}
		}
		for j, cl := range live {
			if cl == nil {
				continue
			}
			conn := lis.VerifUserConn(cl.VerifUserId())
			if conn == nil {
				kind, detail = "live-session-terminated|slots", fmt.Sprintf("no server-side connection for client %d (id %d)", j, cl.VerifUserId())
				return
			}
			var got []byte
			go func() {
				b := make([]byte, 16)
				n, _ := conn.Read(b)
				got = b[:n]
			}()
			data := []byte{0xE0 + byte(j), 0x55, byte(j)}
			var werr error
			do(func() { _, werr = cl.Write(data) })
			bubble.Wait()
			if werr != nil || string(got) != string(data) {
				kind, detail = "foreign-or-reordered-bytes|slots", fmt.Sprintf("client %d (id %d) wrote % x (err %v); the server-side connection of that id read % x", j, cl.VerifUserId(), data, werr, got)
				return
			}
		}
	})
	if kind == "" && res.Panic != "" {
		kind, detail = "panic|slots", res.Panic
	}
	return
}

// executeSlotsFull fills the session table: clients with distinct addresses connect until the server
// refuses one (or 1500 were accepted). Every accepted client must have been told an identifier no
// other live client holds, and the first and last three of them must each reach the server-side
// connection of their own identifier.
func executeSlotsFull(t *testing.T) (kind, detail string, accepted int) {
	res := bubble.Run(t, func() {
		w, err := world.New(world.Options{Carrier: "dns", Channels: []string{"x"}, DnsRaw: true})
		if err != nil {
			kind, detail = "setup", err.Error()
			return
		}
		lis := w.Dns.Lis
		var live []*sdns.ClientDnsConnection
		ids := map[uint16]int{}
		for i := 0; i < 1500; i++ {
			cl, _, err := w.Dns.NewClientConnPort(4300 + i)
			if err != nil {
				kind, detail = "setup", err.Error()
				return
			}
			qt := util.QueryTypeNull
			cl.Serializer.Upstream.QueryType = &qt
			cl.Serializer.Upstream.Encoder = enc.Base32Encoding
			cl.Serializer.Downstream.Encoder = enc.Base32Encoding
			cl.Serializer.Upstream.FragmentSize = 60
			var herr error
			do(func() { herr = cl.VersionHandshake() })
			if herr != nil {
				break // the table is full: a reported refusal
			}
			if k, dup := ids[cl.VerifUserId()]; dup {
				kind, detail = "duplicate-session-id|slots-full", fmt.Sprintf("clients %d and %d are both alive and were both told identifier %d (%d sessions live)", k, i, cl.VerifUserId(), len(live))
				return
			}
			ids[cl.VerifUserId()] = i
			live = append(live, cl)
		}
		accepted = len(live)
		if accepted < 2 {
			kind, detail = "setup", fmt.Sprintf("only %d sessions accepted", accepted)
			return
		}
		pick := []int{0, 1, 2, accepted - 3, accepted - 2, accepted - 1}
		for _, j := range pick {
			if j < 0 || j >= accepted {
				continue
			}
			cl := live[j]
			var perr error
			do(func() { perr = cl.SendAndReceive(nil) })
			if perr != nil {
				kind, detail = "live-session-terminated|slots-full", fmt.Sprintf("with %d sessions live the poll of client %d (id %d) was refused: %v", accepted, j, cl.VerifUserId(), perr)
				return
			}
			conn := lis.VerifUserConn(cl.VerifUserId())
			if conn == nil {
				kind, detail = "live-session-terminated|slots-full", fmt.Sprintf("no server-side connection for client %d (id %d)", j, cl.VerifUserId())
				return
			}
			var got []byte
			go func() {
				b := make([]byte, 16)
				n, _ := conn.Read(b)
				got = b[:n]
			}()
			data := []byte{0xE0 + byte(j%16), 0x55, byte(j), byte(j >> 8)}
			var werr error
			do(func() { _, werr = cl.Write(data) })
			bubble.Wait()
			if werr != nil || string(got) != string(data) {
				kind, detail = "foreign-or-reordered-bytes|slots-full", fmt.Sprintf("with %d sessions live client %d (id %d) wrote % x (err %v); the server-side connection of that id read % x", accepted, j, cl.VerifUserId(), data, werr, got)
				return
			}
		}
	})
	if kind == "" && res.Panic != "" {
		kind, detail = "panic|slots-full", res.Panic
	}
	return
}
