// C13 — DNS tunnel sessions are isolated from each other and from spoofers.
//
// Engine B, explicit state: k real ClientDnsConnection sessions from distinct addresses on
// one real ServerDnsListener (message path in memory, fake clock). Breadth-first search
// over the state-changing operations {hello, transfer up/down, close, advance the clock
// while a subset of the sessions keeps exchanging}; the state key is the listener's own
// slot-table dump (hook) plus the model's view of each session. In EVERY state reached
// the probes are executed: every spoofed command with every enumerated seq/ack variant
// against every live session from a foreign address, re-use of every closed identifier,
// and a liveness exchange of every session the model expects to be alive.
package c13

import (
	"bytes"
	"fmt"
	"strings"
	"testing"
	"time"

	sdns "github.com/bokysan/socketace/v2/internal/streams/dns"
	"github.com/bokysan/socketace/v2/internal/streams/dns/commands"
	"github.com/bokysan/socketace/v2/internal/streams/dns/util"
	"github.com/bokysan/socketace/v2/internal/util/enc"
	"github.com/bokysan/socketace/v2/verifharness/bubble"
	"github.com/bokysan/socketace/v2/verifharness/mc"
	"github.com/bokysan/socketace/v2/verifharness/world"
)

type Op struct {
	Kind    string `json:"k"` // hello | up | down | close | srvclose | advance
	S       int    `json:"s"`
	Min     int    `json:"min,omitempty"`     // advance: minutes
	Keepers int    `json:"keepers,omitempty"` // advance: bit set of sessions that poll every minute meanwhile
}

func (o Op) String() string {
	if o.Kind == "advance" {
		return fmt.Sprintf("advance(%dmin,keep=%b)", o.Min, o.Keepers)
	}
	return fmt.Sprintf("%s(%d)", o.Kind, o.S)
}

type Probe struct {
	Kind    string `json:"kind"` // spoof-packet | spoof-options | spoof-upprobe | spoof-fragprobe | reuse | alive
	Victim  int    `json:"victim"`
	AckD    int    `json:"ackd"` // ack = victim's expected ack + AckD
	SeqD    int    `json:"seqd"` // packet seq = victim's next in-seq + SeqD; -100 = no packet
	Variant int    `json:"variant"`
}

type Case struct {
	K     int    `json:"k"`
	Ops   []Op   `json:"ops"`
	Probe *Probe `json:"probe,omitempty"`
}

func (c Case) String() string {
	var s []string
	for _, o := range c.Ops {
		s = append(s, o.String())
	}
	p := ""
	if c.Probe != nil {
		p = fmt.Sprintf(" probe=%+v", *c.Probe)
	}
	return fmt.Sprintf("k=%d [%s]%s", c.K, strings.Join(s, " "), p)
}

type sess struct {
	cl      *sdns.ClientDnsConnection
	id      uint16
	status  string // none | live | closed | maybe-expired
	srvGot  []byte // what the server side of this session read
	srvConn interface {
		Write([]byte) (int, error)
		Close() error
	}
	oldSrv   []interface{ Close() error } // server-side connection objects of earlier incarnations of this model session
	cliGot   []byte
	upSent   []byte
	downSent []byte
	lastC    time.Time // last contact (model)
	closedAt time.Time
}

type run struct {
	w        *world.World
	ss       []*sess
	spoofer  *sdns.ClientDnsConnection
	kind     string
	detail   string
	startKey string
}

func (r *run) fail(kind, detail string) {
	if r.kind == "" {
		r.kind, r.detail = kind, detail
	}
}

func newClient(w *world.World) (*sdns.ClientDnsConnection, error) {
	cl, _, err := w.Dns.NewClientConn()
	if err != nil {
		return nil, err
	}
	qt := util.QueryTypeNull
	cl.Serializer.Upstream.QueryType = &qt
	cl.Serializer.Upstream.Encoder = enc.Base32Encoding
	cl.Serializer.Downstream.Encoder = enc.Base32Encoding
	cl.Serializer.Upstream.FragmentSize = 60
	return cl, nil
}

func tagBytes(s, dir, off int) []byte {
	b := make([]byte, 5)
	for i := range b {
		b[i] = byte(0x20*(s+1) + 0x08*dir + (off+i)%8)
	}
	return b
}

// do runs f in a goroutine and waits for quiescence.
func do(f func()) {
	done := make(chan struct{})
	go func() { f(); close(done) }()
	bubble.Wait()
	select {
	case <-done:
	default:
		bubble.Advance(8 * time.Second) // let retransmission timers run out
	}
}

func (r *run) drain(s *sess) {
	if s.srvConn == nil {
		return
	}
}

func (r *run) poll(s *sess) error {
	var err error
	do(func() { err = s.cl.SendAndReceive(nil) })
	return err
}

func (r *run) readClient(s *sess) {
	in, _ := s.cl.VerifQueues()
	buf := make([]byte, 4096)
	for in.HasData() {
		n, _ := in.Read(buf)
		s.cliGot = append(s.cliGot, buf[:n]...)
	}
}

func (r *run) apply(i int, o Op) {
	now := time.Now()
	switch o.Kind {
	case "hello":
		s := r.ss[o.S]
		cl, err := newClient(r.w)
		if err != nil {
			r.fail("setup", err.Error())
			return
		}
		do(func() { err = cl.VersionHandshake() })
		if err != nil {
			r.fail("hello-refused", fmt.Sprintf("step %d %v: %v", i, o, err))
			return
		}
		if s.srvConn != nil {
			s.oldSrv = append(s.oldSrv, s.srvConn)
		}
		s.cl, s.id, s.status, s.lastC = cl, cl.VerifUserId(), "live", now
		s.srvGot, s.cliGot, s.upSent, s.downSent = nil, nil, nil, nil
		conn := r.w.Dns.Lis.VerifUserConn(s.id)
		if conn == nil {
			r.fail("hello-without-slot", fmt.Sprintf("step %d %v: server has no live slot for the id it handed out (%d)", i, o, s.id))
			return
		}
		s.srvConn = conn
		ss := s
		go func() {
			buf := make([]byte, 4096)
			for {
				n, err := conn.Read(buf)
				ss.srvGot = append(ss.srvGot, buf[:n]...)
				if err != nil {
					return
				}
			}
		}()
		for j, t := range r.ss {
			if j != o.S && t.status == "live" && t.id == s.id {
				r.fail("duplicate-session-id", fmt.Sprintf("step %d %v: sessions %d and %d are both live with id %d", i, o, j, o.S, s.id))
			}
		}
	case "up":
		s := r.ss[o.S]
		data := tagBytes(o.S, 0, len(s.upSent))
		var err error
		do(func() { _, err = s.cl.Write(data) })
		if s.status == "live" {
			if err != nil {
				r.fail("live-session-terminated|up", fmt.Sprintf("step %d %v: write on a session that kept exchanging failed: %v", i, o, err))
				return
			}
			s.upSent = append(s.upSent, data...)
			s.lastC = now
		} else {
			// a session the server MAY have aged out may as well still be served: the bytes are
			// its own client's, so they are allowed (not required) to arrive
			s.upSent = append(s.upSent, data...)
		}
	case "down":
		s := r.ss[o.S]
		data := tagBytes(o.S, 1, len(s.downSent))
		conn := s.srvConn
		go conn.Write(data)
		bubble.Wait()
		e1 := r.poll(s)
		e2 := r.poll(s)
		r.readClient(s)
		if s.status == "live" {
			if e1 != nil || e2 != nil {
				r.fail("live-session-terminated|down", fmt.Sprintf("step %d %v: poll on a session that kept exchanging failed: %v / %v", i, o, e1, e2))
				return
			}
			s.downSent = append(s.downSent, data...)
			s.lastC = now
		} else {
			s.downSent = append(s.downSent, data...) // allowed, not required, to arrive (see "up")
		}
	case "close":
		s := r.ss[o.S]
		do(func() { s.cl.Close() })
		s.status, s.closedAt = "closed", now
	case "srvclose":
		// the server application closes ITS end of a session object it got from Accept - the
		// current one, or (after the client closed / the slot was recycled) a stale one
		s := r.ss[o.S]
		if s.status == "live" {
			do(func() { s.srvConn.Close() })
			s.status, s.closedAt = "closed", now
		} else {
			for _, c := range append(append([]interface{ Close() error }{}, s.oldSrv...), s.srvConn) {
				if c != nil {
					cc := c
					do(func() { cc.Close() })
				}
			}
		}
	case "advance":
		for m := 0; m < o.Min; m++ {
			bubble.Advance(time.Minute)
			for j, s := range r.ss {
				if o.Keepers&(1<<j) != 0 && (s.status == "live") {
					if err := r.poll(s); err != nil {
						r.fail("live-session-terminated|keepalive", fmt.Sprintf("step %d %v minute %d: session %d (id %d), which exchanges every minute, was refused: %v; slots: %s", i, o, m+1, j, s.id, err, r.w.Dns.Lis.VerifSnapshot(false)))
						return
					}
					s.lastC = time.Now()
				}
			}
		}
		for _, s := range r.ss {
			if s.status == "live" && time.Since(s.lastC) >= 5*time.Minute {
				s.status = "maybe-expired" // the server may legitimately have aged it out
			}
		}
	}
	r.checkStreams(fmt.Sprintf("after step %d %v", i, o))
}

func (r *run) checkStreams(phase string) {
	for j, s := range r.ss {
		if s.cl == nil {
			continue
		}
		if !bytes.HasPrefix(s.upSent, s.srvGot) {
			r.fail("foreign-or-reordered-bytes|server-side", fmt.Sprintf("%s: server side of session %d read % x, its client wrote % x", phase, j, s.srvGot, s.upSent))
		}
		if !bytes.HasPrefix(s.downSent, s.cliGot) {
			r.fail("foreign-or-reordered-bytes|client-side", fmt.Sprintf("%s: client %d read % x, its server side wrote % x", phase, j, s.cliGot, s.downSent))
		}
		if s.status == "live" && (len(s.srvGot) != len(s.upSent) || len(s.cliGot) != len(s.downSent)) {
			r.fail("data-not-delivered", fmt.Sprintf("%s: session %d: up %d/%d down %d/%d", phase, j, len(s.srvGot), len(s.upSent), len(s.cliGot), len(s.downSent)))
		}
	}
}

func (r *run) key() string {
	var parts []string
	for _, s := range r.ss {
		age := -1
		if s.cl != nil {
			age = int(time.Since(s.lastC) / time.Minute)
			if age > 40 {
				age = 40
			}
		}
		cage := -1
		if s.status == "closed" {
			cage = int(time.Since(s.closedAt) / time.Minute)
			if cage > 40 {
				cage = 40
			}
		}
		parts = append(parts, fmt.Sprintf("%s/%d/up%d/down%d/age%d/cage%d", s.status, s.id, min(len(s.upSent)/5, 2), min(len(s.downSent)/5, 2), age, cage))
	}
	snap := r.w.Dns.Lis.VerifSnapshot(false)
	return strings.Join(parts, " ") + " || " + fmt.Sprint(mc.Hash(snap))
}

// probes enumerates what must be tried in the current state.
func (r *run) probes() []Probe {
	var out []Probe
	for j, s := range r.ss {
		switch s.status {
		case "live":
			for _, ackd := range []int{0, 1, -1, 2} {
				for _, seqd := range []int{-100, 0, 1} {
					out = append(out, Probe{Kind: "spoof-packet", Victim: j, AckD: ackd, SeqD: seqd})
				}
			}
			for v := 0; v < 5; v++ {
				out = append(out, Probe{Kind: "spoof-options", Victim: j, Variant: v})
			}
			out = append(out, Probe{Kind: "spoof-upprobe", Victim: j}, Probe{Kind: "spoof-fragprobe", Victim: j}, Probe{Kind: "alive", Victim: j})
		case "closed":
			for v := 0; v < 3; v++ {
				out = append(out, Probe{Kind: "reuse", Victim: j, Variant: v})
			}
		}
	}
	return out
}

func isErrResp(resp commands.Response, err error) bool {
	if err != nil {
		return true
	}
	switch v := resp.(type) {
	case *commands.ErrorResponse:
		return true
	case *commands.PacketResponse:
		return v.Err != nil
	case *commands.SetOptionsResponse:
		return v.Err != nil
	case *commands.TestUpstreamEncoderResponse:
		return v.Err != nil
	case *commands.TestDownstreamFragmentSizeResponse:
		return v.Err != nil
	}
	return false
}

func (r *run) runProbe(p Probe) {
	v := r.ss[p.Victim]
	lis := r.w.Dns.Lis
	before := lis.VerifUser(v.id, false)
	beforeAll := lis.VerifSnapshot(false)
	in, out := v.cl.VerifQueues()
	_ = out
	switch p.Kind {
	case "alive":
		if err := r.poll(v); err != nil {
			r.fail("live-session-terminated|probe", fmt.Sprintf("session %d (id %d) exchanged within the last 5 minutes but is refused now: %v; slots: %s", p.Victim, v.id, err, beforeAll))
		}
		return
	case "reuse":
		// the closed session's own address uses the old id again
		cl, err := newClient(r.w)
		if err != nil {
			return
		}
		_ = cl
		old := v.cl
		var resp commands.Response
		var qerr error
		srvBefore := len(v.srvGot)
		do(func() {
			switch p.Variant {
			case 0:
				resp, qerr = old.Query(&commands.PacketRequest{UserId: v.id, LastAckedSeqNo: 0, Packet: &util.Packet{SeqNo: uint16(len(v.upSent) / 5), Data: []byte("INJECT")}}, time.Second)
			case 1:
				resp, qerr = old.Query(&commands.PacketRequest{UserId: v.id, LastAckedSeqNo: 65535}, time.Second)
			case 2:
				f := false
				resp, qerr = old.Query(&commands.SetOptionsRequest{UserId: v.id, Closed: &f}, time.Second)
			}
		})
		if pr, ok := resp.(*commands.PacketResponse); ok && pr.Err == nil && pr.Packet != nil {
			r.fail("closed-id-extracts-data", fmt.Sprintf("a packet request on the closed id %d was answered with data % x", v.id, pr.Packet.Data))
		}
		bubble.Wait()
		if len(v.srvGot) != srvBefore {
			r.fail("closed-id-injects-data", fmt.Sprintf("data sent on the closed id %d reached the server side: % x", v.id, v.srvGot[srvBefore:]))
		}
		for j, s := range r.ss {
			if j != p.Victim && s.status == "live" && s.id == v.id {
				// the identifier now belongs to another live session with another address
				if qerr == nil && !isErrResp(resp, qerr) {
					r.fail("closed-id-accepted-on-reused-slot", fmt.Sprintf("old id %d is live again for session %d; the old owner's message was accepted", v.id, j))
				}
			}
		}
		return
	}
	// spoofed message from a foreign address with the victim's id
	sp := r.spoofer
	sp.VerifSetUserId(v.id)
	sp.Serializer = v.cl.Serializer
	var resp commands.Response
	var qerr error
	do(func() {
		switch p.Kind {
		case "spoof-packet":
			req := &commands.PacketRequest{UserId: v.id, LastAckedSeqNo: uint16(int(in.NextSeqNo) - 1 + p.AckD)}
			if p.SeqD != -100 {
				req.Packet = &util.Packet{SeqNo: uint16(len(v.upSent)/5 + p.SeqD), Data: []byte("SPOOF")}
			}
			resp, qerr = sp.Query(req, time.Second)
		case "spoof-options":
			t := true
			one := uint32(1)
			req := &commands.SetOptionsRequest{UserId: v.id}
			switch p.Variant {
			case 0:
				req.Closed = &t
			case 1:
				req.UpstreamEncoder = enc.Base64Encoding
			case 2:
				req.DownstreamEncoder = enc.RawEncoding
			case 3:
				req.DownstreamFragmentSize = &one
			case 4:
				req.LazyMode, req.MultiQuery = &t, &t
			}
			resp, qerr = sp.Query(req, time.Second)
		case "spoof-upprobe":
			resp, qerr = sp.Query(&commands.TestUpstreamEncoderRequest{UserId: v.id, Pattern: []byte("aAxyz")}, time.Second)
		case "spoof-fragprobe":
			resp, qerr = sp.Query(&commands.TestDownstreamFragmentSizeRequest{UserId: v.id, FragmentSize: 100}, time.Second)
		}
	})
	after := lis.VerifUser(v.id, false)
	if !isErrResp(resp, qerr) {
		r.fail("spoof-accepted|"+p.Kind, fmt.Sprintf("%+v from a foreign address with live id %d was answered without an error: %+v", p, v.id, resp))
	}
	if pr, ok := resp.(*commands.PacketResponse); ok && pr.Err == nil && pr.Packet != nil {
		r.fail("spoof-reads-data", fmt.Sprintf("%+v: the spoofer received session data % x", p, pr.Packet.Data))
	}
	if before != after {
		r.fail("spoof-alters-session|"+p.Kind, fmt.Sprintf("%+v from a foreign address changed session %d's state:\n  before %s\n  after  %s", p, v.id, before, after))
	}
	// the victim's next transfer in both directions must be unaffected
	if r.kind == "" {
		r.apply(99, Op{Kind: "up", S: p.Victim})
		r.apply(99, Op{Kind: "down", S: p.Victim})
		if r.kind != "" {
			r.kind = "spoof-breaks-later-transfer|" + p.Kind
		}
	}
}

func execute(t *testing.T, c Case, wantProbes bool) (kind, detail, key string, probes []Probe) {
	res := bubble.Run(t, func() {
		w, err := world.New(world.Options{Carrier: "dns", Channels: []string{"x"}, DnsRaw: true})
		if err != nil {
			kind, detail = "setup", err.Error()
			return
		}
		r := &run{w: w}
		for i := 0; i < c.K; i++ {
			r.ss = append(r.ss, &sess{status: "none"})
		}
		if r.spoofer, err = newClient(w); err != nil {
			kind, detail = "setup", err.Error()
			return
		}
		for i, o := range c.Ops {
			r.apply(i, o)
			if r.kind != "" {
				break
			}
		}
		if r.kind == "" {
			key = r.key()
			if wantProbes {
				probes = r.probes()
			}
			if c.Probe != nil {
				r.runProbe(*c.Probe)
			}
		}
		kind, detail = r.kind, r.detail
	})
	if res.Panic != "" {
		kind, detail = "panic", res.Panic
	}
	return
}

func enabled(k int, ops []Op, thorough bool) []Op {
	status := make([]string, k)
	for i := range status {
		status[i] = "none"
	}
	for _, o := range ops {
		switch o.Kind {
		case "hello":
			status[o.S] = "live"
		case "close":
			status[o.S] = "closed"
		case "srvclose":
			if status[o.S] == "live" {
				status[o.S] = "closed"
			} else {
				status[o.S] = "closed+srvclosed"
			}
		}
	}
	var out []Op
	for s := 0; s < k; s++ {
		switch status[s] {
		case "none", "closed", "closed+srvclosed":
			out = append(out, Op{Kind: "hello", S: s})
		case "live":
			out = append(out, Op{Kind: "up", S: s}, Op{Kind: "down", S: s}, Op{Kind: "close", S: s}, Op{Kind: "srvclose", S: s})
		}
		if status[s] == "closed" {
			out = append(out, Op{Kind: "srvclose", S: s})
		}
	}
	mins := []int{6, 31}
	if thorough {
		mins = []int{1, 5, 6, 29, 30, 31}
	}
	for _, m := range mins {
		for keep := 0; keep < 1<<k; keep++ {
			ok := true
			for s := 0; s < k; s++ {
				if keep&(1<<s) != 0 && status[s] != "live" {
					ok = false
				}
			}
			if ok {
				out = append(out, Op{Kind: "advance", Min: m, Keepers: keep})
			}
		}
	}
	return out
}

func TestCheck(t *testing.T) {
	r := mc.New(t, "C13")
	defer r.Finish()
	record := func(c Case, kind, detail string) {
		r.Eval(1)
		r.Transition(len(c.Ops) + 1)
		if kind != "" {
			r.Fail(kind, fmt.Sprintf("%s: %s", c, detail), len(c.Ops)*10, c)
		}
	}
	if r.Replay != nil {
		var probe struct {
			Layer string `json:"layer"`
		}
		r.DecodeReplay(&probe)
		var fam struct {
			Family string `json:"family"`
		}
		r.DecodeReplay(&fam)
		if fam.Family == "slots-full" {
			k, d, n := executeSlotsFull(t)
			r.Eval(1)
			r.Transition(n)
			r.State(1)
			if k != "" && k != "setup" {
				r.Fail(k, "full session table: "+d, 1, SlotCase{Family: "slots-full"})
			}
			return
		}
		if fam.Family == "slots" {
			var sc SlotCase
			r.DecodeReplay(&sc)
			k, d := executeSlots(t, sc)
			r.Eval(1)
			r.Transition(len(sc.Toggles))
			r.State(1)
			if k != "" && k != "setup" {
				r.Fail(k, fmt.Sprintf("%s: %s", sc, d), len(sc.Toggles), sc)
			}
			return
		}
		if fam.Family == "reorder" {
			var rc ReorderCase
			r.DecodeReplay(&rc)
			k, d := executeReorder(t, rc)
			r.Eval(1)
			r.Transition(len(rc.Script))
			r.State(1)
			if k != "" && k != "setup" {
				r.Fail(k, fmt.Sprintf("%s: %s", rc, d), len(rc.Script), rc)
			}
			return
		}
		if fam.Family == "same-address" {
			var sc SameAddrCase
			r.DecodeReplay(&sc)
			k, d := executeSameAddr(t, sc)
			r.Eval(1)
			r.Transition(8)
			r.State(1)
			if k != "" {
				r.Fail(k, fmt.Sprintf("%s: %s", sc, d), 10, sc)
			}
			return
		}
		if probe.Layer == "T" {
			var c CaseT
			r.DecodeReplay(&c)
			pg := progTByName(c.Prog)
			if pg == nil {
				t.Fatalf("unknown program %q", c.Prog)
			}
			x, k, d := runT(t, pg, c.Choices)
			r.Eval(1)
			r.Transition(len(x.Steps))
			r.State(1)
			if k != "" {
				r.Fail(k+"|"+pg.name, fmt.Sprintf("%s: %s", c, d), len(x.Steps), c)
			}
			return
		}
		var c Case
		r.DecodeReplay(&c)
		kind, detail, _, _ := execute(t, c, false)
		r.State(1)
		record(c, kind, detail)
		return
	}
	type cfg struct {
		k, depth int
		fineMins bool
	}
	cfgs := []cfg{{2, 5, false}}
	if r.Thorough() {
		// two sessions to depth 6 with the fine clock alphabet, then three sessions to depth 4
		cfgs = []cfg{{2, 6, true}, {3, 4, false}}
	}
	execs := 0
	capped := false
	type item struct{ ops []Op }
	for _, cf := range cfgs {
		k, depth := cf.k, cf.depth
		seen := map[string]bool{}
		frontier := []item{{}}
		for len(frontier) > 0 {
			cur := frontier[0]
			frontier = frontier[1:]
			if r.OverBudget() || capped {
				r.Cap(fmt.Sprintf("time budget reached during BFS at depth %d", len(cur.ops)+1))
				break
			}
			ops := enabled(k, cur.ops, cf.fineMins)
			for oi, o := range ops {
				path := append(append([]Op{}, cur.ops...), o)
				// shard on the first two operations of the path
				if len(path) >= 2 {
					h := int(mc.Hash(path[0].String(), path[1].String()) % uint64(r.NShards))
					if h != r.Shard {
						continue
					}
				} else if len(path) == 1 && depth > 1 {
					// every shard walks the first level (cheap) to reach its own second level
					_ = oi
				}
				if r.OverBudget() {
					capped = true
					break
				}
				c := Case{K: k, Ops: path}
				var o1 struct {
					Kind, Detail, Key string
					Probes            []Probe
				}
				replayed, hung := r.Memo(execs, &o1, func() {
					r.Guard(execs, 120*time.Second, "hang", c.String(), c, func() {
						o1.Kind, o1.Detail, o1.Key, o1.Probes = execute(t, c, true)
					})
				})
				execs++
				if hung {
					continue // journalled as a watchdog hang by the earlier segment
				}
				kind, detail, key, probes := o1.Kind, o1.Detail, o1.Key, o1.Probes
				if !replayed && (len(path) >= 2 || r.Shard == 0) {
					record(c, kind, detail)
				}
				if kind != "" {
					continue
				}
				if seen[key] {
					continue
				}
				seen[key] = true
				r.State(mc.Hash(key))
				r.Nontrivial(mc.Hash(c.String()))
				if len(seen)%97 == 1 {
					r.Sample(map[string]any{"path": c.String(), "state": key, "probes": len(probes)})
				}
				// probes in this (new) state
				if len(path) >= 2 || r.Shard == 0 {
					for _, p := range probes {
						p := p
						if r.OverBudget() {
							capped = true
							break
						}
						pc := Case{K: k, Ops: path, Probe: &p}
						var o2 struct{ Kind, Detail string }
						rep2, hung2 := r.Memo(execs, &o2, func() {
							r.Guard(execs, 120*time.Second, "hang", pc.String(), pc, func() {
								o2.Kind, o2.Detail, _, _ = execute(t, pc, false)
							})
						})
						execs++
						if !rep2 && !hung2 {
							record(pc, o2.Kind, o2.Detail)
						}
					}
				}
				if len(path) < depth {
					frontier = append(frontier, item{path})
				}
			}
		}
		if capped && len(frontier) == 0 {
			r.Cap("time budget reached during BFS (last level)")
		}
		r.Note(fmt.Sprintf("bfs_k%d_depth", k), depth)
		r.Note(fmt.Sprintf("max_bfs_k%d_states_in_a_shard", k), len(seen))
	}
	r.Note("sum_executions", execs)
	// same-address histories (scripted): the shard that owns the BFS root runs them
	if r.Shard == 0 {
		for _, sc := range sameAddrCases() {
			k, d := executeSameAddr(t, sc)
			r.Eval(1)
			r.Transition(8)
			r.State(mc.Hash("same-address", sc.String(), k))
			r.Nontrivial(mc.Hash(sc.String()))
			if k != "" {
				r.Fail(k, fmt.Sprintf("%s: %s", sc, d), 10, sc)
			}
		}
	}
	// slot histories (scripted): spread over the shards
	for i, sc := range slotCases(r.Thorough()) {
		if i%r.NShards != r.Shard || r.OverBudget() {
			continue
		}
		k, d := executeSlots(t, sc)
		r.Eval(1)
		r.Transition(len(sc.Toggles))
		r.State(mc.Hash("slots", k))
		r.Nontrivial(mc.Hash(sc.String()))
		if k != "" && k != "setup" {
			r.Fail(k, fmt.Sprintf("%s: %s", sc, d), len(sc.Toggles), sc)
		}
	}
	// the full session table (one execution, on the last shard)
	if r.Shard == r.NShards-1 && !r.OverBudget() {
		k, d, n := executeSlotsFull(t)
		r.Eval(1)
		r.Transition(n)
		r.State(mc.Hash("slots-full", k))
		r.Nontrivial(mc.Hash("slots-full"))
		r.Note("slots_full_sessions_accepted", n)
		if k != "" && k != "setup" {
			r.Fail(k, "full session table: "+d, 1, SlotCase{Family: "slots-full"})
		}
	}
	// reordered delivery (scripted): spread over the shards
	for i, rc := range reorderCases(r.Thorough()) {
		if i%r.NShards != r.Shard || r.OverBudget() {
			continue
		}
		k, d := executeReorder(t, rc)
		r.Eval(1)
		r.Transition(len(rc.Script))
		r.State(mc.Hash("reorder", k))
		r.Nontrivial(mc.Hash(rc.String()))
		if k != "" && k != "setup" {
			r.Fail(k, fmt.Sprintf("%s: %s", rc, d), len(rc.Script), rc)
		}
	}
	// Layer T: thread interleavings of concurrent sessions (Engine T)
	if !capped && !r.OverBudget() {
		bound := 1
		if r.Thorough() {
			bound = 2
		}
		layerT(t, r, bound)
	}
}
