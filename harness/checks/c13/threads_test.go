// C13 Layer T — thread interleavings of concurrent sessions on the real ServerDnsListener
// (Engine T, package sched).
//
// Two real ClientDnsConnection objects (different source addresses) run their version
// handshake, an upstream transfer and polls as controlled threads; the in-memory DNS path
// calls the real server handler on the calling thread, so two handlers run concurrently as
// they do under miekg/dns. Further threads: the server application writing downstream data
// into session A; the server application closing its end of session A; a spoofer (third
// address) sending packets with both session ids. Scheduling points: every Lock of
// usersLock, of the four queues' mutexes and of the clients' callMutex / commMutex
// (sync-shim). Every schedule with at most `bound` deviations from the fair default
// schedule is executed. Oracle per schedule: two sessions that are live at the same time
// never share an id; the server side of a session reads only a prefix of what ITS client
// wrote; a client reads only a prefix of what the server wrote into ITS session; the
// spoofer's bytes arrive nowhere and the spoofer extracts nothing; session B, which never
// closes, is never refused; no deadlock, no panic.
package c13

import (
	"bytes"
	"fmt"
	"os"
	"strings"
	"sync"
	"sync/atomic"
	"testing"
	"time"

	sdns "github.com/bokysan/socketace/v2/internal/streams/dns"
	"github.com/bokysan/socketace/v2/internal/streams/dns/commands"
	"github.com/bokysan/socketace/v2/internal/streams/dns/util"
	"github.com/bokysan/socketace/v2/verifharness/bubble"
	"github.com/bokysan/socketace/v2/verifharness/mc"
	"github.com/bokysan/socketace/v2/verifharness/sched"
	"github.com/bokysan/socketace/v2/verifharness/world"
)

type CaseT struct {
	Layer   string `json:"layer"` // "T"
	Prog    string `json:"prog"`
	Choices []int  `json:"choices"`
}

func (c CaseT) String() string { return fmt.Sprintf("T prog=%s schedule=%v", c.Prog, c.Choices) }

type progT struct {
	name     string
	srvClose bool // the server application closes its end of session A while B connects
	spoofer  bool
	down     bool // the server application writes downstream data into session A
}

var progsT = []progT{
	{name: "two-sessions", down: true},
	{name: "spoofer", spoofer: true, down: true},
	{name: "close-and-reuse", srvClose: true, spoofer: true},
}

func progTByName(n string) *progT {
	for i := range progsT {
		if progsT[i].name == n {
			return &progsT[i]
		}
	}
	return nil
}

type tsess struct {
	cl      *sdns.ClientDnsConnection
	id      atomic.Int32 // -1 until the hello returned
	srv     interface {
		Read([]byte) (int, error)
		Write([]byte) (int, error)
		Close() error
	}
	sent    []byte // accepted by the client's Write
	refused atomic.Value
}

func runT(t *testing.T, pg *progT, prefix []int) (x *sched.Exec, kind, detail string) {
	res := bubble.Run(t, func() {
		w, err := world.New(world.Options{Carrier: "dns", Channels: []string{"x"}, DnsRaw: true})
		if err != nil {
			kind, detail = "setup", err.Error()
			return
		}
		lis := w.Dns.Lis
		mk := func() *tsess {
			cl, err := newClient(w)
			if err != nil {
				kind, detail = "setup", err.Error()
				return nil
			}
			s := &tsess{cl: cl}
			s.id.Store(-1)
			return s
		}
		A, B, S := mk(), mk(), mk()
		if A == nil || B == nil || S == nil {
			return
		}
		var mu sync.Mutex
		var aCloseStarted atomic.Bool
		var idClash string
		var downSent []byte
		s := sched.New(prefix)
		fail := func(k, d string) {
			mu.Lock()
			if kind == "" {
				kind, detail = k, d
			}
			mu.Unlock()
		}
		hello := func(me, other *tsess, name string) bool {
			if err := me.cl.VersionHandshake(); err != nil {
				me.refused.Store("hello: " + err.Error())
				return false
			}
			id := me.cl.VerifUserId()
			me.srv = lis.VerifUserConn(id)
			me.id.Store(int32(id))
			// B never closes; A's id is free again only once the server application closed it
			if o := other.id.Load(); o == int32(id) && !(name == "B" && aCloseStarted.Load()) {
				mu.Lock()
				idClash = fmt.Sprintf("session %s was given id %d while the other session is live with it", name, id)
				mu.Unlock()
			}
			return true
		}
		up := func(me *tsess, tag byte, n int) {
			data := bytes.Repeat([]byte{tag}, n)
			if _, err := me.cl.Write(data); err != nil {
				me.refused.Store("write: " + err.Error())
				return
			}
			mu.Lock()
			me.sent = append(me.sent, data...)
			mu.Unlock()
		}
		s.Go("client-A", func() {
			if !hello(A, B, "A") {
				return
			}
			up(A, 0xA1, 3)
			for i := 0; i < 3; i++ {
				s.Yield("A-poll")
				if err := A.cl.SendAndReceive(nil); err != nil {
					A.refused.Store("poll: " + err.Error())
					return
				}
			}
			up(A, 0xA1, 3)
		})
		s.Go("client-B", func() {
			if !hello(B, A, "B") {
				return
			}
			up(B, 0xB2, 3)
			s.Yield("B-poll")
			if err := B.cl.SendAndReceive(nil); err != nil {
				B.refused.Store("poll: " + err.Error())
				return
			}
			up(B, 0xB2, 3)
		})
		if pg.down {
			s.Go("server-app-writes-A", func() {
				for i := 0; i < 20 && A.id.Load() < 0; i++ {
					s.Yield("wait-for-A")
				}
				if A.srv == nil {
					return
				}
				data := []byte{0xD1, 0xD1, 0xD1}
				if _, err := A.srv.Write(data); err == nil {
					mu.Lock()
					downSent = append(downSent, data...)
					mu.Unlock()
				}
			})
		}
		if pg.srvClose {
			s.Go("server-app-closes-A", func() {
				for i := 0; i < 20 && A.id.Load() < 0; i++ {
					s.Yield("wait-for-A")
				}
				if A.srv == nil {
					return
				}
				aCloseStarted.Store(true)
				A.srv.Close()
			})
		}
		var spoofLeak string
		if pg.spoofer {
			s.Go("spoofer", func() {
				for round := 0; round < 2; round++ {
					for id := uint16(0); id < 2; id++ {
						resp, err := S.cl.Query(&commands.PacketRequest{UserId: id, LastAckedSeqNo: 0xFFFF, Packet: &util.Packet{SeqNo: 0, Data: []byte{0xEE, 0xEE, 0xEE}}}, time.Second)
						if pr, ok := resp.(*commands.PacketResponse); ok && err == nil && pr.Err == nil {
							spoofLeak = fmt.Sprintf("a packet from a foreign address with session id %d was accepted (answer carries ack %d, packet %v)", id, pr.LastAckedSeqNo, pr.Packet)
						}
					}
					s.Yield("spoofer-waits")
				}
			})
		}
		x = s.Run()
		// collect what the server side of each session read (non-blocking: what is there)
		read := func(ts *tsess) []byte {
			if ts.srv == nil {
				return nil
			}
			var got []byte
			done := make(chan struct{})
			go func() {
				buf := make([]byte, 4096)
				for {
					n, err := ts.srv.Read(buf)
					mu.Lock()
					got = append(got, buf[:n]...)
					mu.Unlock()
					if err != nil {
						close(done)
						return
					}
				}
			}()
			bubble.Wait()
			mu.Lock()
			defer mu.Unlock()
			return append([]byte{}, got...)
		}
		clientGot := func(ts *tsess) []byte {
			in, _ := ts.cl.VerifQueues()
			var got []byte
			buf := make([]byte, 4096)
			for in.HasData() {
				n, _ := in.Read(buf)
				got = append(got, buf[:n]...)
			}
			return got
		}
		switch {
		case kind != "":
		case len(x.Panics) > 0:
			kind, detail = "T|panic", fmt.Sprint(x.Panics)
		case x.Deadlock != "":
			kind, detail = "T|deadlock", x.Deadlock
		case x.Capped:
			kind, detail = "T|livelock", "step limit reached"
		}
		if kind == "" {
			aGot, bGot := read(A), read(B)
			aDown, bDown, sDown := clientGot(A), clientGot(B), clientGot(S)
			rb, _ := B.refused.Load().(string)
			ra, _ := A.refused.Load().(string)
			switch {
			case idClash != "":
				fail("T|duplicate-session-id", idClash)
			case spoofLeak != "":
				fail("T|spoofed-packet-accepted", spoofLeak)
			case !bytes.HasPrefix(A.sent, aGot):
				fail("T|foreign-or-reordered-bytes|server-side", fmt.Sprintf("server side of session A read % x, its client wrote % x", aGot, A.sent))
			case !bytes.HasPrefix(B.sent, bGot):
				fail("T|foreign-or-reordered-bytes|server-side", fmt.Sprintf("server side of session B read % x, its client wrote % x", bGot, B.sent))
			case !bytes.HasPrefix(downSent, aDown):
				fail("T|foreign-or-reordered-bytes|client-side", fmt.Sprintf("client A read % x, the server wrote % x into its session", aDown, downSent))
			case len(bDown) > 0 || len(sDown) > 0:
				fail("T|foreign-or-reordered-bytes|client-side", fmt.Sprintf("client B read % x and the spoofer read % x although nothing was written for them", bDown, sDown))
			case rb != "":
				fail("T|live-session-terminated", "session B, which never closes and keeps exchanging, was refused: "+rb)
			case ra != "" && !pg.srvClose:
				fail("T|live-session-terminated", "session A, which nobody closed, was refused: "+ra)
			case !pg.srvClose && (len(aGot) != len(A.sent) || len(bGot) != len(B.sent)):
				fail("T|data-not-delivered", fmt.Sprintf("A %d/%d B %d/%d", len(aGot), len(A.sent), len(bGot), len(B.sent)))
			}
		}
		if kind != "" {
			s.Abandon()
		}
	})
	if kind == "" && res.Panic != "" {
		kind, detail = "T|panic", res.Panic
	}
	if strings.Contains(res.Panic, "replay diverged") {
		kind, detail = "diverged", res.Panic
	}
	if x == nil {
		x = &sched.Exec{}
	}
	return
}

func TestLayerTSmoke(t *testing.T) {
	if os.Getenv("VERIF_SMOKE") == "" {
		t.Skip()
	}
	for _, pg := range progsT {
		pg := pg
		for bound := 0; bound <= 2; bound++ {
			t0 := time.Now()
			kinds := map[string]int{}
			steps := 0
			n, complete := sched.Explore(bound, func(prefix []int) *sched.Exec {
				x, kind, detail := runT(t, &pg, prefix)
				kinds[kind]++
				if kind != "" && kinds[kind] == 1 {
					var tr []string
					for _, st := range x.Steps {
						tr = append(tr, st.At)
					}
					t.Logf("%s: %s\n   schedule %v\n   trace %s", kind, detail, x.Choices(), strings.Join(tr, " "))
				}
				if len(x.Steps) > steps {
					steps = len(x.Steps)
				}
				return x
			}, func(*sched.Exec) bool { return time.Since(t0) < 40*time.Second }, func(int) bool { return true })
			t.Logf("prog=%s bound=%d schedules=%d complete=%v max points=%d outcomes=%v in %v", pg.name, bound, n, complete, steps, kinds, time.Since(t0))
		}
	}
}

// layerT explores every schedule of every program with at most bound deviations.
func layerT(t *testing.T, r *mc.Run, bound int) {
	for _, pg := range progsT {
		pg := pg
		maxSteps := 0
		n, complete := sched.Explore(bound,
			func(prefix []int) *sched.Exec {
				x, kind, detail := runT(t, &pg, prefix)
				c := CaseT{Layer: "T", Prog: pg.name, Choices: x.Choices()}
				r.Eval(1)
				r.Transition(len(x.Steps))
				r.State(mc.Hash("T", pg.name, kind, len(x.Steps)))
				r.Nontrivial(mc.Hash(c.String()))
				if len(x.Steps) > maxSteps {
					maxSteps = len(x.Steps)
				}
				if kind == "diverged" {
					r.Inconclusive(c.String() + ": " + detail)
				} else if kind != "" {
					r.Fail(kind+"|"+pg.name, fmt.Sprintf("%s: %s", c, detail), len(x.Steps), c)
				}
				return x
			},
			func(x *sched.Exec) bool { return !r.OverBudget() },
			func(i int) bool {
				if i < 0 {
					return r.Shard == 0
				}
				return i%r.NShards == r.Shard
			})
		if !complete {
			r.Cap(fmt.Sprintf("Layer T %s: time budget reached after %d schedules", pg.name, n))
		}
		r.AddNote("sum_layerT_schedules", n)
		r.Note("max_layerT_points_"+pg.name, maxSteps)
	}
	r.Note("layerT_deviation_bound", bound)
}
