// C11 — DNS auto-negotiation only settles on parameters that work.
//
// Engine B: the real ClientDnsConnection.Handshake() runs in a bubble against the real
// server over an in-memory DNS path whose behaviour is enumerated: letter-case handling of
// query names x 8-bit handling x set of record types answered x answer size limit (dropped
// or truncated). Oracle: the handshake terminates (fake-time horizon 1 h, 10 000 exchanges);
// if it reports success, payloads of enumerated sizes and contents cross the SAME path
// intact in both directions.
package c11

import (
	"bytes"
	"fmt"
	"runtime"
	"strings"
	"sync/atomic"
	"testing"
	"time"

	"github.com/bokysan/socketace/v2/internal/streams/dns/util"
	"github.com/bokysan/socketace/v2/verifharness/bubble"
	"github.com/bokysan/socketace/v2/verifharness/mc"
	"github.com/bokysan/socketace/v2/verifharness/world"
	"github.com/miekg/dns"
	"golang.org/x/net/dns/dnsmessage"
)

type Case struct {
	Casing   string   `json:"casing"`   // none | lower | upper | alternating | rand0x20
	EightBit string   `json:"eightbit"` // transparent | strip | drop
	Types    []string `json:"types"`    // record types the path answers (others are refused)
	Limit    int      `json:"limit"`    // 0 = none; answers larger than this are dropped / truncated
	Trunc    bool     `json:"trunc"`
	DomLen   int      `json:"domain_length,omitempty"` // 0 = the default tunnel domain; else a domain of this many characters
	// Answers: the path treats the host names (CNAME / MX / SRV targets) and text strings (TXT)
	// in ANSWERS the way it treats query names: same letter-case folding, same 8-bit handling
	Answers bool `json:"answers,omitempty"`
	// OutageAt > 0: the queries of the five exchanges OutageAt..OutageAt+4 never reach the server
	// (a transient outage that exhausts the retries of whichever handshake step it hits)
	OutageAt int `json:"outage_at,omitempty"`
}

func (c Case) String() string {
	d := ""
	if c.DomLen > 0 {
		d = fmt.Sprintf(" domainLength=%d", c.DomLen)
	}
	if c.Answers {
		d += " answers-too"
	}
	if c.OutageAt > 0 {
		d += fmt.Sprintf(" queries of exchanges %d..%d lost", c.OutageAt, c.OutageAt+4)
	}
	return fmt.Sprintf("casing=%s 8bit=%s types=%v limit=%d trunc=%v%s", c.Casing, c.EightBit, c.Types, c.Limit, c.Trunc, d)
}

var typeNames = map[string]dnsmessage.Type{"NULL": util.QueryTypeNull, "PRIVATE": util.QueryTypePrivate, "TXT": util.QueryTypeTxt, "SRV": util.QueryTypeSrv, "MX": util.QueryTypeMx, "CNAME": util.QueryTypeCname, "AAAA": util.QueryTypeAAAA, "A": util.QueryTypeA}
var priority = []string{"NULL", "PRIVATE", "TXT", "SRV", "MX", "CNAME", "AAAA", "A"}

// rewriteName applies the path's case / 8-bit behaviour to the labels of the first
// question of a packed query (labels in front of the tunnel domain only).
func rewriteName(c Case, exch int, wire []byte) []byte {
	i := 12
	domLabels := strings.Count(caseDomain(c), ".") + 1
	// find label offsets
	var offs []int
	for i < len(wire) && wire[i] != 0 {
		offs = append(offs, i)
		i += int(wire[i]) + 1
	}
	pos := 0
	for li, o := range offs {
		if li >= len(offs)-domLabels {
			break
		}
		l := int(wire[o])
		for j := o + 1; j <= o+l && j < len(wire); j++ {
			b := wire[j]
			if b >= 0x80 {
				switch c.EightBit {
				case "strip":
					b &= 0x7F
				case "drop":
					return nil
				}
			}
			isLower, isUpper := b >= 'a' && b <= 'z', b >= 'A' && b <= 'Z'
			switch c.Casing {
			case "lower":
				if isUpper {
					b += 32
				}
			case "upper":
				if isLower {
					b -= 32
				}
			case "alternating":
				if pos%2 == 0 && isLower {
					b -= 32
				} else if pos%2 == 1 && isUpper {
					b += 32
				}
			case "rand0x20":
				if (isLower || isUpper) && (uint32(exch*2654435761+pos*40503)>>7)&1 == 1 {
					b ^= 0x20
				}
			}
			wire[j] = b
			pos++
		}
	}
	return wire
}

// mangleText applies the path's case / 8-bit behaviour to a presentation-format name or TXT
// string of an answer (miekg escapes: \\DDD for an octet, \\X for a special character). ok=false:
// the path drops the answer.
func mangleText(c Case, exch int, s string, isName bool) (string, bool) {
	var out []byte
	pos := 0
	emit := func(b byte, wasEscaped bool) bool {
		if b >= 0x80 {
			switch c.EightBit {
			case "strip":
				b &= 0x7F
			case "drop":
				return false
			}
		}
		isLower, isUpper := b >= 'a' && b <= 'z', b >= 'A' && b <= 'Z'
		switch c.Casing {
		case "lower":
			if isUpper {
				b += 32
			}
		case "upper":
			if isLower {
				b -= 32
			}
		case "alternating":
			if pos%2 == 0 && isLower {
				b -= 32
			} else if pos%2 == 1 && isUpper {
				b += 32
			}
		case "rand0x20":
			if (isLower || isUpper) && (uint32(exch*2654435761+pos*40503)>>7)&1 == 1 {
				b ^= 0x20
			}
		}
		pos++
		special := b == '"' || b == '\\' || (isName && (b == '.' || b == ' ' || b == '\'' || b == '@' || b == ';' || b == '(' || b == ')'))
		switch {
		case b < 0x21 || b > 0x7E:
			out = append(out, []byte(fmt.Sprintf("\\%03d", b))...)
		case special || (wasEscaped && !(b >= '0' && b <= '9') && !(b|0x20 >= 'a' && b|0x20 <= 'z')):
			out = append(out, '\\', b)
		default:
			out = append(out, b)
		}
		return true
	}
	for i := 0; i < len(s); i++ {
		ch := s[i]
		if ch == '\\' && i+3 < len(s) && s[i+1] >= '0' && s[i+1] <= '9' && s[i+2] >= '0' && s[i+2] <= '9' && s[i+3] >= '0' && s[i+3] <= '9' {
			b := (s[i+1]-'0')*100 + (s[i+2]-'0')*10 + (s[i+3] - '0')
			i += 3
			if !emit(b, true) {
				return "", false
			}
			continue
		}
		if ch == '\\' && i+1 < len(s) {
			i++
			if !emit(s[i], true) {
				return "", false
			}
			continue
		}
		if isName && ch == '.' {
			out = append(out, '.') // label separator
			continue
		}
		if !emit(ch, false) {
			return "", false
		}
	}
	return string(out), true
}

// mangleAnswer applies mangleText to every host name / text string of the answer records.
func mangleAnswer(c Case, exch int, a *dns.Msg) bool {
	for _, rr := range a.Answer {
		var ok = true
		switch v := rr.(type) {
		case *dns.CNAME:
			v.Target, ok = mangleText(c, exch, v.Target, true)
		case *dns.MX:
			v.Mx, ok = mangleText(c, exch, v.Mx, true)
		case *dns.SRV:
			v.Target, ok = mangleText(c, exch, v.Target, true)
		case *dns.TXT:
			if c.EightBit != "transparent" { // (text strings are not case-folded by anything)
				cc := c
				cc.Casing = "none"
				for i := range v.Txt {
					if v.Txt[i], ok = mangleText(cc, exch, v.Txt[i], false); !ok {
						break
					}
				}
			}
		}
		if !ok {
			return false
		}
	}
	return true
}

// caseDomain is the tunnel domain of a case: the default one, or a valid name of exactly
// DomLen characters (labels of at most 59).
func caseDomain(c Case) string {
	if c.DomLen <= 0 {
		return world.DnsDomain
	}
	var b []byte
	for len(b) < c.DomLen {
		if len(b) > 0 && (len(b)+1)%60 == 0 && len(b) < c.DomLen-1 {
			b = append(b, '.')
			continue
		}
		b = append(b, byte('a'+len(b)%26))
	}
	return string(b)
}

// thoroughTier is set by TestCheck (and by a replay from the replay file's tier).
var thoroughTier bool

func execute(t *testing.T, c Case) (kind, detail string, hsOK bool) {
	res := bubble.Run(t, func() {
		var hsOver atomic.Bool
		allowed := map[uint16]bool{}
		for _, n := range c.Types {
			allowed[uint16(typeNames[n])] = true
		}
		path := world.DnsPath{MaxAns: c.Limit, Truncate: c.Trunc}
		path.QueryWire = func(exch int, wire []byte) []byte { return rewriteName(c, exch, wire) }
		path.Query = func(exch int, q *dns.Msg) bool {
			// the outage loses QUERIES (the server's state does not move) and belongs to the handshake:
			// afterwards the path is the case's path
			return !(c.OutageAt > 0 && exch >= c.OutageAt && exch < c.OutageAt+5 && !hsOver.Load())
		}
		w, err := world.New(world.Options{Carrier: "dns", Channels: []string{"x"}, DnsRaw: true, DnsPath: path, DnsDomain: caseDomain(c)})
		if err != nil {
			kind, detail = "setup", err.Error()
			return
		}
		// refuse record types outside the answered set: answer REFUSED without records
		w.Dns.Path.Answer = func(exch int, q, a *dns.Msg) bool {
			if len(q.Question) > 0 && !allowed[q.Question[0].Qtype] {
				a.Answer = nil
				a.Rcode = dns.RcodeRefused
			}

			if c.Answers {
				return mangleAnswer(c, exch, a)
			}
			return true
		}
		cl, dg, err := w.Dns.NewClientConn()
		if err != nil {
			kind, detail = "setup", err.Error()
			return
		}
		var runaway atomic.Bool
		var xferBase atomic.Int64 // exchange count when the current transfer started
		dg.OnExchange = func(n int) {
			// a handshake that never ends, or - after it - one transfer that needs more than 20 000 exchanges (the
			// largest is 3 fragments plus polling at ~26 exchanges per fake second for a few seconds): the querying
			// goroutine is looping without fake time passing and would keep the bubble from ever becoming quiescent
			if (n > 10000 && !hsOver.Load()) || (hsOver.Load() && int64(n)-xferBase.Load() > 20000) {
				runaway.Store(true)
				runtime.Goexit() // end the goroutine that keeps querying
			}
		}
		done := make(chan error, 1)
		go func() { err := cl.Handshake(); hsOver.Store(true); done <- err }()
		var hsErr error
		finished := false
		for m := 0; m < 60 && !finished && !runaway.Load(); m++ {
			bubble.Wait()
			select {
			case hsErr = <-done:
				finished = true
			default:
				bubble.Advance(time.Minute)
			}
		}
		if !finished {
			select {
			case hsErr = <-done:
				finished = true
			default:
			}
		}
		if !finished {
			kind, detail = "handshake-does-not-terminate", fmt.Sprintf("Handshake() had not returned after %d exchanges / 1 fake hour (runaway=%v); logs=%q", dg.Exchanges, runaway.Load(), bubble.RecentLogs())
			return
		}
		if hsErr != nil {
			return // reported failure: nothing further is required
		}
		hsOK = true
		srv, err := w.Dns.Lis.Accept()
		if err != nil {
			kind, detail = "setup", "accept: "+err.Error()
			return
		}
		up := int(cl.Serializer.Upstream.FragmentSize)
		down := int(cl.Serializer.Downstream.FragmentSize)
		desc := fmt.Sprintf("negotiated type=%v up=%s/%d down=%s/%d", *cl.Serializer.Upstream.QueryType, cl.Serializer.Upstream.Encoder.Name(), up, cl.Serializer.Downstream.Encoder.Name(), down)
		transfer := func(dir string, f int, wr interface{ Write([]byte) (int, error) }, rd interface{ Read([]byte) (int, error) }) bool {
			// every size up to 260 [thorough: 1200] (string and label limits of the record types are crossed by
			// encodings of 150-255 bytes), then the sizes around the fragment size
			dense := 260
			if thoroughTier {
				dense = 1200
			}
			var ns []int
			for n := 1; n <= dense && n <= f+1; n++ {
				ns = append(ns, n)
			}
			for _, n := range []int{f - 1, f, f + 1, 3*f + 1} {
				if n > len(ns) {
					ns = append(ns, n)
				}
			}
			for _, n := range ns {
				for _, fill := range []string{"ramp", "zero", "ff", "all256"} {
					if fill != "ramp" && n != f && n != 3*f+1 {
						continue
					}
					data := make([]byte, n)
					for i := range data {
						switch fill {
						case "ramp":
							data[i] = byte(i*131 + 7)
						case "ff":
							data[i] = 0xFF
						case "all256":
							data[i] = byte(i)
						}
					}
					xferBase.Store(int64(dg.Exchanges))
					var werr error
					wdone := make(chan struct{})
					go func() { _, werr = wr.Write(data); close(wdone) }()
					got := make([]byte, 0, n)
					rdone := make(chan struct{})
					go func() {
						buf := make([]byte, 65536)
						for len(got) < n {
							m, err := rd.Read(buf)
							got = append(got, buf[:m]...)
							if err != nil {
								break
							}
						}
						close(rdone)
					}()
					ok := false
					for i := 0; i < 120; i++ {
						bubble.Wait()
						select {
						case <-rdone:
							ok = true
						default:
							bubble.Advance(5 * time.Second)
						}
						if ok {
							break
						}
					}
					if !ok || !bytes.Equal(got, data) {
						i := 0
						for i < len(got) && i < len(data) && got[i] == data[i] {
							i++
						}
						kind, detail = "negotiated-parameters-do-not-carry-data|"+dir, fmt.Sprintf("%s: %d bytes (%s) %s: received %d bytes, first difference at %d, write err %v; logs=%q", desc, n, fill, dir, len(got), i, werr, bubble.RecentLogs())
						return false
					}
					select {
					case <-wdone:
					default:
						bubble.Advance(10 * time.Second)
					}
				}
			}
			return true
		}
		if !transfer("up", up, cl, srv) {
			return
		}
		if !transfer("down", down, srv, cl) {
			return
		}
		// both directions at once: full fragments travel in the query AND in its answer
		xferBase.Store(int64(dg.Exchanges))
		upData, downData := make([]byte, 2*up+1), make([]byte, 2*down+1)
		for i := range upData {
			upData[i] = byte(i*7 + 1)
		}
		for i := range downData {
			downData[i] = byte(i*13 + 5)
		}
		go cl.Write(upData)
		go srv.Write(downData)
		var gotUp, gotDown []byte
		go func() {
			buf := make([]byte, 65536)
			for len(gotUp) < len(upData) {
				m, err := srv.Read(buf)
				gotUp = append(gotUp, buf[:m]...)
				if err != nil {
					return
				}
			}
		}()
		go func() {
			buf := make([]byte, 65536)
			for len(gotDown) < len(downData) {
				m, err := cl.Read(buf)
				gotDown = append(gotDown, buf[:m]...)
				if err != nil {
					return
				}
			}
		}()
		for i := 0; i < 120 && (len(gotUp) < len(upData) || len(gotDown) < len(downData)); i++ {
			bubble.Wait()
			bubble.Advance(5 * time.Second)
		}
		if !bytes.Equal(gotUp, upData) || !bytes.Equal(gotDown, downData) {
			kind, detail = "negotiated-parameters-do-not-carry-data|both", fmt.Sprintf("%s: simultaneous transfer of %d bytes up and %d bytes down: received %d up, %d down; logs=%q", desc, len(upData), len(downData), len(gotUp), len(gotDown), bubble.RecentLogs())
		}
	})
	if res.Panic != "" {
		kind, detail = "panic", res.Panic
	}
	return
}

func typeSets() [][]string {
	var out [][]string
	out = append(out, priority)
	for i := range priority { // each single type removed
		var s []string
		for j, p := range priority {
			if j != i {
				s = append(s, p)
			}
		}
		out = append(out, s)
	}
	for _, p := range priority { // each single type alone
		out = append(out, []string{p})
	}
	for i := 1; i < len(priority); i++ { // proper prefixes and suffixes
		out = append(out, priority[:i], priority[i:])
	}
	out = append(out, []string{})
	return out
}

func cases(thorough bool) []Case {
	casings := []string{"none", "lower", "upper", "alternating", "rand0x20"}
	eights := []string{"transparent", "strip", "drop"}
	limits := []int{0, 512, 768, 1232, 1500, 4096, 8192}
	sets := typeSets()
	var out []Case
	seen := map[string]bool{}
	add := func(c Case) {
		k := c.String()
		if !seen[k] {
			seen[k] = true
			out = append(out, c)
		}
	}
	base := Case{Casing: "none", EightBit: "transparent", Types: priority}
	add(base)
	// the tunnel domain's length decides how much of a query name is left for data: every
	// handshake message must still be encodable (or the handshake must fail, not hang)
	for _, l := range []int{4, 30, 60, 100, 140, 170, 180, 190, 200, 210, 220, 230, 240} {
		for _, e := range []string{"transparent", "strip"} {
			c := base
			c.DomLen, c.EightBit = l, e
			add(c)
		}
	}
	// one factor at a time
	for _, x := range casings {
		c := base
		c.Casing = x
		add(c)
	}
	for _, x := range eights {
		c := base
		c.EightBit = x
		add(c)
	}
	for _, x := range sets {
		c := base
		c.Types = x
		add(c)
	}
	for _, l := range limits {
		for _, tr := range []bool{false, true} {
			c := base
			c.Limit, c.Trunc = l, tr
			add(c)
		}
	}
	// pairs of factors (quick); full product (thorough)
	for _, cs := range casings {
		for _, eb := range eights {
			for _, l := range []int{0, 512, 1500} {
				for _, ts := range [][]string{priority, {"TXT", "SRV", "MX", "CNAME", "AAAA", "A"}, {"CNAME", "AAAA", "A"}} {
					add(Case{Casing: cs, EightBit: eb, Types: ts, Limit: l})
				}
			}
		}
	}
	// a transient outage at every position of the handshake (transparent and 7-bit path): the step
	// it hits exhausts its retries and falls back; what the handshake then settles on must work
	for _, eb := range []string{"transparent", "strip"} {
		for at := 1; at <= 90; at++ {
			add(Case{Casing: "none", EightBit: eb, Types: priority, OutageAt: at})
		}
		if thorough {
			for at := 1; at <= 90; at++ {
				add(Case{Casing: "none", EightBit: eb, Types: []string{"TXT", "SRV", "MX", "CNAME", "AAAA", "A"}, OutageAt: at})
				add(Case{Casing: "none", EightBit: eb, Types: []string{"CNAME", "AAAA", "A"}, OutageAt: at})
			}
		}
	}
	// the path does to answers what it does to query names
	for _, cs := range casings {
		for _, eb := range eights {
			if cs == "none" && eb == "transparent" {
				continue
			}
			tss := [][]string{priority, {"TXT", "SRV", "MX", "CNAME", "AAAA", "A"}, {"SRV", "MX", "CNAME", "AAAA", "A"}, {"MX", "CNAME", "AAAA", "A"}, {"CNAME", "AAAA", "A"}, {"TXT"}, {"SRV"}, {"MX"}, {"CNAME"}}
			ls := []int{0}
			if thorough {
				ls = []int{0, 512, 1500}
			}
			for _, ts := range tss {
				for _, l := range ls {
					add(Case{Casing: cs, EightBit: eb, Types: ts, Limit: l, Answers: true})
				}
			}
		}
	}
	if thorough {
		for _, cs := range casings {
			for _, eb := range eights {
				for _, ts := range sets {
					for _, l := range limits {
						for _, tr := range []bool{false, true} {
							if l == 0 && tr {
								continue
							}
							add(Case{Casing: cs, EightBit: eb, Types: ts, Limit: l, Trunc: tr})
						}
					}
				}
			}
		}
	}
	return out
}

func limitClass(l int) string {
	if l == 0 {
		return "nolimit"
	}
	return "limited"
}

func TestCheck(t *testing.T) {
	r := mc.New(t, "C11")
	defer r.Finish()
	record := func(c Case, kind, detail string, ok bool) {
		r.Eval(1)
		r.Transition(3)
		r.State(mc.Hash(c.String(), kind, ok))
		if c.Casing != "none" || c.EightBit != "transparent" || len(c.Types) != 8 || c.Limit != 0 {
			r.Nontrivial(mc.Hash(c.String()))
		}
		if kind != "" {
			first := "none"
			if len(c.Types) > 0 {
				first = c.Types[0]
			}
			r.Fail(fmt.Sprintf("%s|best=%s|%s", kind, first, limitClass(c.Limit)), fmt.Sprintf("%s: %s", c, detail), len(c.Types)+c.Limit/100, c)
		}
	}
	thoroughTier = r.Thorough()
	if r.Replay != nil {
		var c Case
		r.DecodeReplay(&c)
		k, d, ok := execute(t, c)
		record(c, k, d, ok)
		return
	}
	all := cases(r.Thorough())
	succ, succAns := 0, 0
	for idx, c := range all {
		if !r.Mine(idx) {
			continue
		}
		if r.OverBudget() {
			r.Cap(fmt.Sprintf("time budget reached at path %d of %d", idx, len(all)))
			break
		}
		var k, d string
		var ok bool
		r.Guard(idx, 180*time.Second, "hang", c.String(), c, func() { k, d, ok = execute(t, c) })
		record(c, k, d, ok)
		if ok {
			succ++
			if c.Answers {
				succAns++
			}
		}
		if idx%37 == 0 {
			r.Sample(map[string]any{"path": c.String(), "handshake_ok": ok, "outcome": k})
		}
		r.Progress(idx + 1)
	}
	r.Note("paths_total", len(all))
	r.Note("sum_handshakes_succeeded", succ)
	r.Note("sum_handshakes_succeeded_on_answer_mangling_paths", succAns)
}
