// C16 — client connection policy: ordered failover, reuse, reconnect (direct forward
// address is covered by a real-socket pass, see forward_test.go).
//
// Engine B: the real upstream.Upstreams is given a list of upstream front-ends whose peers
// behave as enumerated {ok, ok-but-insecure, refuses, accepts-then-silent, answers 503};
// 1..3 local connections are issued in the same step; then an enumerated loss history is
// applied and a new local connection is made after an enumerated fake-time delay.
package c16

import (
	"bufio"
	"errors"
	"fmt"
	"strings"
	"testing"
	"time"

	"github.com/bokysan/socketace/v2/internal/client/upstream"
	"github.com/bokysan/socketace/v2/internal/socketace"
	"github.com/bokysan/socketace/v2/internal/streams"
	"github.com/bokysan/socketace/v2/internal/util/cert"
	"github.com/bokysan/socketace/v2/verifharness/bubble"
	"github.com/bokysan/socketace/v2/verifharness/mc"
	"github.com/bokysan/socketace/v2/verifharness/netsim"
	"github.com/bokysan/socketace/v2/verifharness/world"
)

type Case struct {
	List       []string `json:"list"` // behaviours, in upstream order
	MustSecure bool     `json:"must_secure"`
	Concurrent int      `json:"concurrent"`
	Loss       string   `json:"loss"`              // none | cut-idle | cut-mid-transfer | server-close
	Delay      string   `json:"delay"`             // 0 | 1s | 31s | 5m
	Refused    int      `json:"refused,omitempty"` // local connections for a channel the server does not have, made before / between the others
	// Overlap > 0: the local connections are issued one by one, each at quiescence, while the
	// Overlap-th write of the server's carrier end (an answer of the session handshake) is held:
	// the later ones arrive while the first one is still inside dial + handshake
	Overlap int `json:"overlap,omitempty"`
}

func (c Case) String() string {
	return fmt.Sprintf("upstreams=[%s] mustSecure=%v concurrent=%d loss=%s delay=%s refusedChannelRequests=%d overlapHold=%d", strings.Join(c.List, ","), c.MustSecure, c.Concurrent, c.Loss, c.Delay, c.Refused, c.Overlap)
}

// scripted is an upstream whose peer misbehaves.
type scripted struct {
	streams.Connection
	kind  string
	dials int
	conns []*netsim.MemConn
}

func (s *scripted) String() string { return "scripted://" + s.kind }

func (s *scripted) Connect(manager cert.TlsConfig, mustSecure bool) error {
	s.dials++
	if s.kind == "refuses" {
		return errors.New("dial: connection refused")
	}
	a, b := netsim.Pipe(netsim.Addr{Net: "mem", Str: "client"}, netsim.Addr{Net: "mem", Str: "peer-" + s.kind}, 0)
	s.conns = append(s.conns, a)
	if s.kind == "503" || s.kind == "silent-after-announce" || s.kind == "stalls-in-starttls" {
		go func() {
			rd := bufio.NewReader(b)
			readReq := func() bool {
				for {
					l, err := rd.ReadString('\n')
					if err != nil {
						return false
					}
					if l == "\r\n" {
						return true
					}
				}
			}
			if !readReq() {
				return
			}
			switch s.kind {
			case "503":
				b.Write([]byte("HTTP/1.1 503 Service Unavailable\r\nServer: scripted\r\n\r\n"))
			case "silent-after-announce":
				b.Write([]byte("HTTP/1.1 200 OK\r\nProtocol-Version: v2.0.0\r\nServer: scripted\r\n\r\n"))
			case "stalls-in-starttls":
				b.Write([]byte("HTTP/1.1 200 OK\r\nProtocol-Version: v2.0.0\r\nCapabilities: StartTLS\r\nServer: scripted\r\n\r\n"))
				if !readReq() {
					return
				}
				b.Write([]byte("HTTP/1.1 101 Switching Protocols\r\nConnection: upgrade\r\nUpgrade: socketace/v2.0.0\r\n\r\n"))
				// ... and never answers the TLS ClientHello
			}
		}()
	}
	// "silent": the peer accepted the connection and never says anything
	cc, err := socketace.NewClientConnection(a, manager, false, "server.test")
	if err != nil {
		a.Close()
		return err
	} else if mustSecure && !cc.Secure() {
		return errors.New("not secure")
	}
	s.Connection = streams.NewNamedConnection(cc, "scripted")
	return nil
}

type member struct {
	kind string
	w    *world.World // ok / insecure
	s    *scripted
}

func (m member) dials() int {
	if m.w != nil {
		return m.w.Front.Dials
	}
	return m.s.dials
}

func admits(kind string, mustSecure bool) bool {
	return kind == "ok" || kind == "ok-tls-otherhost" || (kind == "insecure" && !mustSecure)
}

func execute(t *testing.T, c Case) (kind, detail string) {
	res := bubble.Run(t, func() {
		var members []member
		var list []upstream.Upstream
		var releases []func()
		for _, k := range c.List {
			switch k {
			case "ok", "insecure", "ok-tls-otherhost":
				o := world.Options{Carrier: "stream", Channels: []string{"x"}, Keep: true}
				if k == "ok-tls-otherhost" {
					// a TLS-wrapped carrier for ANOTHER host name, whose certificate is valid for that name
					o.TLS, o.ServerCert, o.ClientKnowsCA, o.Host = true, "wronghost", true, "other.test"
				}
				if c.Overlap > 0 {
					o.OnDial = func(_, sv *netsim.MemConn) { releases = append(releases, sv.HoldWriteReturn(c.Overlap)) }
				}
				if k == "ok" {
					o.ServerCert, o.ClientKnowsCA = "good", true // StartTLS -> secure session
				}
				w, err := world.New(o)
				if err != nil {
					kind, detail = "setup", err.Error()
					return
				}
				members = append(members, member{kind: k, w: w})
				list = append(list, w.Front)
			default:
				s := &scripted{kind: k}
				members = append(members, member{kind: k, s: s})
				list = append(list, s)
			}
		}
		ups := &upstream.Upstreams{Data: list, MustSecure: c.MustSecure}
		// any world can host the app endpoints; use a dedicated one for the client side objects
		host, err := world.New(world.Options{Carrier: "stream", Channels: []string{"x"}, Keep: true, ServerCert: "good", ClientKnowsCA: true})
		if err != nil {
			kind, detail = "setup", err.Error()
			return
		}
		want := -1
		for i, m := range members {
			if admits(m.kind, c.MustSecure) {
				want = i
				break
			}
		}
		var apps []*world.Endpoint
		for i := 0; i < c.Refused; i++ {
			// a request for a channel the server refuses must not cost the physical session
			ra := host.OpenAppVia(ups, "no-such-channel", nil)
			bubble.Wait()
			bubble.Advance(time.Second)
			ra.Close()
		}
		for i := 0; i < c.Concurrent; i++ {
			apps = append(apps, host.OpenAppVia(ups, "x", nil))
			if c.Overlap > 0 {
				bubble.Wait()
			}
		}
		bubble.Wait()
		if c.Overlap > 0 {
			// a held answer is released once every local connection has been issued; upstreams
			// dialled later (after a failover) are released as they appear
			for i := 0; i < 60; i++ {
				for _, rel := range releases {
					rel()
				}
				bubble.Wait()
				bubble.Advance(10 * time.Second)
			}
		} else {
			bubble.Advance(10 * time.Minute)
		} // the bounded time within which a non-answering upstream must be abandoned
		describe := func() string {
			var d []string
			for i, m := range members {
				t := 0
				if m.w != nil {
					t = m.w.Chans[0].NumTargets()
				}
				d = append(d, fmt.Sprintf("#%d %s dials=%d targets=%d", i, m.kind, m.dials(), t))
			}
			return strings.Join(d, "; ") + fmt.Sprintf(" logs=%q", bubble.RecentLogs())
		}
		firstBad := func() string {
			// the upstream the client is stuck on = the last one it dialled
			last := "none"
			for i, m := range members {
				if i >= want && want >= 0 {
					break
				}
				if m.dials() > 0 {
					last = m.kind
				}
			}
			return last
		}
		if want < 0 {
			for i, m := range members {
				if m.w != nil && m.w.Chans[0].NumTargets() > 0 {
					kind, detail = "session-on-inadmissible-upstream|"+m.kind, fmt.Sprintf("upstream #%d (%s) must not carry data under mustSecure=%v: %s", i, m.kind, c.MustSecure, describe())
					return
				}
			}
			for _, a := range apps {
				if o := a.Obs(); !o.EOF && o.Err == "" {
					kind, detail = "local-connection-never-terminates|after-"+firstBad(), fmt.Sprintf("no upstream is admissible but the local connection is still open after 10 fake minutes: %s", describe())
					return
				}
			}
			return
		}
		chosen := members[want]
		for i, m := range members {
			if i != want && m.w != nil && m.w.Chans[0].NumTargets() > 0 {
				kind, detail = "wrong-upstream|"+m.kind, fmt.Sprintf("upstream #%d (%s) got the session, expected #%d: %s", i, m.kind, want, describe())
				return
			}
		}
		if got := chosen.w.Chans[0].NumTargets(); got != c.Concurrent {
			kind, detail = "failover-stuck|after-"+firstBad(), fmt.Sprintf("expected %d logical connection(s) through upstream #%d (%s) within 10 fake minutes, got %d: %s", c.Concurrent, want, chosen.kind, got, describe())
			return
		}
		if chosen.dials() != 1 {
			kind, detail = "not-shared", fmt.Sprintf("%d concurrent local connections made %d physical sessions to the chosen upstream: %s", c.Concurrent, chosen.dials(), describe())
			return
		}
		for i := want + 1; i < len(members); i++ {
			if members[i].dials() > 0 {
				kind, detail = "order-violated", fmt.Sprintf("upstream #%d was dialled although #%d works: %s", i, want, describe())
				return
			}
		}
		for i, a := range apps {
			a.StartWrite(world.Payload(byte(i+1), 0, 1000))
		}
		bubble.Wait()
		for i := 0; i < c.Concurrent; i++ {
			if g := chosen.w.Chans[0].Target(i).Obs().Got; g != 1000 {
				kind, detail = "no-data-path", fmt.Sprintf("target %d received %d of 1000 bytes: %s", i, g, describe())
				return
			}
		}
		if c.Loss == "none" {
			return
		}
		cl := chosen.w.CarrierClientEnd(0)
		gone := strings.HasSuffix(c.Loss, "+gone")
		switch strings.TrimSuffix(c.Loss, "+gone") {
		case "cut-idle":
			cl.Cut(false, true)
		case "cut-mid-transfer":
			chosen.w.Chans[0].Target(0).Pause()
			apps[0].StartWrite(world.Payload(9, 0, 300000))
			bubble.Wait()
			cl.Cut(false, true)
		case "server-close":
			cl.Peer.Close()
		}
		bubble.Wait()
		switch c.Delay {
		case "1s":
			bubble.Advance(time.Second)
		case "31s":
			bubble.Advance(31 * time.Second)
		case "5m":
			bubble.Advance(5 * time.Minute)
		}
		if gone {
			// the upstream that carried the session does not come back: the next admissible one in
			// the list has to take over
			chosen.w.StopServer()
			next := -1
			for i := want + 1; i < len(members); i++ {
				if admits(members[i].kind, c.MustSecure) {
					next = i
					break
				}
			}
			if next < 0 {
				return
			}
			chosen = members[next]
		}
		before := chosen.w.Chans[0].NumTargets()
		na := host.OpenAppVia(ups, "x", nil)
		bubble.Wait()
		bubble.Advance(30 * time.Second) // bounded time for the new connection to come up
		na.StartWrite(world.Payload(7, 0, 1000))
		bubble.Wait()
		after := chosen.w.Chans[0].NumTargets()
		ok := after == before+1 && chosen.w.Chans[0].Target(after-1).Obs().Got == 1000
		if !ok {
			kind, detail = "no-reconnect|"+c.Loss+"|delay="+c.Delay, fmt.Sprintf("after the session was lost (%s) and %s fake delay the next local connection got no working data path: targets %d->%d newapp=%v: %s", c.Loss, c.Delay, before, after, na.Obs(), describe())
			return
		}
		if !gone && chosen.dials() != 2 {
			kind, detail = "reconnect-count", fmt.Sprintf("expected exactly one new physical session after the loss, dials=%d", chosen.dials())
		}
	})
	if res.Panic != "" {
		kind, detail = "panic", res.Panic
	}
	if kind == "" && res.SpinCount > 0 {
		kind, detail = "spin", res.SpinMsg
	}
	return
}

func cases(thorough bool) []Case {
	kinds := []string{"ok", "refuses", "silent", "503", "insecure", "silent-after-announce", "stalls-in-starttls"}
	var lists [][]string
	maxLen := 3
	if thorough {
		maxLen = 4
	}
	var rec func(prefix []string)
	rec = func(prefix []string) {
		if len(prefix) > 0 {
			lists = append(lists, append([]string{}, prefix...))
		}
		if len(prefix) == maxLen {
			return
		}
		for _, k := range kinds {
			rec(append(prefix, k))
		}
	}
	rec(nil)
	var out []Case
	// upstreams for different hosts and of different security styles in one list: what an earlier
	// (failed or lost) attempt did must not decide whether a later upstream is acceptable
	for _, first := range []string{"ok", "stalls-in-starttls", "silent-after-announce", "503", "refuses", "insecure"} {
		for _, ms := range []bool{false, true} {
			out = append(out, Case{List: []string{first, "ok-tls-otherhost"}, MustSecure: ms, Concurrent: 1, Loss: "none"})
			out = append(out, Case{List: []string{"ok-tls-otherhost", first}, MustSecure: ms, Concurrent: 1, Loss: "none"})
		}
	}
	for _, loss := range []string{"cut-idle", "server-close"} {
		// the first upstream carried the session, is lost and refuses from then on: the second must take over
		out = append(out, Case{List: []string{"ok", "ok-tls-otherhost"}, MustSecure: true, Concurrent: 1, Loss: loss + "+gone", Delay: "1s"})
		out = append(out, Case{List: []string{"ok-tls-otherhost", "ok"}, MustSecure: true, Concurrent: 1, Loss: loss + "+gone", Delay: "1s"})
	}
	// local connections that arrive while an earlier one is still inside dial + handshake
	for _, l := range [][]string{{"ok"}, {"refuses", "ok"}, {"insecure"}, {"silent", "ok"}, {"503", "insecure"}} {
		for _, ms := range []bool{false, true} {
			for _, conc := range []int{2, 3} {
				for hold := 1; hold <= 4; hold++ {
					out = append(out, Case{List: l, MustSecure: ms, Concurrent: conc, Loss: "none", Overlap: hold})
				}
			}
		}
	}
	for _, l := range lists {
		for _, ms := range []bool{false, true} {
			for _, conc := range []int{1, 2, 3} {
				if len(l) == 3 && conc == 2 && !thorough {
					continue
				}
				out = append(out, Case{List: l, MustSecure: ms, Concurrent: conc, Loss: "none"})
			}
		}
	}
	for _, l := range [][]string{{"ok"}, {"refuses", "ok"}, {"insecure"}, {"ok", "ok"}} {
		for _, ref := range []int{1, 3} {
			for _, conc := range []int{1, 2} {
				out = append(out, Case{List: l, MustSecure: false, Concurrent: conc, Loss: "none", Refused: ref})
			}
		}
	}
	for _, l := range [][]string{{"ok"}, {"refuses", "ok"}, {"ok", "ok"}, {"insecure", "ok"}} {
		for _, loss := range []string{"cut-idle", "cut-mid-transfer", "server-close"} {
			for _, d := range []string{"0", "1s", "31s", "5m"} {
				for _, conc := range []int{1, 2} {
					out = append(out, Case{List: l, MustSecure: true, Concurrent: conc, Loss: loss, Delay: d})
				}
			}
		}
	}
	return out
}

func record(r *mc.Run, c Case, kind, detail string) {
	r.Eval(1)
	r.Transition(len(c.List) + c.Concurrent + 2)
	r.State(mc.Hash(c.String(), kind))
	if len(c.List) > 1 || c.Loss != "none" || c.Concurrent > 1 {
		r.Nontrivial(mc.Hash(c.String()))
	}
	if kind != "" {
		if c.Overlap > 0 {
			kind += "|overlapping-connects" // deterministic overlap: its own fingerprint (and replay)
		}
		r.Fail(kind, fmt.Sprintf("%s: %s", c, detail), len(c.List)*10+c.Concurrent, c)
	}
}

func TestCheck(t *testing.T) {
	r := mc.New(t, "C16")
	defer r.Finish()
	r.CrashFails = true
	if r.Replay != nil {
		var c Case
		r.DecodeReplay(&c)
		if len(c.List) == 1 && strings.HasPrefix(c.List[0], "realdns:") {
			var n int
			fmt.Sscanf(c.List[0], "realdns:%d", &n)
			kind, detail := executeRealDns(n)
			record(r, c, kind, detail)
			return
		}
		if len(c.List) == 1 && strings.HasPrefix(c.List[0], "realsocket:") {
			kind, detail := executeRealSocket(c.List[0])
			if kind != "slow" && kind != "setup" {
				record(r, c, kind, detail)
			}
			return
		}
		if len(c.List) == 1 && strings.HasPrefix(c.List[0], "forward:") {
			kind, detail := executeForward(c.List[0])
			record(r, c, kind, detail)
			return
		}
		kind, detail := execute(t, c)
		record(r, c, kind, detail)
		return
	}
	all := cases(r.Thorough())
	for idx, c := range all {
		if !r.Mine(idx) {
			continue
		}
		if r.OverBudget() {
			r.Cap(fmt.Sprintf("time budget reached at case %d of %d", idx, len(all)))
			break
		}
		var kind, detail string
		r.Guard(idx, 10*time.Second, "hang", c.String(), c, func() {
			kind, detail = execute(t, c)
		})
		record(r, c, kind, detail)
		if idx%211 == 0 {
			r.Sample(map[string]any{"case": c.String(), "outcome": kind})
		}
		r.Progress(idx + 1)
	}
	forwardCases(r, len(all))
	realDnsCases(r, len(all)+10)
	realSocketCases(r, len(all)+20)
	r.Note("cases_total", len(all))
}
