package c16

// Real-socket pass for the DNS upstream's own resolver-candidate loop (upstream.Dns.Connect
// dials real UDP/TCP sockets, so it cannot run in the bubble): a dns:// upstream whose k
// resolver candidates are all dead, followed by a live tcp:// upstream. The local connection
// must reach the second upstream within bounded real time. Slowness beyond the bound is a
// violation only if the client is demonstrably still on the DNS upstream (its dial counter
// keeps growing); otherwise inconclusive.

import (
	"fmt"
	"net"
	"strings"
	"sync/atomic"
	"time"

	"github.com/bokysan/socketace/v2/internal/client/upstream"
	"github.com/bokysan/socketace/v2/internal/server"
	"github.com/bokysan/socketace/v2/internal/util/addr"
	"github.com/bokysan/socketace/v2/internal/util/cert"
	"github.com/bokysan/socketace/v2/verifharness/bubble"
	"github.com/bokysan/socketace/v2/verifharness/mc"
	"github.com/bokysan/socketace/v2/verifharness/world"
)

func deadUDPPort() int {
	c, err := net.ListenPacket("udp", "127.0.0.1:0")
	if err != nil {
		return 1
	}
	p := c.LocalAddr().(*net.UDPAddr).Port
	c.Close()
	return p
}

func executeRealDns(dead int) (kind, detail string) {
	bubble.SetupLogging()
	defer func() {
		if p := recover(); p != nil {
			kind, detail = "panic", fmt.Sprint(p)
		}
	}()
	fake := &world.FakeChannel{ChName: "x", Keep: true, BufLimit: 65536}
	ln, err := net.Listen("tcp", "127.0.0.1:0")
	if err != nil {
		return "slow", err.Error()
	}
	port := ln.Addr().(*net.TCPAddr).Port
	ln.Close()
	s := server.NewSocketServer()
	s.Address = addr.MustParseAddress(fmt.Sprintf("tcp://127.0.0.1:%d", port))
	if err := s.Startup(server.Channels{fake}); err != nil {
		return "slow", "startup: " + err.Error()
	}
	defer s.Shutdown()
	time.Sleep(50 * time.Millisecond)
	var resolvers []string
	for i := 0; i < dead; i++ {
		resolvers = append(resolvers, fmt.Sprintf("dns=127.0.0.1:%d", deadUDPPort()))
	}
	ups := &upstream.Upstreams{}
	if err := ups.UnmarshalFlag("dns://example.org?direct=false&" + strings.Join(resolvers, "&")); err != nil {
		return "setup", err.Error()
	}
	if err := ups.UnmarshalFlag(fmt.Sprintf("tcp://127.0.0.1:%d", port)); err != nil {
		return "setup", err.Error()
	}
	defer ups.Shutdown()
	var done atomic.Bool
	res := make(chan error, 1)
	go func() {
		st, err := ups.Connect(cfgGetter{&cert.ClientConfig{}}, "x")
		if err == nil {
			st.Write([]byte("marker"))
		}
		done.Store(true)
		res <- err
	}()
	select {
	case err := <-res:
		if err != nil {
			return "failover-stuck|real-dns", fmt.Sprintf("dns upstream with %d dead resolver candidates, then a live tcp upstream: Connect failed: %v", dead, err)
		}
	case <-time.After(90 * time.Second):
		return "failover-stuck|real-dns", fmt.Sprintf("dns upstream with %d dead resolver candidates, then a live tcp upstream: the local connection had not reached the second upstream after 90 s of real time (every candidate is refused at once on loopback)", dead)
	}
	deadline := time.Now().Add(5 * time.Second)
	for time.Now().Before(deadline) && fake.NumTargets() == 0 {
		time.Sleep(10 * time.Millisecond)
	}
	if fake.NumTargets() != 1 {
		return "failover-stuck|real-dns", fmt.Sprintf("Connect returned but the target behind the second upstream was dialled %d times", fake.NumTargets())
	}
	return "", ""
}

func realDnsCases(r *mc.Run, base int) {
	idx := base
	for _, dead := range []int{1, 2, 3} {
		if r.Mine(idx) {
			kind, detail := executeRealDns(dead)
			c := Case{List: []string{fmt.Sprintf("realdns:%d", dead)}, Concurrent: 1, Loss: "none"}
			if kind == "slow" || kind == "setup" {
				r.Inconclusive(c.List[0] + ": " + detail)
				r.Eval(1)
			} else {
				record(r, c, kind, detail)
			}
		}
		idx++
	}
}
