package c16

// Real-socket pass for the socket upstream itself (upstream.Socket.Connect dials real sockets):
// TLS and plain servers on loopback whose sessions the harness can cut and whose listeners it
// can take down and bring up. The properties checked are those of the fake-front families
// (ordered fail-over, reconnect after session loss, fail-back to the first listed upstream),
// but through the real Socket entries, which are re-used for every attempt. Value oracles
// only (which server served the connection); slowness is inconclusive.

import (
	"encoding/json"
	"crypto/tls"
	"fmt"
	"net"
	"strings"
	"sync"
	"time"

	"github.com/bokysan/socketace/v2/internal/client/upstream"
	"github.com/bokysan/socketace/v2/internal/server"
	"github.com/bokysan/socketace/v2/internal/util/cert"
	"github.com/bokysan/socketace/v2/verifharness/bubble"
	"github.com/bokysan/socketace/v2/verifharness/mc"
	"github.com/bokysan/socketace/v2/verifharness/pki"
	"github.com/bokysan/socketace/v2/verifharness/world"
)

type realSrv struct {
	port  int
	tls   bool
	cfg   cert.ServerConfig
	fake  *world.FakeChannel
	mu    sync.Mutex
	ln    net.Listener
	conns []net.Conn
}

func newRealSrv(name string, useTLS bool, p *pki.PKI) (*realSrv, error) {
	s := &realSrv{tls: useTLS, fake: &world.FakeChannel{ChName: "x", Keep: true, BufLimit: 65536}}
	s.cfg.Certificate, s.cfg.PrivateKey = p.Server.CertPEM, p.Server.KeyPEM
	l, err := net.Listen("tcp", "127.0.0.1:0")
	if err != nil {
		return nil, err
	}
	s.port = l.Addr().(*net.TCPAddr).Port
	l.Close()
	return s, nil
}

func (s *realSrv) up() error {
	l, err := net.Listen("tcp", fmt.Sprintf("127.0.0.1:%d", s.port))
	if err != nil {
		return err
	}
	s.mu.Lock()
	s.ln = l
	s.mu.Unlock()
	var tc *tls.Config
	if s.tls {
		if tc, err = s.cfg.GetTlsConfig(); err != nil {
			return err
		}
	}
	go func() {
		for {
			c, err := l.Accept()
			if err != nil {
				return
			}
			s.mu.Lock()
			s.conns = append(s.conns, c)
			s.mu.Unlock()
			var conn net.Conn = c
			if tc != nil {
				conn = tls.Server(c, tc)
			}
			go server.AcceptConnection(conn, &s.cfg, s.tls, server.Channels{s.fake})
		}
	}()
	return nil
}

// cut ends every physical session of this server (the listener stays)
func (s *realSrv) cut() {
	s.mu.Lock()
	defer s.mu.Unlock()
	for _, c := range s.conns {
		c.Close()
	}
	s.conns = nil
}

func (s *realSrv) down() {
	s.mu.Lock()
	if s.ln != nil {
		s.ln.Close()
		s.ln = nil
	}
	s.mu.Unlock()
	s.cut()
}

func realSocketModes() []string {
	return []string{
		"realsocket:tls-reconnect-after-cut",
		"realsocket:tls-refused-then-up",
		"realsocket:tls-first-choice-again",
		"realsocket:plain-first-choice-again",
		"realsocket:tls-second-after-first-down",
		"realsocket:udp-reconnect-after-cut",
		"realsocket:udp+secret-reconnect-after-cut",
		"realsocket:udp+secret-rejected-then-accepted",
	}
}

// executeRealUDP: a real PacketServer (KCP over loopback UDP, with or without a shared secret)
// and the real upstream.Packet entry; the carrier is cut under the client's session and the
// next local connection must get a new session through the SAME upstream entry.
func executeRealUDP(mode string) (kind, detail string) {
	cred := ""
	if strings.Contains(mode, "secret") {
		cred = ":s3cret@"
	}
	pc, err := net.ListenPacket("udp", "127.0.0.1:0")
	if err != nil {
		return "slow", err.Error()
	}
	port := pc.LocalAddr().(*net.UDPAddr).Port
	pc.Close()
	fake := &world.FakeChannel{ChName: "x", Keep: true, BufLimit: 65536}
	var servers server.Servers
	js := fmt.Sprintf(`[{"address":"udp://%s127.0.0.1:%d"}]`, cred, port)
	if err := servers.UnmarshalJSON([]byte(js)); err != nil {
		return "setup", err.Error()
	}
	if err := servers[0].Startup(server.Channels{fake}); err != nil {
		return "slow", "startup: " + err.Error()
	}
	defer servers[0].Shutdown()
	time.Sleep(200 * time.Millisecond)
	ups := &upstream.Upstreams{}
	if err := ups.UnmarshalFlag(fmt.Sprintf("udp://%s127.0.0.1:%d", cred, port)); err != nil {
		return "setup", err.Error()
	}
	defer ups.Shutdown()
	ccfg := &cert.ClientConfig{}
	connect := func(marker string) error {
		ch := make(chan error, 1)
		go func() {
			st, err := ups.Connect(cfgGetter{ccfg}, "x")
			if err == nil {
				_, err = st.Write([]byte(marker))
			}
			ch <- err
		}()
		select {
		case err := <-ch:
			if err != nil {
				return err
			}
		case <-time.After(90 * time.Second):
			return fmt.Errorf("slow: Connect did not return within 90 s")
		}
		deadline := time.Now().Add(20 * time.Second)
		for time.Now().Before(deadline) {
			for i := 0; i < fake.NumTargets(); i++ {
				if string(fake.Target(i).Bytes()) == marker {
					return nil
				}
			}
			time.Sleep(5 * time.Millisecond)
		}
		return fmt.Errorf("slow: marker reached no target within 20 s")
	}
	if err := connect("marker-1"); err != nil {
		return "slow", "first connection: " + err.Error()
	}
	for round := 1; round <= 2; round++ {
		cl, ok := ups.Data[0].(interface{ Close() error })
		if !ok {
			return "setup", "upstream entry cannot be closed"
		}
		cl.Close() // the carrier goes away under the session
		time.Sleep(300 * time.Millisecond)
		if err := connect(fmt.Sprintf("marker-%d", round+1)); err != nil {
			if strings.HasPrefix(err.Error(), "slow:") {
				return "slow", fmt.Sprintf("%s: after session loss %d: %v", mode, round, err)
			}
			return "no-reconnect|real-udp", fmt.Sprintf("%s: after session loss %d the next local connection failed: %v", mode, round, err)
		}
	}
	return "", ""
}

// executeRealUDPRejected: --secure client, UDP upstream with a shared secret. The server first
// has the secret but no certificate: the attempt completes the handshake and is rejected as
// insecure. The server is then restarted with a certificate: the next local connection must be
// served (StartTLS) through the same upstream entry.
func executeRealUDPRejected(mode string) (kind, detail string) {
	p := pki.Real()
	pc, err := net.ListenPacket("udp", "127.0.0.1:0")
	if err != nil {
		return "slow", err.Error()
	}
	port := pc.LocalAddr().(*net.UDPAddr).Port
	pc.Close()
	fake := &world.FakeChannel{ChName: "x", Keep: true, BufLimit: 65536}
	start := func(withCert bool) (server.Server, error) {
		entry := map[string]interface{}{"address": fmt.Sprintf("udp://:s3cret@127.0.0.1:%d", port)}
		if withCert {
			entry["certificate"], entry["privateKey"] = p.Server.CertPEM, p.Server.KeyPEM
		}
		js, _ := json.Marshal([]interface{}{entry})
		var servers server.Servers
		if err := servers.UnmarshalJSON(js); err != nil {
			return nil, err
		}
		if err := servers[0].Startup(server.Channels{fake}); err != nil {
			return nil, err
		}
		time.Sleep(200 * time.Millisecond)
		return servers[0], nil
	}
	srv, err := start(false)
	if err != nil {
		return "slow", "startup: " + err.Error()
	}
	list := &upstream.Upstreams{}
	if err := list.UnmarshalFlag(fmt.Sprintf("udp://:s3cret@127.0.0.1:%d", port)); err != nil {
		srv.Shutdown()
		return "setup", err.Error()
	}
	ups := world.ClientUpstreams(list.Data, true, true) // --secure; server certificate not verified (-k)
	defer ups.Shutdown()
	ccfg := &cert.ClientConfig{}
	ccfg.InsecureSkipVerify = true
	try := func() error {
		ch := make(chan error, 1)
		go func() {
			st, err := ups.Connect(cfgGetter{ccfg}, "x")
			if err == nil {
				_, err = st.Write([]byte("marker"))
			}
			ch <- err
		}()
		select {
		case err := <-ch:
			return err
		case <-time.After(100 * time.Second):
			return fmt.Errorf("slow: Connect did not return within 100 s")
		}
	}
	err1 := try()
	if err1 == nil {
		srv.Shutdown()
		return "setup", "the insecure endpoint was accepted although security is required (C04's business)"
	}
	defer srv.Shutdown()
	if strings.HasPrefix(err1.Error(), "slow:") {
		return "slow", err1.Error()
	}
	// the endpoint gets its certificate (PacketServer.Shutdown leaves the UDP port bound, so the
	// server object stays and only its configuration, read for every new session, changes)
	ps, ok := srv.(*server.PacketServer)
	if !ok {
		return "setup", fmt.Sprintf("%T is not a packet server", srv)
	}
	ps.ServerConfig.Certificate, ps.ServerConfig.PrivateKey = p.Server.CertPEM, p.Server.KeyPEM
	time.Sleep(100 * time.Millisecond)
	err2 := try()
	if err2 != nil && strings.HasPrefix(err2.Error(), "slow:") {
		return "slow", err2.Error()
	}
	if err2 != nil {
		return "no-reconnect|real-udp|after-rejected-attempt", fmt.Sprintf("%s: the first attempt was rejected (%v); the endpoint then came back offering StartTLS, but the next local connection failed: %v", mode, err1, err2)
	}
	deadline := time.Now().Add(20 * time.Second)
	for time.Now().Before(deadline) {
		for i := 0; i < fake.NumTargets(); i++ {
			if string(fake.Target(i).Bytes()) == "marker" {
				return "", ""
			}
		}
		time.Sleep(5 * time.Millisecond)
	}
	return "slow", "marker reached no target within 20 s"
}

func executeRealSocket(mode string) (kind, detail string) {
	bubble.SetupLogging()
	defer func() {
		if p := recover(); p != nil {
			kind, detail = "panic", fmt.Sprint(p)
		}
	}()
	if strings.Contains(mode, "rejected-then-accepted") {
		return executeRealUDPRejected(mode)
	}
	if strings.Contains(mode, ":udp") {
		return executeRealUDP(mode)
	}
	p := pki.Bubble()
	firstTLS := !strings.Contains(mode, "plain-first")
	a, err := newRealSrv("A", firstTLS, p)
	if err != nil {
		return "slow", err.Error()
	}
	b, err := newRealSrv("B", strings.Contains(mode, "tls-second"), p)
	if err != nil {
		return "slow", err.Error()
	}
	defer a.down()
	defer b.down()
	scheme := func(s *realSrv) string {
		if s.tls {
			return "tcp+tls"
		}
		return "tcp"
	}
	ups := &upstream.Upstreams{}
	list := []*realSrv{a, b}
	if strings.Contains(mode, "tls-reconnect-after-cut") || strings.Contains(mode, "tls-refused-then-up") {
		list = []*realSrv{a}
	}
	for _, s := range list {
		if err := ups.UnmarshalFlag(fmt.Sprintf("%s://127.0.0.1:%d", scheme(s), s.port)); err != nil {
			return "setup", err.Error()
		}
	}
	defer ups.Shutdown()
	ccfg := &cert.ClientConfig{}
	ccfg.InsecureSkipVerify = true
	n := 0
	// connect opens one local connection and reports which server's target received its marker
	connect := func() (string, error) {
		n++
		marker := fmt.Sprintf("marker-%d", n)
		type res struct {
			err error
		}
		ch := make(chan res, 1)
		go func() {
			st, err := ups.Connect(cfgGetter{ccfg}, "x")
			if err == nil {
				_, err = st.Write([]byte(marker))
			}
			ch <- res{err}
		}()
		select {
		case r := <-ch:
			if r.err != nil {
				return "", r.err
			}
		case <-time.After(60 * time.Second):
			return "", fmt.Errorf("slow: Connect did not return within 60 s")
		}
		deadline := time.Now().Add(10 * time.Second)
		for time.Now().Before(deadline) {
			for name, s := range map[string]*realSrv{"A": a, "B": b} {
				for i := 0; i < s.fake.NumTargets(); i++ {
					if string(s.fake.Target(i).Bytes()) == marker {
						return name, nil
					}
				}
			}
			time.Sleep(5 * time.Millisecond)
		}
		return "", fmt.Errorf("slow: marker reached no target within 10 s")
	}
	expect := func(phase, want string) bool {
		got, err := connect()
		if err != nil && strings.HasPrefix(err.Error(), "slow:") {
			kind, detail = "slow", phase + ": " + err.Error()
			return false
		}
		if err != nil {
			kind, detail = "failover-stuck|real-socket", fmt.Sprintf("%s: %s: the local connection was not served although upstream %s is reachable: %v", mode, phase, want, err)
			return false
		}
		if got != want {
			kind, detail = "order-violated|real-socket", fmt.Sprintf("%s: %s: served by upstream %s, expected %s (the first reachable one in the listed order)", mode, phase, got, want)
			return false
		}
		return true
	}
	settle := func() { time.Sleep(150 * time.Millisecond) }
	switch {
	case strings.Contains(mode, "tls-reconnect-after-cut"):
		if err := a.up(); err != nil {
			return "slow", err.Error()
		}
		if !expect("first connection", "A") {
			return
		}
		for round := 1; round <= 2; round++ {
			a.cut()
			settle()
			if !expect(fmt.Sprintf("after session loss %d", round), "A") {
				return
			}
		}
	case strings.Contains(mode, "tls-refused-then-up"):
		if _, err := connect(); err == nil {
			return "setup", "connect succeeded with no server"
		}
		if err := a.up(); err != nil {
			return "slow", err.Error()
		}
		if !expect("after the upstream came up", "A") {
			return
		}
	case strings.Contains(mode, "first-choice-again"):
		if err := b.up(); err != nil {
			return "slow", err.Error()
		}
		if !expect("first upstream refusing", "B") {
			return
		}
		if err := a.up(); err != nil {
			return "slow", err.Error()
		}
		b.cut()
		settle()
		if !expect("first upstream reachable again, session on the second lost", "A") {
			return
		}
		a.cut()
		settle()
		if !expect("session on the first lost, both reachable", "A") {
			return
		}
	case strings.Contains(mode, "tls-second-after-first-down"):
		if err := a.up(); err != nil {
			return "slow", err.Error()
		}
		if err := b.up(); err != nil {
			return "slow", err.Error()
		}
		if !expect("both reachable", "A") {
			return
		}
		a.down()
		settle()
		if !expect("first down", "B") {
			return
		}
		b.cut()
		settle()
		if !expect("first still down, session on the second lost", "B") {
			return
		}
		if err := a.up(); err != nil {
			return "slow", err.Error()
		}
		b.cut()
		settle()
		if !expect("first up again", "A") {
			return
		}
	}
	return "", ""
}

func realSocketCases(r *mc.Run, base int) {
	idx := base
	for _, mode := range realSocketModes() {
		if r.Mine(idx) {
			kind, detail := executeRealSocket(mode)
			c := Case{List: []string{mode}, Concurrent: 1, Loss: "none"}
			if kind == "slow" || kind == "setup" {
				r.Inconclusive(mode + ": " + detail)
				r.Eval(1)
			} else {
				record(r, c, kind, detail)
			}
		}
		idx++
	}
}
