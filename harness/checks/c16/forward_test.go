package c16

import (
	"fmt"
	"net"
	"sync"
	"time"

	"github.com/bokysan/socketace/v2/internal/client/listener"
	"github.com/bokysan/socketace/v2/internal/client/upstream"
	"github.com/bokysan/socketace/v2/internal/util/addr"
	"github.com/bokysan/socketace/v2/internal/util/cert"
	"github.com/bokysan/socketace/v2/verifharness/bubble"
	"github.com/bokysan/socketace/v2/verifharness/mc"
	"github.com/bokysan/socketace/v2/verifharness/netsim"
	"github.com/bokysan/socketace/v2/verifharness/world"
)

type cfgGetter struct{ m cert.TlsConfig }

func (c cfgGetter) CertManager() cert.TlsConfig { return c.m }

// executeForward exercises "direct forward address first" with a real loopback TCP socket
// (ConnectDirectly calls net.Dial), outside any bubble. Value oracle only: which endpoint
// received the marker bytes. Slowness is inconclusive.
// executeForwardStarted: a real SocketListener with a forward address, started through
// Start(); local connections right after the start and 6 s later must all be served by the
// forward address (reachable the whole time), none through the upstream.
func executeForwardStarted() (kind, detail string) {
	w, err := world.New(world.Options{Carrier: "stream", Channels: []string{"x"}, Keep: true})
	if err != nil {
		return "setup", err.Error()
	}
	var mu sync.Mutex
	var direct []byte
	ln, err := net.Listen("tcp", "127.0.0.1:0")
	if err != nil {
		return "slow", err.Error()
	}
	defer ln.Close()
	go func() {
		for {
			c, err := ln.Accept()
			if err != nil {
				return
			}
			go func() {
				buf := make([]byte, 4096)
				for {
					n, err := c.Read(buf)
					mu.Lock()
					direct = append(direct, buf[:n]...)
					mu.Unlock()
					if err != nil {
						return
					}
				}
			}()
		}
	}()
	pl, err := net.Listen("tcp", "127.0.0.1:0")
	if err != nil {
		return "slow", err.Error()
	}
	port := pl.Addr().(*net.TCPAddr).Port
	pl.Close()
	l := &listener.SocketListener{}
	l.Name = "x"
	l.Address = addr.MustParseAddress(fmt.Sprintf("tcp://127.0.0.1:%d", port))
	fa := addr.MustParseAddress("tcp://" + ln.Addr().String())
	l.Forward = &fa
	if err := l.Start(w.Ups, cfgGetter{&w.CliCfg}); err != nil {
		return "slow", "listener start: " + err.Error()
	}
	defer l.Shutdown()
	defer w.Ups.Shutdown()
	want := ""
	for i, wait := range []time.Duration{0, 6 * time.Second, time.Second} {
		time.Sleep(wait)
		marker := fmt.Sprintf("FORWARD-%d;", i)
		want += marker
		c, err := net.DialTimeout("tcp", fmt.Sprintf("127.0.0.1:%d", port), 5*time.Second)
		if err != nil {
			return "slow", "dial listener: " + err.Error()
		}
		c.Write([]byte(marker))
		deadline := time.Now().Add(20 * time.Second)
		for time.Now().Before(deadline) {
			mu.Lock()
			d := string(direct)
			mu.Unlock()
			up := w.Front.Dials
			if d == want || up > 0 {
				break
			}
			time.Sleep(5 * time.Millisecond)
		}
		c.Close()
		mu.Lock()
		d := string(direct)
		mu.Unlock()
		if w.Front.Dials > 0 {
			return "forward-not-first", fmt.Sprintf("local connection %d (%v after the previous one): a reachable forward address was given but the upstream was used (direct endpoint has %q, upstream dials=%d)", i+1, wait, d, w.Front.Dials)
		}
		if d != want {
			return "slow", fmt.Sprintf("direct endpoint got %q, want %q", d, want)
		}
	}
	return "", ""
}

func executeForward(mode string) (kind, detail string) {
	bubble.SetupLogging()
	if mode == "forward:started-listener-later" {
		return executeForwardStarted()
	}
	w, err := world.New(world.Options{Carrier: "stream", Channels: []string{"x"}, Keep: true})
	if err != nil {
		return "setup", err.Error()
	}
	var mu sync.Mutex
	var direct []byte
	ln, err := net.Listen("tcp", "127.0.0.1:0")
	if err != nil {
		return "slow", "cannot listen on loopback: " + err.Error()
	}
	defer ln.Close()
	go func() {
		for {
			c, err := ln.Accept()
			if err != nil {
				return
			}
			go func() {
				buf := make([]byte, 4096)
				for {
					n, err := c.Read(buf)
					mu.Lock()
					direct = append(direct, buf[:n]...)
					mu.Unlock()
					if err != nil {
						return
					}
				}
			}()
		}
	}()
	l := &listener.AbstractListener{Upstreams: w.Ups, Config: cfgGetter{&w.CliCfg}}
	l.Name = "x"
	switch mode {
	case "forward:reachable":
		a := addr.MustParseAddress("tcp://" + ln.Addr().String())
		l.Forward = &a
	case "forward:refused":
		dead, _ := net.Listen("tcp", "127.0.0.1:0")
		a := addr.MustParseAddress("tcp://" + dead.Addr().String())
		dead.Close()
		l.Forward = &a
	case "forward:absent":
	}
	app, lis := netsim.Pipe(netsim.Addr{Net: "mem", Str: "app"}, netsim.Addr{Net: "mem", Str: "listener"}, 0)
	go l.HandleConnection(lis)
	marker := []byte("FORWARD-MARKER-0123456789")
	app.Write(marker)
	deadline := time.Now().Add(20 * time.Second)
	for time.Now().Before(deadline) {
		mu.Lock()
		d := len(direct)
		mu.Unlock()
		up := 0
		if t := w.Chans[0].Target(0); t != nil {
			up = t.Obs().Got
		}
		if d >= len(marker) || up >= len(marker) {
			break
		}
		time.Sleep(5 * time.Millisecond)
	}
	time.Sleep(50 * time.Millisecond)
	app.Close()
	w.Ups.Shutdown()
	mu.Lock()
	d := string(direct)
	mu.Unlock()
	up := ""
	if t := w.Chans[0].Target(0); t != nil {
		up = string(t.Bytes())
	}
	switch mode {
	case "forward:reachable":
		if up != "" || w.Front.Dials > 0 {
			return "forward-not-first", fmt.Sprintf("a reachable forward address was given but the upstream was used (upstream got %q, dials=%d, direct got %q)", up, w.Front.Dials, d)
		}
		if d != string(marker) {
			return "slow", fmt.Sprintf("direct endpoint got %q within the real-time horizon", d)
		}
	case "forward:refused", "forward:absent":
		if d != "" {
			return "forward-wrong", fmt.Sprintf("direct endpoint received %q although the forward address is %s", d, mode)
		}
		if up != string(marker) {
			return "slow", fmt.Sprintf("upstream target got %q within the real-time horizon (front err %q)", up, w.Front.Err)
		}
	}
	return "", ""
}

func forwardCases(r *mc.Run, base int) {
	idx := base
	for _, mode := range []string{"forward:absent", "forward:reachable", "forward:refused", "forward:started-listener-later"} {
		if r.Mine(idx) {
			kind, detail := executeForward(mode)
			c := Case{List: []string{mode}, Concurrent: 1, Loss: "none"}
			if kind == "slow" || kind == "setup" {
				r.Inconclusive(mode + ": " + detail)
				r.Eval(1)
			} else {
				record(r, c, kind, detail)
			}
		}
		idx++
	}
	_ = upstream.Upstreams{}
}
