// Package mc is the small explorer core shared by all checks: per-process run context
// (tier, shard, replay), counters for the evidence file, failure journal with
// fingerprints, and enumeration helpers (products, bounded strings, mutation
// neighbourhoods, BFS over operation histories).
//
// A check is a Go test binary. bin/check starts N copies of it ("shards"); each copy
// enumerates the same deterministic case sequence and executes the cases whose index
// is congruent to its shard number. Every copy writes one JSON result file which
// bin/check merges into the evidence file and into VIOLATION / KNOWN-FINDING lines.
package mc

import (
	"bytes"
	"encoding/binary"
	"encoding/json"
	"fmt"
	"github.com/bokysan/socketace/v2/verifharness/syncshim"
	"hash/fnv"
	"os"
	"path/filepath"
	"runtime"
	"sort"
	"strconv"
	"strings"
	"sync"
	"syscall"
	"testing"
	"time"
)

// Failure is one observed violation of the property (or of a sub-oracle of it).
type Failure struct {
	Fingerprint string `json:"fingerprint"` // stable key: sub-oracle + component + minimal failing class
	What        string `json:"what"`        // human readable, includes the failing input / schedule
	Case        any    `json:"case"`        // replayable description (fed back through VERIF_REPLAY)
	Size        int    `json:"size"`        // smaller = simpler; the driver keeps the smallest per fingerprint
	Count       int    `json:"count"`       // number of cases with this fingerprint in this shard
}

type Run struct {
	T       *testing.T
	Prop    string
	Tier    string
	Seed    int64
	Shard   int
	NShards int
	Start   int             // resume: skip case indices < Start
	Replay  json.RawMessage // non-nil: execute exactly this case
	OutPath string
	began   time.Time

	mu           sync.Mutex
	evaluations  int64
	transitions  int64
	states       map[uint64]struct{}
	nontrivial   map[uint64]struct{}
	samples      []any
	failures     map[string]*Failure
	caps         []string
	notes        map[string]any
	inconclusive []string
	exhaustive   bool
	nextIndex    int
	deadline     time.Time
	hangs        []Hang
	guardCalls   int
	// SpinFails: a watchdog expiry during which the process burns CPU is a violation
	// ("busy-loop|..."), not just an inconclusive hang (checks whose property forbids busy loops)
	SpinFails bool
	// CrashFails: before every guarded execution the case is written to <out>.current, so that
	// bin/check can attribute a crash of the whole process (a panic on one of socketace's own
	// goroutines cannot be recovered by the harness) to that case, report it as a violation
	// ("process-crash|...") and restart the shard with that case skipped
	CrashFails  bool
	skip        map[int]bool
	memLimit    uint64 // bytes; 0 = never recycle
	recycled    bool
	inMemo      bool
	journal     map[int]journalEntry
	journalFile *os.File
}

type journalEntry struct {
	I int             `json:"i"`
	P bool            `json:"p,omitempty"` // pending marker: execution started
	D json.RawMessage `json:"d,omitempty"`
}

// Hang is an execution that did not reach quiescence within the real-time watchdog.
type Hang struct {
	Index       int    `json:"index"`
	Fingerprint string `json:"fingerprint"`
	What        string `json:"what"`
	Case        any    `json:"case"`
}

// Thorough reports whether the thorough tier was requested.
func (r *Run) Thorough() bool { return r.Tier == "thorough" }

// New builds the run context from the environment bin/check sets.
func New(t *testing.T, prop string) *Run {
	r := &Run{T: t, Prop: prop, Tier: "quick", NShards: 1, began: time.Now(),
		states: map[uint64]struct{}{}, nontrivial: map[uint64]struct{}{},
		failures: map[string]*Failure{}, notes: map[string]any{}, exhaustive: true}
	if v := os.Getenv("VERIF_TIER"); v != "" {
		r.Tier = v
	}
	if v := os.Getenv("VERIF_SEED"); v != "" {
		r.Seed, _ = strconv.ParseInt(v, 10, 64)
	}
	if v := os.Getenv("VERIF_SHARD"); v != "" {
		r.Shard, _ = strconv.Atoi(v)
	}
	if v := os.Getenv("VERIF_NSHARDS"); v != "" {
		r.NShards, _ = strconv.Atoi(v)
	}
	if v := os.Getenv("VERIF_START"); v != "" {
		r.Start, _ = strconv.Atoi(v)
	}
	if v := os.Getenv("VERIF_BUDGET_S"); v != "" {
		if s, err := strconv.Atoi(v); err == nil && s > 0 {
			r.deadline = r.began.Add(time.Duration(s) * time.Second)
		}
	}
	r.OutPath = os.Getenv("VERIF_OUT")
	r.memLimit = 2500 << 20
	if v := os.Getenv("VERIF_MEM_MB"); v != "" {
		if m, err := strconv.Atoi(v); err == nil {
			r.memLimit = uint64(m) << 20
		}
	}
	if v := os.Getenv("VERIF_SKIP"); v != "" {
		r.skip = map[int]bool{}
		for _, x := range strings.Split(v, ",") {
			if n, err := strconv.Atoi(x); err == nil {
				r.skip[n] = true
			}
		}
	}
	if p := os.Getenv("VERIF_REPLAY"); p != "" {
		b, err := os.ReadFile(p)
		if err != nil {
			t.Fatalf("cannot read replay file: %v", err)
		}
		var f struct {
			Case json.RawMessage `json:"case"`
		}
		if err := json.Unmarshal(b, &f); err != nil || f.Case == nil {
			t.Fatalf("replay file has no case: %v", err)
		}
		r.Replay = f.Case
		r.writeCurrent(-1, "replay", "replay", f.Case)
	}
	return r
}

// writeCurrent records the case that is about to run (see CrashFails).
func (r *Run) writeCurrent(idx int, fingerprint, what string, c any) {
	if r.OutPath == "" {
		return
	}
	b, err := json.Marshal(map[string]any{"index": idx, "fingerprint": fingerprint, "what": what, "case": c})
	if err == nil {
		os.WriteFile(r.OutPath+".current", b, 0o644)
	}
}

// Mine says whether the case with this index belongs to this shard (and is not before
// the resume point). In replay mode nothing is "mine": checks test r.Replay first.
func (r *Run) Mine(idx int) bool {
	if idx < r.Start || r.skip[idx] {
		return false
	}
	return idx%r.NShards == r.Shard
}

// OverBudget is true once the internal deadline of this run has passed; checks that
// honour it stop enumerating, call Cap and finish with exhaustive=false (exit 0).
func (r *Run) OverBudget() bool {
	return !r.deadline.IsZero() && time.Now().After(r.deadline)
}

func (r *Run) Eval(n int) {
	r.mu.Lock()
	r.evaluations += int64(n)
	r.mu.Unlock()
}

func (r *Run) Transition(n int) {
	r.mu.Lock()
	r.transitions += int64(n)
	r.mu.Unlock()
}

// State records one canonical state / outcome class (by hash).
func (r *Run) State(h uint64) (isNew bool) {
	r.mu.Lock()
	_, ok := r.states[h]
	if !ok {
		r.states[h] = struct{}{}
	}
	r.mu.Unlock()
	return !ok
}

// Nontrivial records one distinct non-trivial case (by hash of its identity).
func (r *Run) Nontrivial(h uint64) {
	r.mu.Lock()
	r.nontrivial[h] = struct{}{}
	r.mu.Unlock()
}

// Sample keeps up to 6 written-out cases for the evidence file.
func (r *Run) Sample(v any) {
	r.mu.Lock()
	if len(r.samples) < 6 {
		r.samples = append(r.samples, v)
	}
	r.mu.Unlock()
}

func (r *Run) Cap(name string) {
	r.mu.Lock()
	r.caps = append(r.caps, name)
	r.exhaustive = false
	r.mu.Unlock()
}

func (r *Run) Note(k string, v any) {
	r.mu.Lock()
	r.notes[k] = v
	r.mu.Unlock()
}

// AddNote adds n to an integer note.
func (r *Run) AddNote(k string, n int) {
	r.mu.Lock()
	c, _ := r.notes[k].(int)
	r.notes[k] = c + n
	r.mu.Unlock()
}

func (r *Run) Inconclusive(what string) {
	r.mu.Lock()
	if len(r.inconclusive) < 50 {
		r.inconclusive = append(r.inconclusive, what)
	}
	r.exhaustive = false
	r.mu.Unlock()
}

// Fail records a violation. The first (smallest size) case per fingerprint is kept.
func (r *Run) Fail(fingerprint, what string, size int, c any) {
	r.mu.Lock()
	defer r.mu.Unlock()
	f := r.failures[fingerprint]
	if f == nil {
		r.failures[fingerprint] = &Failure{Fingerprint: fingerprint, What: what, Case: c, Size: size, Count: 1}
		return
	}
	f.Count++
	if size < f.Size {
		f.What, f.Case, f.Size = what, c, size
	}
}

func (r *Run) Failed() bool {
	r.mu.Lock()
	defer r.mu.Unlock()
	return len(r.failures) > 0
}

// Progress lets the driver know how far a shard got if it has to be killed.
func (r *Run) Progress(nextIndex int) {
	r.mu.Lock()
	r.nextIndex = nextIndex
	r.mu.Unlock()
}

type result struct {
	Prop         string         `json:"property_id"`
	Tier         string         `json:"tier"`
	Shard        int            `json:"shard"`
	NShards      int            `json:"nshards"`
	Evaluations  int64          `json:"evaluations"`
	Transitions  int64          `json:"transitions"`
	States       int            `json:"states"`
	Nontrivial   int            `json:"distinct_nontrivial"`
	Samples      []any          `json:"samples"`
	Failures     []*Failure     `json:"failures"`
	Caps         []string       `json:"caps"`
	Notes        map[string]any `json:"notes"`
	Inconclusive []string       `json:"inconclusive"`
	Exhaustive   bool           `json:"exhaustive"`
	NextIndex    int            `json:"next_index"`
	Hangs        []Hang         `json:"hangs"`
	WallS        float64        `json:"wall_s"`
	Complete     bool           `json:"complete"`
	Recycled     bool           `json:"recycled,omitempty"` // the process handed over to a fresh one (memory), nothing was skipped
}

// Finish writes the shard's result file (and the two hash-set files next to it).
func (r *Run) Finish() { r.flush(true) }

// Checkpoint writes a partial result (complete=false) so that a killed shard still
// contributes what it covered.
func (r *Run) Checkpoint() { r.flush(false) }

func (r *Run) flush(complete bool) {
	r.mu.Lock()
	defer r.mu.Unlock()
	res := result{Prop: r.Prop, Tier: r.Tier, Shard: r.Shard, NShards: r.NShards,
		Evaluations: r.evaluations, Transitions: r.transitions, States: len(r.states),
		Nontrivial: len(r.nontrivial), Samples: r.samples, Caps: r.caps, Notes: r.notes,
		Inconclusive: r.inconclusive, Exhaustive: r.exhaustive && (complete || r.recycled), NextIndex: r.nextIndex, Hangs: r.hangs,
		WallS: time.Since(r.began).Seconds(), Complete: complete, Recycled: r.recycled}
	keys := make([]string, 0, len(r.failures))
	for k := range r.failures {
		keys = append(keys, k)
	}
	sort.Strings(keys)
	for _, k := range keys {
		res.Failures = append(res.Failures, r.failures[k])
	}
	if r.OutPath == "" {
		b, _ := json.MarshalIndent(res, "", " ")
		fmt.Println(string(b))
		if len(res.Failures) > 0 && complete {
			r.T.Errorf("%d failure fingerprints", len(res.Failures))
		}
		return
	}
	b, err := json.Marshal(res)
	if err != nil {
		r.T.Fatalf("cannot marshal result: %v", err)
	}
	writeHashes(r.OutPath+".states", r.states)
	writeHashes(r.OutPath+".nontrivial", r.nontrivial)
	tmp := r.OutPath + ".tmp"
	if err := os.WriteFile(tmp, b, 0o644); err != nil {
		r.T.Fatalf("cannot write result: %v", err)
	}
	os.Rename(tmp, r.OutPath)
}

func writeHashes(path string, m map[uint64]struct{}) {
	buf := make([]byte, 0, 8*len(m))
	var b [8]byte
	for h := range m {
		binary.LittleEndian.PutUint64(b[:], h)
		buf = append(buf, b[:]...)
	}
	os.WriteFile(path, buf, 0o644)
}

// Hash is FNV-1a over the formatted arguments.
func Hash(parts ...any) uint64 {
	h := fnv.New64a()
	for _, p := range parts {
		switch v := p.(type) {
		case []byte:
			h.Write(v)
		case string:
			h.Write([]byte(v))
		default:
			fmt.Fprintf(h, "%v", v)
		}
		h.Write([]byte{0})
	}
	return h.Sum64()
}

// DecodeReplay unmarshals the replay case into v.
func (r *Run) DecodeReplay(v any) {
	if err := json.Unmarshal(r.Replay, v); err != nil {
		r.T.Fatalf("cannot decode replay case: %v", err)
	}
}

// Guard runs one execution under a real-time watchdog. If it expires (a goroutine spins,
// or waits on something synctest does not consider durable) the hang is journalled, the
// partial result is flushed and the process exits with status 3; bin/check restarts the
// shard after this case.
func (r *Run) Guard(idx int, limit time.Duration, fingerprint, what string, c any, f func()) {
	r.maybeRecycle(idx)
	if r.CrashFails && r.Replay == nil {
		r.writeCurrent(idx, fingerprint, what, c)
	}
	done := make(chan struct{})
	go func() {
		// Steps counts returns of bubble.Wait/Advance: while it moves, the harness is still stepping the
		// execution (slow is not stuck). A livelock verdict needs all of: SpinFails asked for it, no harness
		// step for a long real time (or for 20 s together with 1.5 GiB of growth), and cores kept busy.
		why := ""
		deadline := time.After(limit)
		tick := time.NewTicker(time.Second)
		defer tick.Stop()
		var ms0 runtime.MemStats
		runtime.ReadMemStats(&ms0)
		steps, lastStep := syncshim.Steps.Load(), time.Now()
		grown := false
		for why == "" {
			select {
			case <-done:
				return
			case <-deadline:
				why = fmt.Sprintf("within %v of real time", limit)
			case <-tick.C:
				if n := syncshim.Steps.Load(); n != steps {
					steps, lastStep = n, time.Now()
				}
				// one execution that has grown the process by more than 1.5 GiB is not going to end well (the
				// sandbox has no memory limit and 16 shards run side by side): treat it as the limit having expired
				var ms runtime.MemStats
				runtime.ReadMemStats(&ms)
				if r.memLimit != 0 && ms.Sys-ms.HeapReleased > ms0.Sys-ms0.HeapReleased+(1536<<20) {
					grown = true
					why = fmt.Sprintf("and grew the process by more than 1.5 GiB within %v of real time", time.Since(lastStep).Round(time.Second))
				}
				if r.SpinFails && time.Since(lastStep) > 120*time.Second {
					why = "for 120 s of real time within one harness step"
				}
			}
		}
		{
			stalled := time.Since(lastStep)
			if r.SpinFails && (stalled > 60*time.Second || (grown && stalled > 20*time.Second)) {
				// is something spinning? a goroutine that loops without ever blocking keeps the bubble from
				// becoming quiescent and burns a core; a wait the bubble does not understand burns nothing
				c0 := cpuSeconds()
				time.Sleep(2 * time.Second)
				if used := cpuSeconds() - c0; used > 1.5 && syncshim.Steps.Load() == steps {
					r.Fail("busy-loop|"+strings.TrimPrefix(fingerprint, "hang|"), fmt.Sprintf("%s: the execution did not become quiescent %s (no harness step for %v) and the process keeps burning %.1f cores: some goroutine is looping without blocking", what, why, stalled.Round(time.Second), used/2), 0, c)
				}
			}
			r.mu.Lock()
			r.hangs = append(r.hangs, Hang{Index: idx, Fingerprint: fingerprint, What: what, Case: c})
			r.nextIndex = idx + 1
			r.exhaustive = false
			r.mu.Unlock()
			if r.Replay != nil {
				r.flush(true)
				os.Exit(0)
			}
			r.flush(false)
			os.Exit(3)
		}
	}()
	f()
	close(done)
}

// maybeRecycle hands the shard over to a fresh process when this one has grown too large:
// executions leave goroutines parked in their dead bubbles (socketace leaks some by design),
// so memory grows with the number of executions. The partial result is flushed with
// recycled=true, next_index=idx, and the process exits with status 3; bin/check starts the
// next segment at idx. Nothing is skipped, so exhaustiveness is not affected.
func (r *Run) maybeRecycle(idx int) {
	if r.Replay != nil || r.OutPath == "" || r.memLimit == 0 || r.inMemo {
		return
	}
	r.guardCalls++
	if r.guardCalls%32 != 0 {
		return
	}
	var ms runtime.MemStats
	runtime.ReadMemStats(&ms)
	if ms.Sys-ms.HeapReleased < r.memLimit {
		return
	}
	runtime.GC()
	runtime.ReadMemStats(&ms)
	if ms.HeapAlloc+ms.StackInuse < r.memLimit/2 {
		return // garbage, not a leak
	}
	r.mu.Lock()
	r.nextIndex = idx
	r.recycled = true
	r.mu.Unlock()
	r.flush(false)
	os.Exit(3)
}

func (r *Run) journalPath() string {
	if r.OutPath == "" || r.Replay != nil {
		return ""
	}
	return filepath.Join(filepath.Dir(r.OutPath), fmt.Sprintf("shard%d.journal", r.Shard))
}

// Memo makes an execution restartable for checks whose enumeration depends on earlier
// outcomes (breadth-first searches): the outcome of execution idx (whatever f stores in
// *out, JSON) is appended to a per-shard journal; a later segment of the same shard (after
// a watchdog or memory hand-over) reads it back instead of executing again. replayed is
// true in that case (the counters were already reported by the earlier segment); hung is
// true if the earlier segment started the execution and never finished it.
func (r *Run) Memo(idx int, out any, f func()) (replayed, hung bool) {
	path := r.journalPath()
	if path == "" {
		f()
		return false, false
	}
	if r.journal == nil {
		r.journal = map[int]journalEntry{}
		if b, err := os.ReadFile(path); err == nil {
			dec := json.NewDecoder(bytes.NewReader(b))
			for {
				var e journalEntry
				if err := dec.Decode(&e); err != nil {
					break
				}
				if old, ok := r.journal[e.I]; ok && !old.P && e.P {
					continue
				}
				r.journal[e.I] = e
			}
		}
		r.journalFile, _ = os.OpenFile(path, os.O_APPEND|os.O_CREATE|os.O_WRONLY, 0o644)
	}
	if e, ok := r.journal[idx]; ok {
		if e.P {
			return true, true
		}
		if err := json.Unmarshal(e.D, out); err == nil {
			return true, false
		}
	}
	w := func(e journalEntry) {
		if r.journalFile != nil {
			b, _ := json.Marshal(e)
			r.journalFile.Write(append(b, '\n'))
		}
	}
	r.maybeRecycle(idx) // before the pending marker: a hand-over is not a hang
	w(journalEntry{I: idx, P: true})
	r.inMemo = true
	f()
	r.inMemo = false
	d, _ := json.Marshal(out)
	w(journalEntry{I: idx, D: d})
	return false, false
}

// Bail ends this process at once after case idx because something socketace started cannot be
// stopped (a goroutine that loops and allocates without bound). What was recorded so far -
// including the failure that made the caller bail out - is flushed; bin/check continues the
// shard after idx in a fresh process. In replay mode the result is final.
func (r *Run) Bail(idx int) {
	if r.Replay != nil || r.OutPath == "" {
		r.flush(true)
		os.Exit(0)
	}
	r.mu.Lock()
	r.nextIndex = idx + 1
	r.recycled = true
	r.mu.Unlock()
	r.flush(false)
	os.Exit(3)
}

// cpuSeconds is the CPU time (user + system) this process has used so far.
func cpuSeconds() float64 {
	var ru syscall.Rusage
	if syscall.Getrusage(syscall.RUSAGE_SELF, &ru) != nil {
		return 0
	}
	return float64(ru.Utime.Sec+ru.Stime.Sec) + float64(ru.Utime.Usec+ru.Stime.Usec)/1e6
}
