package mc

// Product enumerates the cartesian product of the given radices in "simplest first"
// order with respect to the last dimensions varying fastest. f returns false to stop.
func Product(radices []int, f func(idx int, digits []int) bool) int {
	n := 1
	for _, r := range radices {
		if r == 0 {
			return 0
		}
		n *= r
	}
	digits := make([]int, len(radices))
	for i := 0; i < n; i++ {
		x := i
		for d := len(radices) - 1; d >= 0; d-- {
			digits[d] = x % radices[d]
			x /= radices[d]
		}
		if !f(i, digits) {
			return i + 1
		}
	}
	return n
}

// Strings enumerates all strings over alphabet of length 0..maxLen, shortest first.
func Strings(alphabet []byte, maxLen int, f func(idx int, s []byte) bool) int {
	idx := 0
	for l := 0; l <= maxLen; l++ {
		buf := make([]byte, l)
		pos := make([]int, l)
		for {
			for i := 0; i < l; i++ {
				buf[i] = alphabet[pos[i]]
			}
			if !f(idx, buf) {
				return idx + 1
			}
			idx++
			i := l - 1
			for ; i >= 0; i-- {
				pos[i]++
				if pos[i] < len(alphabet) {
					break
				}
				pos[i] = 0
			}
			if i < 0 {
				break
			}
		}
	}
	return idx
}

// Edit is a single-byte edit of a seed message.
type Edit struct {
	Kind byte // 's' substitute, 'i' insert, 'd' delete
	Pos  int
	B    byte
}

// Apply returns the edited copy of seed.
func (e Edit) Apply(seed []byte) []byte {
	out := make([]byte, 0, len(seed)+1)
	switch e.Kind {
	case 's':
		out = append(out, seed...)
		out[e.Pos] = e.B
	case 'i':
		out = append(out, seed[:e.Pos]...)
		out = append(out, e.B)
		out = append(out, seed[e.Pos:]...)
	case 'd':
		out = append(out, seed[:e.Pos]...)
		out = append(out, seed[e.Pos+1:]...)
	}
	return out
}

// Mutations enumerates every single edit of seed with every byte of the set
// (substitutions equal to the original byte are skipped).
func Mutations(seed []byte, set []byte, f func(idx int, e Edit) bool) int {
	idx := 0
	for pos := 0; pos <= len(seed); pos++ {
		if pos < len(seed) {
			if !f(idx, Edit{Kind: 'd', Pos: pos}) {
				return idx + 1
			}
			idx++
			for _, b := range set {
				if b == seed[pos] {
					continue
				}
				if !f(idx, Edit{Kind: 's', Pos: pos, B: b}) {
					return idx + 1
				}
				idx++
			}
		}
		for _, b := range set {
			if !f(idx, Edit{Kind: 'i', Pos: pos, B: b}) {
				return idx + 1
			}
			idx++
		}
	}
	return idx
}
