// Package bubble runs one execution of a scenario inside a testing/synctest bubble:
// fake clock, quiescence detection (synctest.Wait), leak-tolerant exit, goroutine census
// and a deterministic detector for known busy loops (logrus hook).
package bubble

import (
	"fmt"
	"github.com/bokysan/socketace/v2/verifharness/syncshim"
	"io"
	"os"
	"regexp"
	"runtime"
	"sort"
	"strings"
	"sync"
	"sync/atomic"
	"testing"
	"testing/synctest"
	"time"

	log "github.com/sirupsen/logrus"
)

// Result of one bubble execution.
type Result struct {
	Panic     string // panic raised by the scenario body (not the leak panic)
	Leaked    bool   // goroutines were still blocked when the root returned
	LeakText  string // synctest's listing of them
	SpinCount int    // times the spin detector parked a goroutine
	SpinMsg   string
}

var spinLimit int64 = 2000

type spinHook struct {
	mu      sync.Mutex
	counts  map[string]int64
	parked  int64
	lastMsg string
	recent  []string
	active  atomic.Bool
}

func (h *spinHook) Levels() []log.Level { return []log.Level{log.ErrorLevel, log.WarnLevel} }

var digits = regexp.MustCompile(`[0-9]+`)

func (h *spinHook) Fire(e *log.Entry) error {
	if !h.active.Load() {
		return nil
	}
	key := digits.ReplaceAllString(e.Message, "#")
	if len(key) > 80 {
		key = key[:80]
	}
	h.mu.Lock()
	if len(h.recent) < 12 {
		m := e.Message
		if len(m) > 300 {
			m = m[:300]
		}
		h.recent = append(h.recent, m)
	}
	h.counts[key]++
	n := h.counts[key]
	if n > spinLimit {
		h.parked++
		h.lastMsg = key
	}
	h.mu.Unlock()
	if n > spinLimit {
		// End the spinning goroutine. Goexit runs its deferred calls (logrus holds its logger
		// mutex while firing hooks; parking here would block every other logging goroutine on a
		// sync.Mutex, which synctest does not consider durable). The violation is reported by
		// the caller through Spins().
		runtime.Goexit()
	}
	return nil
}

func (h *spinHook) reset() {
	h.mu.Lock()
	h.counts = map[string]int64{}
	h.parked = 0
	h.lastMsg = ""
	h.recent = nil
	h.mu.Unlock()
}

// ResetStep clears the per-step repetition counters (a spin is many repetitions of the
// same record within ONE step, not across a long execution).
func ResetStep() {
	hook.mu.Lock()
	hook.counts = map[string]int64{}
	hook.mu.Unlock()
}

// RecentLogs returns the first warn/error log records of this execution (diagnostics only).
func RecentLogs() []string {
	hook.mu.Lock()
	defer hook.mu.Unlock()
	return append([]string{}, hook.recent...)
}

// Spins reports how many goroutines were parked by the detector in this execution.
func Spins() (int, string) {
	hook.mu.Lock()
	defer hook.mu.Unlock()
	return int(hook.parked), hook.lastMsg
}

var hook = &spinHook{counts: map[string]int64{}}
var hookOnce sync.Once

// SetupLogging routes logrus to /dev/null at Warn level with the spin hook installed.
func SetupLogging() {
	hookOnce.Do(func() {
		log.SetOutput(io.Discard)
		log.SetLevel(log.WarnLevel)
		if os.Getenv("VERIF_LOG") != "" { // debugging aid: full socketace log on stderr
			log.SetOutput(os.Stderr)
			if lvl, err := log.ParseLevel(os.Getenv("VERIF_LOG")); err == nil {
				log.SetLevel(lvl)
			}
		}
		log.AddHook(hook)
	})
}

// Run executes body in a fresh bubble. A panic of body is captured; goroutines left
// blocked at the end (socketace leaks some by design of its accept loops) are reported,
// not fatal.
func Run(t *testing.T, body func()) (res Result) {
	SetupLogging()
	syncshim.Epoch.Add(1)
	hook.reset()
	hook.active.Store(true)
	defer hook.active.Store(false)
	func() {
		defer func() {
			if p := recover(); p != nil {
				s := fmt.Sprint(p)
				if strings.Contains(s, "blocked goroutines remain") || strings.Contains(s, "deadlock: main bubble goroutine has exited") {
					res.Leaked = true
					res.LeakText = s
					return
				}
				res.Panic = s
			}
		}()
		synctest.Test(t, func(t *testing.T) {
			defer func() {
				if p := recover(); p != nil {
					buf := make([]byte, 4096)
					buf = buf[:runtime.Stack(buf, false)]
					res.Panic = fmt.Sprintf("%v\n%s", p, buf)
				}
			}()
			body()
		})
	}()
	n, msg := Spins()
	res.SpinCount, res.SpinMsg = n, msg
	return res
}

// Wait is synctest.Wait: returns when every goroutine of the bubble is durably blocked.
func Wait() { synctest.Wait(); syncshim.Steps.Add(1) }

// Advance moves the fake clock forward by d, running whatever timers fire, and returns at
// the next quiescence.
func Advance(d time.Duration) {
	time.Sleep(d)
	synctest.Wait()
	syncshim.Steps.Add(1)
}

var bubbleRe = regexp.MustCompile(`synctest bubble (\d+)\]`)
var goroutineHdr = regexp.MustCompile(`(?m)^goroutine \d+ .*\[(.*)\]:$`)

// Census returns, for the goroutines of the current bubble (excluding the caller), a
// sorted multiset of "top user function" strings. Used by the leak oracles.
func Census() []string {
	buf := make([]byte, 1<<20)
	for {
		n := runtime.Stack(buf, true)
		if n < len(buf) {
			buf = buf[:n]
			break
		}
		buf = make([]byte, 2*len(buf))
	}
	var out []string
	mine := ""
	for i, g := range strings.Split(string(buf), "\n\n") {
		lines := strings.Split(g, "\n")
		if i == 0 {
			// the caller: remember which bubble it is in; goroutines leaked by earlier executions
			// stay parked in their dead bubbles and must not be counted
			if m := bubbleRe.FindStringSubmatch(lines[0]); m != nil {
				mine = m[1]
			}
			continue
		}
		m := bubbleRe.FindStringSubmatch(lines[0])
		if len(lines) == 0 || m == nil || m[1] != mine {
			continue
		}
		if strings.Contains(g, "testing/synctest.Test") && strings.Contains(lines[0], "synctest.Run") {
			continue
		}
		// created by line identifies the spawning function
		created := ""
		top := ""
		for _, l := range lines[1:] {
			if strings.HasPrefix(l, "created by ") {
				created = strings.TrimPrefix(l, "created by ")
				if j := strings.Index(created, " in goroutine"); j > 0 {
					created = created[:j]
				}
			}
			if top == "" && !strings.HasPrefix(l, "\t") && !strings.HasPrefix(l, "runtime.") && !strings.HasPrefix(l, "internal/") && !strings.HasPrefix(l, "sync.") && !strings.HasPrefix(l, "time.") && l != "" {
				top = l
				if j := strings.LastIndex(top, "("); j > 0 {
					top = top[:j]
				}
			}
		}
		out = append(out, created+" @ "+top)
	}
	sort.Strings(out)
	return out
}
